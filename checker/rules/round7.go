package rules

// Round 7 (seeds C01-16 … C10-16): imports of sibling rules that are necessary conditions of a second property, and
// three new generic rule classes:
//
//   errorPathNotSwallowed  on the non-nil edge of a test of an error obtained from a call, no reachable return hands
//                          back a nil error (R02m; seed C02-17: ignore_error also swallowed argument failures)
//   comparisonsExact       no operand of a string comparison in the reader packages derives from a case-folding or
//                          white-space-normalising function (R05p, R06q; seeds C05-20, C06-18)
//   scannerNotReconfigured bufio.Scanner limits are not lowered by repo code (R07o; seed C07-21)

import (
	"fmt"
	"go/constant"
	"go/token"
	"go/types"
	"sort"
	"strings"

	"golang.org/x/tools/go/ssa"

	"omnilint/core"
)

// ---------------------------------------------------------------- errors are not swallowed on their own error path

func r7isErrorType(t types.Type) bool {
	return t != nil && types.Identical(t, types.Universe.Lookup("error").Type())
}

// r7errFromCall: v is the error result of a call (directly or through Extract), possibly merged by phis.
func r7errFromCall(v ssa.Value, seen map[ssa.Value]bool) (ssa.CallInstruction, bool) {
	if seen[v] {
		return nil, false
	}
	seen[v] = true
	switch x := v.(type) {
	case *ssa.Call:
		return x, true
	case *ssa.Extract:
		if call, ok := x.Tuple.(*ssa.Call); ok {
			return call, true
		}
	case *ssa.Phi:
		for _, e := range x.Edges {
			if call, ok := r7errFromCall(e, seen); ok {
				return call, true
			}
		}
	}
	return nil, false
}

// r7sentinelHelper: fn is a repo predicate `func(err error) bool { return err == <package-level error variable> }` (or !=):
// the index of the compared parameter, whether true means "is the sentinel", and the variable.
func r7sentinelHelper(fn *ssa.Function) (int, bool, *ssa.Global, bool) {
	if fn == nil || fn.Blocks == nil || len(fn.Blocks) != 1 || !core.InRepo(core.FuncPkg(fn)) {
		return 0, false, nil, false
	}
	b := fn.Blocks[0]
	ret, ok := b.Instrs[len(b.Instrs)-1].(*ssa.Return)
	if !ok || len(ret.Results) != 1 {
		return 0, false, nil, false
	}
	bo, ok := ret.Results[0].(*ssa.BinOp)
	if !ok || (bo.Op != token.EQL && bo.Op != token.NEQ) {
		return 0, false, nil, false
	}
	glob := func(v ssa.Value) *ssa.Global {
		if u, ok := v.(*ssa.UnOp); ok && u.Op == token.MUL {
			g, _ := u.X.(*ssa.Global)
			return g
		}
		return nil
	}
	for _, pair := range [][2]ssa.Value{{bo.X, bo.Y}, {bo.Y, bo.X}} {
		prm, ok := pair[0].(*ssa.Parameter)
		g := glob(pair[1])
		if !ok || g == nil {
			continue
		}
		for i, fp := range fn.Params {
			if fp == prm {
				return i, bo.Op == token.EQL, g, true
			}
		}
	}
	return 0, false, nil, false
}

// r7sentinelEdge: block x ends in a test `ev == <package-level error variable>` (or !=, or errors.Is(ev, <variable>)):
// the successor on which the error IS the sentinel is returned — an end-of-input or not-found sentinel is not a failure.
func r7sentinelEdge(x *ssa.BasicBlock, ev ssa.Value) *ssa.BasicBlock {
	if len(x.Instrs) == 0 {
		return nil
	}
	ifi, ok := x.Instrs[len(x.Instrs)-1].(*ssa.If)
	if !ok {
		return nil
	}
	isSentinel := func(v ssa.Value) bool {
		if mi, ok := v.(*ssa.MakeInterface); ok {
			v = mi.X
		}
		u, ok := v.(*ssa.UnOp)
		if !ok || u.Op != token.MUL {
			return false
		}
		_, isGlobal := u.X.(*ssa.Global)
		return isGlobal
	}
	same := func(v ssa.Value) bool {
		if v == ev {
			return true
		}
		// the tested value and ev are merged by the same phi / ev is a phi over v
		if p, ok := ev.(*ssa.Phi); ok {
			for _, e := range p.Edges {
				if e == v {
					return true
				}
			}
		}
		if p, ok := v.(*ssa.Phi); ok {
			for _, e := range p.Edges {
				if e == ev {
					return true
				}
			}
		}
		return false
	}
	cond := ifi.Cond
	tEdge, fEdge := x.Succs[0], x.Succs[1]
	for {
		u, ok := cond.(*ssa.UnOp)
		if !ok || u.Op != token.NOT {
			break
		}
		cond = u.X
		tEdge, fEdge = fEdge, tEdge
	}
	if call, ok := cond.(*ssa.Call); ok {
		if idx, eqTrue, _, ok := r7sentinelHelper(call.Call.StaticCallee()); ok && idx < len(call.Call.Args) && same(call.Call.Args[idx]) {
			if eqTrue {
				return tEdge
			}
			return fEdge
		}
	}
	switch c := ifi.Cond.(type) {
	case *ssa.BinOp:
		if c.Op != token.EQL && c.Op != token.NEQ {
			return nil
		}
		if (same(c.X) && isSentinel(c.Y)) || (same(c.Y) && isSentinel(c.X)) {
			if c.Op == token.EQL {
				return x.Succs[0]
			}
			return x.Succs[1]
		}
	case *ssa.Call:
		if r7calleeName(c) == "errors.Is" && len(c.Call.Args) == 2 && same(c.Call.Args[0]) && isSentinel(c.Call.Args[1]) {
			return x.Succs[0]
		}
	}
	return nil
}

// r7selectionHelper: f's first result is *idr.Node and the failing call is to a function of f's own package.
func r7selectionHelper(f *ssa.Function, call ssa.CallInstruction) bool {
	res := f.Signature.Results()
	if res.Len() != 2 {
		return false
	}
	ptr, ok := res.At(0).Type().(*types.Pointer)
	if !ok {
		return false
	}
	n := core.NamedOf(ptr.Elem())
	if n == nil || n.Obj().Name() != "Node" || n.Obj().Pkg() == nil || core.Rel(n.Obj().Pkg().Path()) != "idr" {
		return false
	}
	o := core.CalleeObj(call)
	return o != nil && o.Pkg() != nil && o.Pkg() == core.FuncPkg(f)
}

// r7xpathComputation: the failing call is a function of f's own package whose first result is a string that f hands to
// package idr as a query (an argument of a call into idr next to a *idr.Node): the xpath computation. Its failure means
// "nothing selected" wherever the selection is made (benign 76: the array loop split into a helper).
func r7xpathComputation(f *ssa.Function, call ssa.CallInstruction) bool {
	o := core.CalleeObj(call)
	cv, isCall := call.(*ssa.Call)
	if o == nil || o.Pkg() == nil || o.Pkg() != core.FuncPkg(f) || !isCall {
		return false
	}
	for _, u := range core.Referrers(cv) {
		ex, ok := u.(*ssa.Extract)
		if !ok || ex.Index != 0 {
			continue
		}
		if bt, ok := ex.Type().Underlying().(*types.Basic); !ok || bt.Info()&types.IsString == 0 {
			continue
		}
		for _, uu := range core.Referrers(ex) {
			if ci, ok := uu.(ssa.CallInstruction); ok {
				if co := core.CalleeObj(ci); co != nil && co.Pkg() != nil && core.Rel(co.Pkg().Path()) == "idr" {
					return true
				}
			}
		}
	}
	return false
}

// errorPathNotSwallowed: for every `if err != nil` / `if err == nil` on an error that comes from a call, walk forward
// from the non-nil edge (never along a loop back edge): a return whose error result is the constant nil is a swallowed
// failure. allow lists, by function key, the returns that are intended (one reason each).
func errorPathNotSwallowed(c *core.Ctx, rule string, pkgs []string, allow map[string]string) {
	c.SSA()
	tests := 0
	for _, f := range c.RepoFunctions() {
		if core.IsCLIOrSample(core.FuncPkg(f)) || !inPkgs(core.FuncPkg(f), pkgs) || f.Blocks == nil {
			continue
		}
		res := f.Signature.Results()
		if res.Len() == 0 || !r7isErrorType(res.At(res.Len()-1).Type()) {
			continue
		}
		fk := core.FuncKey(f)
		reported := map[string]bool{}
		for _, b := range f.Blocks {
			if len(b.Instrs) == 0 {
				continue
			}
			ifi, ok := b.Instrs[len(b.Instrs)-1].(*ssa.If)
			if !ok {
				continue
			}
			cmp, ok := ifi.Cond.(*ssa.BinOp)
			if !ok || (cmp.Op != token.NEQ && cmp.Op != token.EQL) {
				continue
			}
			var ev ssa.Value
			switch {
			case core.IsNilConst(cmp.Y) && r7isErrorType(cmp.X.Type()):
				ev = cmp.X
			case core.IsNilConst(cmp.X) && r7isErrorType(cmp.Y.Type()):
				ev = cmp.Y
			default:
				continue
			}
			call, ok := r7errFromCall(ev, map[ssa.Value]bool{})
			if !ok {
				continue
			}
			callee := "a call"
			if o := core.CalleeObj(call); o != nil {
				callee = core.FuncName(o)
			}
			start := b.Succs[0]
			if cmp.Op == token.EQL {
				start = b.Succs[1]
			}
			tests++
			key := fk + " error of " + callee
			// forward walk without back edges
			seen := map[*ssa.BasicBlock]bool{}
			var bad *ssa.Return
			var walk func(x, from *ssa.BasicBlock)
			walk = func(x, from *ssa.BasicBlock) {
				if seen[x] || bad != nil {
					return
				}
				seen[x] = true
				if len(x.Instrs) > 0 {
					if ret, ok := x.Instrs[len(x.Instrs)-1].(*ssa.Return); ok && len(ret.Results) > 0 {
						if core.IsNilConst(ret.Results[len(ret.Results)-1]) {
							bad = ret
							return
						}
					}
				}
				skip := r7sentinelEdge(x, ev)
				// a short-circuit condition (a || b) is a phi of booleans: entering from the predecessor whose edge is a
				// constant, only the corresponding successor is feasible
				var only *ssa.BasicBlock
				if len(x.Instrs) > 0 && from != nil {
					if ifi, ok := x.Instrs[len(x.Instrs)-1].(*ssa.If); ok {
						if ph, ok := ifi.Cond.(*ssa.Phi); ok && ph.Block() == x {
							for pi, pr := range x.Preds {
								if pr != from || pi >= len(ph.Edges) {
									continue
								}
								if k, ok := ph.Edges[pi].(*ssa.Const); ok && k.Value != nil && k.Value.Kind() == constant.Bool {
									if constant.BoolVal(k.Value) {
										only = x.Succs[0]
									} else {
										only = x.Succs[1]
									}
								}
							}
						}
					}
				}
				for _, s := range x.Succs {
					if s.Dominates(x) || s == skip || (only != nil && s != only) { // back edge / sentinel (io.EOF, ErrNoMatch…) / infeasible
						continue
					}
					walk(s, x)
				}
				if only != nil {
					delete(seen, x) // the block may be entered again from another predecessor with another outcome
				}
			}
			walk(start, b)
			if reported[key] {
				continue
			}
			reported[key] = true
			switch {
			case bad == nil:
				c.OK(rule, key, core.InstrPos(ifi), "no return with a nil error is reachable from the failure edge")
			case allow[key] != "" || r7selectionHelper(f, call) || r7xpathComputation(f, call):
				c.Arg(rule, key, core.InstrPos(bad), "intended: a selection whose path cannot be computed (the failing call is the function of this package whose string result is the query handed to package idr, or this function is a node-selection helper) selects nothing — pinned by parse_test.go (\"computeXPath failed so we default value to nil\")")
			default:
				c.Bad(rule, key, core.InstrPos(bad), "a return with a nil error is reachable from the edge on which the error of "+callee+" is non-nil: the failure is swallowed and the record is emitted (or omitted) as if nothing happened")
			}
		}
	}
	c.Note("%s: %d error tests examined", rule, tests)
}

// ---------------------------------------------------------------- comparisons are exact

var r7normalisers = map[string]bool{
	"strings.EqualFold": true, "strings.ToLower": true, "strings.ToUpper": true, "strings.ToTitle": true, "strings.Title": true,
	"strings.ToLowerSpecial": true, "strings.ToUpperSpecial": true, "strings.Fields": true, "strings.FieldsFunc": true,
	"strings.Map": true, "strings.Replace": true, "strings.ReplaceAll": true, "strings.ToValidUTF8": true,
	"strings.Replacer.Replace": true,
	"bytes.EqualFold":          true, "bytes.ToLower": true, "bytes.ToUpper": true, "bytes.ToTitle": true, "bytes.Title": true,
	"bytes.Fields": true, "bytes.FieldsFunc": true, "bytes.Map": true, "bytes.Replace": true, "bytes.ReplaceAll": true, "bytes.ToValidUTF8": true,
	"unicode.ToLower": true, "unicode.ToUpper": true, "unicode.ToTitle": true, "unicode.SimpleFold": true,
}

// r7calleeName: "pkg.Func" or "pkg.Type.Method" (pkg = last path element).
func r7calleeName(ci ssa.CallInstruction) string {
	o := core.CalleeObj(ci)
	if o == nil || o.Pkg() == nil {
		return ""
	}
	if strings.HasPrefix(o.Pkg().Path(), "golang.org/x/text/cases") {
		return "strings.ToLower" // any caser is a normaliser
	}
	path := o.Pkg().Path()
	if i := strings.LastIndex(path, "/"); i >= 0 {
		path = path[i+1:]
	}
	return path + "." + core.FuncName(o)
}

// comparisonsExact: in the given packages every string comparison (==, !=, switch, map lookup by a string key,
// strings.Compare / HasPrefix style predicates are NOT comparisons of whole names and stay out) is examined: the
// operands are followed back through phis, conversions, slices, string-valued library calls, the results of repo
// functions (depth 3) and — for parameters — the arguments at the call sites inside the package (depth 2). A call of a
// normalising function (case folding, Fields, Map, Replace…) on that ancestry makes two different input texts compare
// equal: a declared name then accepts units it does not name (C05), a header that differs is let through (C06).
// strings.TrimSpace is not a normaliser here (the csv header rule trims, as documented).
func comparisonsExact(c *core.Ctx, rule string, pkgs []string) {
	c.SSA()
	cg := c.CallGraph()
	n := 0
	var find func(v ssa.Value, seen map[ssa.Value]bool, d, up int) (string, token.Pos)
	find = func(v ssa.Value, seen map[ssa.Value]bool, d, up int) (string, token.Pos) {
		if v == nil || seen[v] || len(seen) > 400 {
			return "", token.NoPos
		}
		seen[v] = true
		switch x := v.(type) {
		case *ssa.Phi:
			for _, e := range x.Edges {
				if s, p := find(e, seen, d, up); s != "" {
					return s, p
				}
			}
		case *ssa.Convert:
			return find(x.X, seen, d, up)
		case *ssa.ChangeType:
			return find(x.X, seen, d, up)
		case *ssa.MakeInterface:
			return find(x.X, seen, d, up)
		case *ssa.Slice:
			return find(x.X, seen, d, up)
		case *ssa.Extract:
			return find(x.Tuple, seen, d, up)
		case *ssa.Index:
			return find(x.X, seen, d, up)
		case *ssa.UnOp:
			if x.Op == token.MUL {
				if ia, ok := x.X.(*ssa.IndexAddr); ok {
					return find(ia.X, seen, d, up)
				}
			}
		case *ssa.Call:
			name := r7calleeName(x)
			if r7normalisers[name] {
				return name, core.InstrPos(x)
			}
			callee := x.Call.StaticCallee()
			if callee != nil && callee.Blocks != nil && core.InRepo(core.FuncPkg(callee)) {
				if d >= 3 {
					return "", token.NoPos
				}
				for _, b := range callee.Blocks {
					for _, in := range b.Instrs {
						if ret, ok := in.(*ssa.Return); ok {
							for _, r := range ret.Results {
								if s, p := find(r, seen, d+1, up); s != "" {
									return s, p
								}
							}
						}
					}
				}
				return "", token.NoPos
			}
			// library call: the value derives from its string/[]byte arguments
			for _, a := range x.Call.Args {
				if s, p := find(a, seen, d, up); s != "" {
					return s, p
				}
			}
		case *ssa.Parameter:
			if up >= 2 {
				return "", token.NoPos
			}
			fn := x.Parent()
			idx := -1
			for i, fp := range fn.Params {
				if fp == x {
					idx = i
				}
			}
			node := cg.Nodes[fn]
			if idx < 0 || node == nil {
				return "", token.NoPos
			}
			for _, e := range node.In {
				if e.Site == nil || e.Caller == nil || e.Caller.Func == nil || core.FuncPkg(e.Caller.Func) != core.FuncPkg(fn) {
					continue
				}
				args := e.Site.Common().Args
				if e.Site.Common().IsInvoke() || idx >= len(args) {
					continue
				}
				if s, p := find(args[idx], seen, d, up+1); s != "" {
					return s, p
				}
			}
		}
		return "", token.NoPos
	}
	for _, f := range c.RepoFunctions() {
		if core.IsCLIOrSample(core.FuncPkg(f)) || !inPkgs(core.FuncPkg(f), pkgs) {
			continue
		}
		fk := core.FuncKey(f)
		done := map[string]bool{}
		report := func(what string, pos token.Pos, norm string, npos token.Pos) {
			key := fk + " " + what
			if norm == "" {
				if !done[key] {
					done[key] = true
					n++
					c.OK(rule, key, pos, "operands are not normalised")
				}
				return
			}
			key = fk + " compares a value normalised by " + norm
			if done[key] {
				return
			}
			done[key] = true
			if !npos.IsValid() {
				npos = pos
			}
			c.Bad(rule, key, npos, "an operand of a string comparison derives from "+norm+": two different input texts compare equal (a declared name accepts units it does not name; a header that differs is let through)")
		}
		for _, b := range f.Blocks {
			for _, in := range b.Instrs {
				switch x := in.(type) {
				case *ssa.BinOp:
					if x.Op != token.EQL && x.Op != token.NEQ {
						continue
					}
					bt, ok := x.X.Type().Underlying().(*types.Basic)
					if !ok || bt.Info()&types.IsString == 0 {
						continue
					}
					s, p := find(x.X, map[ssa.Value]bool{}, 0, 0)
					if s == "" {
						s, p = find(x.Y, map[ssa.Value]bool{}, 0, 0)
					}
					report("string comparisons", core.InstrPos(x), s, p)
				case *ssa.Lookup:
					if _, isMap := x.X.Type().Underlying().(*types.Map); !isMap {
						continue
					}
					s, p := find(x.Index, map[ssa.Value]bool{}, 0, 0)
					report("string comparisons", core.InstrPos(x), s, p)
				case *ssa.Call:
					name := r7calleeName(x)
					if name == "strings.EqualFold" || name == "bytes.EqualFold" {
						report("", core.InstrPos(x), name, core.InstrPos(x))
					}
				}
			}
		}
	}
	c.Floor(rule, 3, "functions with string comparisons in "+strings.Join(pkgs, ", "))
	_ = n
}

// ---------------------------------------------------------------- scanner limits

// scannerNotReconfigured: the segment scanner is created by ios.NewScannerByDelim3, which sets bufio's default token limit
// (64 KiB). Repo code that calls (*bufio.Scanner).Buffer with a smaller (or non-constant) maximum, or installs another
// split function, changes where — and whether — segments end.
func scannerNotReconfigured(c *core.Ctx, rule string) {
	c.SSA()
	ctors := 0
	for _, f := range c.RepoFunctions() {
		if core.IsCLIOrSample(core.FuncPkg(f)) {
			continue
		}
		fk := core.FuncKey(f)
		for _, ci := range core.Calls(f) {
			name := r7calleeName(ci)
			switch {
			case name == "ios.NewScannerByDelim3" || name == "ios.NewScannerByDelim2" || name == "ios.NewScannerByDelim" || name == "bufio.NewScanner":
				ctors++
				c.OK(rule, fk+" creates a scanner", core.InstrPos(ci), name)
			case name == "bufio.Scanner.Buffer":
				args := ci.Common().Args
				good := false
				if len(args) == 3 {
					if k, ok := args[2].(*ssa.Const); ok && k.Value != nil && k.Value.Kind() == constant.Int {
						if v, exact := constant.Int64Val(k.Value); exact && v >= 64*1024 {
							good = true
						}
					}
				}
				c.Check(good, rule, fk+" sets the scanner's token limit", core.InstrPos(ci), "constant limit of at least bufio.MaxScanTokenSize",
					"the scanner's maximum token size is set to a value that is not a constant >= 64 KiB: a well-formed segment longer than the new limit is no longer tokenized (bufio.ErrTooLong) although the documented tokenization accepts it")
			case name == "bufio.Scanner.Split":
				c.Bad(rule, fk+" replaces the scanner's split function", core.InstrPos(ci), "the split function installed by the ios constructor (delimiter + release character aware) is replaced")
			}
		}
	}
	c.Floor(rule, 1, "scanner constructions")
	_ = ctors
}

// ---------------------------------------------------------------- callbacks handed to library decoders

// decoderCallbacksHonourContract: encoding/xml panics ("CharsetReader returned a nil Reader") when the function stored in
// Decoder.CharsetReader returns a nil reader together with a nil error. When repo code stores one of its own functions
// there, none of that function's returns may have both results nil (seed C03-17: a 'lenient' wrapper returned (nil, nil)
// for unknown labels). A library function stored directly (charset.NewReaderLabel) is trusted to honour the contract.
func decoderCallbacksHonourContract(c *core.Ctx, rule string) {
	c.SSA()
	n := 0
	mayNil := func(v ssa.Value, pred int) bool {
		if core.IsNilConst(v) {
			return true
		}
		if p, ok := v.(*ssa.Phi); ok && pred >= 0 && pred < len(p.Edges) {
			return core.IsNilConst(p.Edges[pred])
		}
		return false
	}
	for _, f := range c.RepoFunctions() {
		if core.IsCLIOrSample(core.FuncPkg(f)) {
			continue
		}
		for _, w := range core.Writes(f) {
			if w.Kind != "field" || w.Field == nil || w.Field.Name() != "CharsetReader" || w.Field.Pkg() == nil || w.Field.Pkg().Path() != "encoding/xml" {
				continue
			}
			n++
			key := core.FuncKey(f) + " sets xml.Decoder.CharsetReader"
			var target *ssa.Function
			switch x := w.Val.(type) {
			case *ssa.Function:
				target = x
			case *ssa.MakeClosure:
				target, _ = x.Fn.(*ssa.Function)
			case *ssa.UnOp:
				// a package-level variable holding the callback (benign 96): every store into it must be one function
				if g, ok := x.X.(*ssa.Global); ok && x.Op == token.MUL {
					var fns []*ssa.Function
					opaque := false
					for _, gf := range c.RepoFunctions() {
						for _, gw := range core.Writes(gf) {
							if gw.Kind == "global" && gw.Global == g {
								if fn, ok := gw.Val.(*ssa.Function); ok {
									fns = append(fns, fn)
								} else {
									opaque = true
								}
							}
						}
					}
					if g.Pkg != nil {
						if initf := g.Pkg.Func("init"); initf != nil {
							for _, gw := range core.Writes(initf) {
								if gw.Kind == "global" && gw.Global == g {
									if fn, ok := gw.Val.(*ssa.Function); ok {
										fns = append(fns, fn)
									} else {
										opaque = true
									}
								}
							}
						}
					}
					same := len(fns) > 0
					for _, fn := range fns {
						if fn != fns[0] {
							same = false
						}
					}
					if !opaque && same {
						target = fns[0]
					}
				}
			}
			if target == nil {
				c.Unknown(rule, key, w.Pos, "the stored callback is not a function or closure this rule can inspect")
				continue
			}
			if target.Blocks == nil || !core.InRepo(core.FuncPkg(target)) {
				c.OK(rule, key, w.Pos, "library function "+target.String()+" stored directly")
				continue
			}
			bad := token.NoPos
			for _, b := range target.Blocks {
				if len(b.Instrs) == 0 {
					continue
				}
				ret, ok := b.Instrs[len(b.Instrs)-1].(*ssa.Return)
				if !ok || len(ret.Results) != 2 {
					continue
				}
				r0, r1 := ret.Results[0], ret.Results[1]
				// a value converted to the interface from a typed nil cannot be told apart here; constants and phi edges only
				if core.IsNilConst(r0) && core.IsNilConst(r1) {
					bad = core.InstrPos(ret)
				}
				p0, ok0 := r0.(*ssa.Phi)
				p1, ok1 := r1.(*ssa.Phi)
				if ok0 && ok1 && p0.Block() == p1.Block() {
					for i := range p0.Edges {
						if mayNil(r0, i) && mayNil(r1, i) {
							bad = core.InstrPos(ret)
						}
					}
				} else if ok0 && core.IsNilConst(r1) {
					for i := range p0.Edges {
						if mayNil(r0, i) {
							bad = core.InstrPos(ret)
						}
					}
				} else if ok1 && core.IsNilConst(r0) {
					for i := range p1.Edges {
						if mayNil(r1, i) {
							bad = core.InstrPos(ret)
						}
					}
				}
			}
			if bad.IsValid() {
				c.Bad(rule, key, bad, "the repo function stored as CharsetReader can return a nil reader with a nil error: encoding/xml panics (\"CharsetReader returned a nil Reader\") inside Token, i.e. inside Read")
			} else {
				c.OK(rule, key, w.Pos, "no return of "+core.FuncKey(target)+" has both results nil")
			}
		}
	}
	c.Floor(rule, 1, "CharsetReader assignments")
	_ = n
}

// ---------------------------------------------------------------- positioning loops consult the physical line counter

// r7naturalLoop: blocks of the natural loop of back edge t -> h.
func r7naturalLoop(h, t *ssa.BasicBlock) map[*ssa.BasicBlock]bool {
	loop := map[*ssa.BasicBlock]bool{h: true}
	var stack []*ssa.BasicBlock
	if !loop[t] {
		loop[t] = true
		stack = append(stack, t)
	}
	for len(stack) > 0 {
		x := stack[len(stack)-1]
		stack = stack[:len(stack)-1]
		for _, p := range x.Preds {
			if !loop[p] {
				loop[p] = true
				stack = append(stack, p)
			}
		}
	}
	return loop
}

// positioningByLineCounter: header_row_index / data_row_index are physical line numbers, but one Read of the csv decoder
// consumes one RECORD, which may span several physical lines (quoted field with embedded newline) or none that counts (a
// failing read). A loop that skips records (calls the line-reporting reader's Read and drops the record) must therefore
// be controlled, at its header, by a comparison whose operand is the reader's LineNum() evaluated inside the loop — not
// by a count computed before the loop (seed C06-8) nor by a counter of successful reads (seed C01-15).
func positioningByLineCounter(c *core.Ctx, rule string, pkgs []string) {
	c.SSA()
	hasLineNum := func(t types.Type) bool {
		ms := c.SSA().MethodSets.MethodSet(t)
		for i := 0; i < ms.Len(); i++ {
			if ms.At(i).Obj().Name() == "LineNum" {
				return true
			}
		}
		return false
	}
	for _, f := range c.RepoFunctions() {
		if core.IsCLIOrSample(core.FuncPkg(f)) || !inPkgs(core.FuncPkg(f), pkgs) {
			continue
		}
		fk := core.FuncKey(f)
		for _, t := range f.Blocks {
			for _, h := range t.Succs {
				if !h.Dominates(t) {
					continue
				}
				loop := r7naturalLoop(h, t)
				// a dropped-record Read inside the loop?
				var skip *ssa.Call
				for b := range loop {
					for _, in := range b.Instrs {
						call, ok := in.(*ssa.Call)
						if !ok || call.Call.IsInvoke() {
							continue
						}
						o := core.CalleeObj(call)
						if o == nil || o.Name() != "Read" || len(call.Call.Args) == 0 || o.Pkg() == nil || !(o.Pkg().Path() == "encoding/csv" || hasLineNum(call.Call.Args[0].Type())) {
							continue
						}
						used := false
						for _, u := range core.Referrers(call) {
							if ex, ok := u.(*ssa.Extract); ok && ex.Index == 0 && len(core.Referrers(ex)) > 0 {
								used = true
							}
						}
						if !used {
							skip = call
						}
					}
				}
				if skip == nil {
					continue
				}
				key := fk + " skips records"
				good := false
				// an exit test of the loop (an If inside the loop with a successor outside it) whose condition derives from a
				// LineNum() call made inside the loop — directly, or inside a repo predicate called there (`beforeRow(i)`)
				var usesLineNum func(v ssa.Value, d int) bool
				usesLineNum = func(v ssa.Value, d int) bool {
					if d > 4 {
						return false
					}
					switch x := v.(type) {
					case *ssa.BinOp:
						return usesLineNum(x.X, d+1) || usesLineNum(x.Y, d+1)
					case *ssa.UnOp:
						return usesLineNum(x.X, d+1)
					case *ssa.Call:
						if !loop[x.Block()] && x.Parent() == f {
							return false
						}
						if o := core.CalleeObj(x); o != nil && o.Name() == "LineNum" {
							return true
						}
						if callee := x.Call.StaticCallee(); callee != nil && callee.Blocks != nil && core.InRepo(core.FuncPkg(callee)) {
							for _, cb := range callee.Blocks {
								for _, cin := range cb.Instrs {
									if ret, ok := cin.(*ssa.Return); ok {
										for _, r := range ret.Results {
											if usesLineNum(r, d+1) {
												return true
											}
										}
									}
								}
							}
						}
					}
					return false
				}
				for lb := range loop {
					if len(lb.Instrs) == 0 {
						continue
					}
					ifi, ok := lb.Instrs[len(lb.Instrs)-1].(*ssa.If)
					if !ok || (loop[lb.Succs[0]] && loop[lb.Succs[1]]) {
						continue
					}
					// the exit must leave towards the normal end of positioning, not towards the EOF return only: any exit test on LineNum counts
					if usesLineNum(ifi.Cond, 0) {
						good = true
					}
				}
				c.Check(good, rule, key, core.InstrPos(skip), "the loop is controlled by the reader's LineNum() re-read on every iteration",
					"a loop that skips csv records is not controlled by the decoder's physical line counter read inside the loop: records that span several lines (or reads that fail) make the reader stop on another line than header_row_index / data_row_index name")
			}
		}
	}
	c.Floor(rule, 1, "positioning loops of the csv reader")
}

// ---------------------------------------------------------------- evaluator results are not pooled

// evaluatorResultsNotPooled: ParseNode stores every evaluator result in the per-record cache and hands the same instance to
// every declaration with the same hash on the same node. A result that comes out of a sync.Pool is therefore (a) aliased
// by the cache while the pool may hand it out again and (b) put back once per alias (seed C15-18: pooled object maps, a
// double Put, two later objects sharing one map). In package transform no returned value derives from (*sync.Pool).Get.
func evaluatorResultsNotPooled(c *core.Ctx, rule string) {
	c.SSA()
	n := 0
	var fromPool func(v ssa.Value, seen map[ssa.Value]bool) token.Pos
	fromPool = func(v ssa.Value, seen map[ssa.Value]bool) token.Pos {
		if v == nil || seen[v] {
			return token.NoPos
		}
		seen[v] = true
		switch x := v.(type) {
		case *ssa.Call:
			if r7calleeName(x) == "sync.Pool.Get" {
				return core.InstrPos(x)
			}
			// a repo function of the same package that is handed the value may hand it back (normalize helpers)
			if callee := x.Call.StaticCallee(); callee != nil && callee.Blocks != nil && core.FuncPkg(callee) == core.FuncPkg(x.Parent()) {
				for _, a := range x.Call.Args {
					if p := fromPool(a, seen); p.IsValid() {
						return p
					}
				}
			}
		case *ssa.UnOp:
			// a local captured by a closure lives in a cell: look at what is stored into it
			if al, ok := x.X.(*ssa.Alloc); ok && x.Op == token.MUL {
				for _, u := range core.Referrers(al) {
					if st, ok := u.(*ssa.Store); ok && st.Addr == al {
						if p := fromPool(st.Val, seen); p.IsValid() {
							return p
						}
					}
				}
			}
		case *ssa.TypeAssert:
			return fromPool(x.X, seen)
		case *ssa.MakeInterface:
			return fromPool(x.X, seen)
		case *ssa.ChangeInterface:
			return fromPool(x.X, seen)
		case *ssa.ChangeType:
			return fromPool(x.X, seen)
		case *ssa.Extract:
			return fromPool(x.Tuple, seen)
		case *ssa.Phi:
			for _, e := range x.Edges {
				if p := fromPool(e, seen); p.IsValid() {
					return p
				}
			}
		}
		return token.NoPos
	}
	for _, f := range c.RepoFunctions() {
		if !inPkgs(core.FuncPkg(f), []string{"extensions/omniv21/transform"}) {
			continue
		}
		for _, b := range f.Blocks {
			if len(b.Instrs) == 0 {
				continue
			}
			ret, ok := b.Instrs[len(b.Instrs)-1].(*ssa.Return)
			if !ok {
				continue
			}
			for _, r := range ret.Results {
				n++
				if p := fromPool(r, map[ssa.Value]bool{}); p.IsValid() {
					c.Bad(rule, core.FuncKey(f)+" returns a pooled value", p, "a value taken from a sync.Pool is returned on the evaluation path: ParseNode caches results and serves one instance to every equal declaration on the node, so the pooled object is aliased (and recycled once per alias): later records share a container")
				}
			}
		}
	}
	c.OK(rule, "results of package transform are not pooled", 0, fmt.Sprintf("%d returned values examined", n))
}

// ---------------------------------------------------------------- the declared encoding is consumed by the header package only

// encodingReadOnlyByHeader: the input is transcoded to UTF-8 once, by header's WrapEncoding, before any format reader sees it.
// A reader (or schema validator) that looks at parser_settings.encoding again decides something by the code page of bytes
// it never sees (seeds C18-16: byte-offset column slicing for single-byte encodings; C18-18: delimiters re-encoded into the
// declared code page). The json-tagged `encoding` field of header.ParserSettings is read inside package header only.
func encodingReadOnlyByHeader(c *core.Ctx, rule string) {
	c.SSA()
	hp := c.Pkg("header")
	if hp == nil {
		c.Unresolved(rule, "package header", "not found")
		return
	}
	var enc *types.Var
	for _, name := range hp.Types.Scope().Names() {
		tn, ok := hp.Types.Scope().Lookup(name).(*types.TypeName)
		if !ok {
			continue
		}
		st, ok := tn.Type().Underlying().(*types.Struct)
		if !ok {
			continue
		}
		for i := 0; i < st.NumFields(); i++ {
			tag := st.Tag(i)
			if strings.Contains(tag, `json:"encoding`) {
				if enc != nil && enc != st.Field(i) {
					c.Unresolved(rule, "encoding field", "more than one json-tagged encoding field in package header")
					return
				}
				enc = st.Field(i)
			}
		}
	}
	if enc == nil {
		c.Unresolved(rule, "encoding field", "no json-tagged encoding field in package header")
		return
	}
	for _, f := range c.RepoFunctions() {
		if core.IsCLIOrSample(core.FuncPkg(f)) {
			continue
		}
		for _, b := range f.Blocks {
			for _, in := range b.Instrs {
				var fld *types.Var
				switch x := in.(type) {
				case *ssa.FieldAddr:
					fld = core.FieldOfAddr(x)
					// a store (decoding, test set-up) is not a read
					onlyStores := len(core.Referrers(x)) > 0
					for _, u := range core.Referrers(x) {
						if st, ok := u.(*ssa.Store); !ok || st.Addr != x {
							onlyStores = false
						}
					}
					if onlyStores {
						fld = nil
					}
				case *ssa.Field:
					fld = core.FieldOfField(x)
				}
				if fld != enc {
					continue
				}
				key := core.FuncKey(f) + " reads the declared encoding"
				if core.FuncPkg(f) == hp.Types {
					c.OK(rule, key, core.InstrPos(in), "inside package header")
				} else {
					c.Bad(rule, key, core.InstrPos(in), "parser_settings.encoding is read outside package header: the bytes every reader sees are already UTF-8, whatever was declared — a decision taken by the declared code page (offsets, delimiters, widths) applies to bytes that are not there")
				}
			}
		}
	}
	c.Floor(rule, 1, "reads of the declared encoding inside package header")
}

// ---------------------------------------------------------------- zone names are interpreted by the zone database only

// zoneNamesUninterpreted: a zone name given to a date-time function selects the offset rules of that IANA zone. It reaches
// the zone consumers (times.OverwriteTZ / times.ConvertTZ / caches.GetTimeLocation / time.LoadLocation) exactly as it was
// passed: the consumer's argument is, through phis, a parameter of the function (followed to the call sites inside the
// package), an element of a variadic parameter, or a constant — never the result of a call (seed C19-10: an alias table
// in front of the lookup shadows genuine IANA names) — and the parameters that carry it are used for nothing but that
// hand-over, a comparison with a constant, and message formatting (seed C19-18: a regexp "shape guard" rejects valid
// three-level zones).
func zoneNamesUninterpreted(c *core.Ctx, rule string, pkgs []string) {
	c.SSA()
	cg := c.CallGraph()
	isConsumer := func(ci ssa.CallInstruction) int {
		switch r7calleeName(ci) {
		case "times.OverwriteTZ", "times.ConvertTZ":
			return 1
		case "caches.GetTimeLocation", "time.LoadLocation":
			return 0
		}
		return -1
	}
	marked := map[*ssa.Parameter]bool{}
	var order []*ssa.Parameter
	n := 0
	var back func(v ssa.Value, at ssa.Instruction, seen map[ssa.Value]bool, fk string)
	back = func(v ssa.Value, at ssa.Instruction, seen map[ssa.Value]bool, fk string) {
		if seen[v] {
			return
		}
		seen[v] = true
		switch x := v.(type) {
		case *ssa.Const:
		case *ssa.Phi:
			for _, e := range x.Edges {
				back(e, at, seen, fk)
			}
		case *ssa.Parameter:
			if !marked[x] {
				marked[x] = true
				order = append(order, x)
			}
			fn := x.Parent()
			idx := -1
			for i, fp := range fn.Params {
				if fp == x {
					idx = i
				}
			}
			if node := cg.Nodes[fn]; node != nil && idx >= 0 {
				for _, e := range node.In {
					if e.Site == nil || e.Caller == nil || e.Caller.Func == nil || core.FuncPkg(e.Caller.Func) != core.FuncPkg(fn) || e.Site.Common().IsInvoke() {
						continue
					}
					if args := e.Site.Common().Args; idx < len(args) {
						back(args[idx], e.Site, seen, core.FuncKey(e.Caller.Func))
					}
				}
			}
		case *ssa.Field:
			if _, isParam := x.X.(*ssa.Parameter); isParam {
				return // field of a parameter object (a small struct carrying the zone names)
			}
			c.Bad(rule, fk+" zone name is derived", core.InstrPos(at), "the zone name handed to the zone lookup is a field of a value this rule cannot attribute to a parameter")
		case *ssa.UnOp:
			if ia, ok := x.X.(*ssa.IndexAddr); ok && x.Op == token.MUL {
				if _, isParam := ia.X.(*ssa.Parameter); isParam {
					return // element of a (variadic) parameter
				}
			}
			if fa, ok := x.X.(*ssa.FieldAddr); ok && x.Op == token.MUL {
				switch b := fa.X.(type) {
				case *ssa.Parameter:
					return // field of a parameter object
				case *ssa.Alloc:
					// a by-value struct parameter spilled to a local cell
					for _, u := range core.Referrers(b) {
						if st, ok := u.(*ssa.Store); ok && st.Addr == b {
							if _, isParam := st.Val.(*ssa.Parameter); isParam {
								return
							}
						}
					}
				}
			}
			c.Bad(rule, fk+" zone name is derived", core.InstrPos(at), "the zone name handed to the zone lookup is loaded from memory this rule cannot attribute to a parameter")
		case *ssa.Call:
			// a same-package helper that selects the name (benign 68: `epochTimezone(tz)` returning "UTC" or tz[0]): its
			// returned values are judged like ours
			if callee := x.Call.StaticCallee(); callee != nil && callee.Blocks != nil && core.FuncPkg(callee) == core.FuncPkg(x.Parent()) && callee.Signature.Results().Len() == 1 {
				for _, b := range callee.Blocks {
					for _, in := range b.Instrs {
						if ret, ok := in.(*ssa.Return); ok && len(ret.Results) == 1 {
							back(ret.Results[0], ret, seen, core.FuncKey(callee))
						}
					}
				}
				return
			}
			c.Bad(rule, fk+" zone name is rewritten by "+r7calleeName(x), core.InstrPos(x), "the zone name handed to the zone lookup is the result of a call, not the caller's argument: names the IANA database knows are reinterpreted (aliases, normalisation) and the reading is bound to other offset rules")
		default:
			c.Bad(rule, fk+" zone name is derived", core.InstrPos(at), "the zone name handed to the zone lookup is not the caller's argument")
		}
	}
	for _, f := range c.RepoFunctions() {
		if core.IsCLIOrSample(core.FuncPkg(f)) || !inPkgs(core.FuncPkg(f), pkgs) {
			continue
		}
		for _, ci := range core.Calls(f) {
			idx := isConsumer(ci)
			if idx < 0 || idx >= len(ci.Common().Args) {
				continue
			}
			n++
			c.OK(rule, core.FuncKey(f)+" hands a zone name to "+r7calleeName(ci), core.InstrPos(ci), "consumer found")
			back(ci.Common().Args[idx], ci, map[ssa.Value]bool{}, core.FuncKey(f))
		}
	}
	// uses of the carrying parameters
	for i := 0; i < len(order); i++ {
		p := order[i]
		fk := core.FuncKey(p.Parent())
		var check func(v ssa.Value, seen map[ssa.Value]bool)
		check = func(v ssa.Value, seen map[ssa.Value]bool) {
			if seen[v] {
				return
			}
			seen[v] = true
			for _, u := range core.Referrers(v) {
				switch x := u.(type) {
				case *ssa.DebugRef, *ssa.MakeInterface:
				case *ssa.Phi:
					check(x, seen)
				case *ssa.BinOp:
					_, k1 := x.X.(*ssa.Const)
					_, k2 := x.Y.(*ssa.Const)
					if (x.Op != token.EQL && x.Op != token.NEQ) || !(k1 || k2) {
						c.Bad(rule, fk+" interprets zone name "+p.Name(), core.InstrPos(x), "the zone name is compared with something other than a constant")
					}
				case ssa.CallInstruction:
					if isConsumer(x) >= 0 {
						continue
					}
					callee := x.Common().StaticCallee()
					if callee != nil && callee.Blocks != nil && core.FuncPkg(callee) == core.FuncPkg(p.Parent()) {
						ok := false
						for j, a := range x.Common().Args {
							if a == v && j < len(callee.Params) {
								ok = true
								if cp := callee.Params[j]; !marked[cp] {
									// a helper that is handed the name (a predicate such as isSet): its uses are examined like ours
									marked[cp] = true
									order = append(order, cp)
								}
							}
						}
						if ok {
							continue
						}
					}
					c.Bad(rule, fk+" interprets zone name "+p.Name(), core.InstrPos(x), "the zone name is handed to "+r7calleeName(x)+", which is not a zone lookup: whatever it decides (a shape check, an alias, a normalisation) is decided without the IANA database and changes which zones are accepted or which rules apply")
				default:
					c.Bad(rule, fk+" interprets zone name "+p.Name(), core.InstrPos(u), "the zone name is used for something other than the hand-over to the zone lookup, a comparison with a constant or message formatting")
				}
			}
		}
		check(p, map[ssa.Value]bool{})
		c.OK(rule, fk+" carries zone name "+p.Name(), p.Pos(), "uses examined")
	}
	c.Floor(rule, 4, "zone lookups and carrying parameters in the date-time functions")
	_ = n
}

// integersParsedBase10: every strconv.ParseInt / ParseUint in the given packages has the constant base 10 (seed C19-16: base
// 0 reads a zero-padded epoch as octal and accepts 0x… / 1_000 spellings).
func integersParsedBase10(c *core.Ctx, rule string, pkgs []string) {
	c.SSA()
	for _, f := range c.RepoFunctions() {
		if core.IsCLIOrSample(core.FuncPkg(f)) || !inPkgs(core.FuncPkg(f), pkgs) {
			continue
		}
		for _, ci := range core.Calls(f) {
			name := r7calleeName(ci)
			if name != "strconv.ParseInt" && name != "strconv.ParseUint" {
				continue
			}
			args := ci.Common().Args
			good := false
			if len(args) == 3 {
				if k, ok := args[1].(*ssa.Const); ok && k.Value != nil && k.Value.Kind() == constant.Int {
					if v, exact := constant.Int64Val(k.Value); exact && v == 10 {
						good = true
					}
				}
			}
			c.Check(good, rule, core.FuncKey(f)+" parses an integer", core.InstrPos(ci), "base 10", "an integer is parsed with a base other than the constant 10: zero-padded decimal text is read as octal and prefixed / underscored spellings are accepted")
		}
	}
	c.Floor(rule, 1, "integer parses")
}

func init() {
	wrapRun("C19", func(c *core.Ctx) {
		if c.CountRule("R19j") == 0 {
			integersParsedBase10(c, "R19j", []string{"customfuncs"})
		}
		if c.CountRule("R19k") == 0 {
			zoneNamesUninterpreted(c, "R19k", []string{"customfuncs"})
		}
	})
	addDoc("C19", "R19j integers (epochs) are parsed with the constant base 10. R19k a zone name reaches the zone lookups exactly as passed (parameter, variadic element or constant through phis; never the result of a call) and the parameters carrying it are used only for that hand-over, comparisons with constants and message formatting.")
	wrapRun("C02", func(c *core.Ctx) {
		if c.CountRule("R02p") == 0 {
			integersParsedBase10(c, "R02p", []string{"extensions/omniv21/transform"})
		}
	})
	addDoc("C02", "R02p the int type cast parses with the constant base 10.")
}

// ---------------------------------------------------------------- the navigator's name and value are the node's, whatever its type

// navigatorNameValueTotal: the reference DOM navigator answers LocalName() with the node's Data and Value() with its string
// value for every node type; the xpath engine asks text nodes for their name too (name(), self::x, parent::x). In the
// navigator of package idr no return of LocalName / Value is a constant (seed C11-18: "" for text nodes).
func navigatorNameValueTotal(c *core.Ctx, rule string) {
	c.SSA()
	idr := c.Pkg("idr")
	xp := c.AnyPkg("github.com/antchfx/xpath")
	if idr == nil || xp == nil {
		c.Unresolved(rule, "packages idr / antchfx/xpath", "not loaded")
		return
	}
	navI, _ := xp.Types.Scope().Lookup("NodeNavigator").Type().Underlying().(*types.Interface)
	if navI == nil {
		c.Unresolved(rule, "xpath.NodeNavigator", "interface not found")
		return
	}
	for _, name := range idr.Types.Scope().Names() {
		tn, ok := idr.Types.Scope().Lookup(name).(*types.TypeName)
		if !ok {
			continue
		}
		n, ok := tn.Type().(*types.Named)
		if !ok || !types.Implements(types.NewPointer(n), navI) {
			continue
		}
		if _, isIface := n.Underlying().(*types.Interface); isIface {
			continue
		}
		for _, m := range []string{"LocalName", "Value"} {
			f := c.MethodOfPkg(idr.Types, n.Obj().Name(), m)
			if f == nil || f.Blocks == nil {
				c.Unresolved(rule, "navigator."+m, "method not found")
				continue
			}
			bad := token.NoPos
			var leaf func(v ssa.Value, seen map[ssa.Value]bool)
			leaf = func(v ssa.Value, seen map[ssa.Value]bool) {
				if seen[v] {
					return
				}
				seen[v] = true
				switch x := v.(type) {
				case *ssa.Phi:
					for _, e := range x.Edges {
						leaf(e, seen)
					}
				case *ssa.Const:
					bad = x.Pos()
					if !bad.IsValid() {
						bad = f.Pos()
					}
				}
			}
			for _, b := range f.Blocks {
				for _, in := range b.Instrs {
					if ret, ok := in.(*ssa.Return); ok && len(ret.Results) == 1 {
						leaf(ret.Results[0], map[ssa.Value]bool{})
					}
				}
			}
			c.Check(!bad.IsValid(), rule, core.FuncKey(f)+" answers for every node type", f.Pos(), "no return is a constant",
				"a return of the navigator's "+m+"() is a constant: for some node type the answer is not the node's own data, while the reference navigator answers with the node's data for every type (name(), self::/parent:: name tests on text nodes select other nodes)")
		}
	}
	c.Floor(rule, 2, "LocalName and Value of the navigator")
}

func init() {
	wrapRun("C11", func(c *core.Ctx) {
		if c.CountRule("R11m") == 0 {
			navigatorNameValueTotal(c, "R11m")
		}
	})
	addDoc("C11", "R11m no return of the navigator's LocalName() / Value() is a constant (the answer is the node's own data for every node type, as in the reference navigator).")
	control(Control{ID: "c11-text-nodes-nameless", Prop: "C11", File: "idr/navigator.go",
		Old: "func (nav *navigator) LocalName() string {\n", New: "func (nav *navigator) LocalName() string {\n\tif nav.cur.Type == TextNode {\n\t\treturn \"\"\n\t}\n",
		Rule: "R11m", Substr: "LocalName answers", Why: "name tests on text nodes differ from the reference"})
}

// ---------------------------------------------------------------- the cursor is not restarted at the root

// cursorNotRestartedAtRoot: a stream reader's root node can itself be the delivered record (xpath "." or "/"): Release
// then hands it back to the pool while the reader's root field still points at it. That is harmless only because nothing
// reads the root field as a *position* again once the cursor has left the tree. In the methods of every type of package
// idr that has a Release(*Node) method, no store into a *Node field takes a value loaded from a *Node field that is
// written by the constructor only (the root): `sp.cur = sp.root` outside the constructor re-enters a possibly released
// node (seed C12-16: concatenated JSON values restart at the root).
func cursorNotRestartedAtRoot(c *core.Ctx, rule string) {
	c.SSA()
	idr := c.Pkg("idr")
	if idr == nil {
		c.Unresolved(rule, "package idr", "not loaded")
		return
	}
	isNodePtr := func(t types.Type) bool {
		p, ok := t.(*types.Pointer)
		if !ok {
			return false
		}
		n := core.NamedOf(p.Elem())
		return n != nil && n.Obj().Name() == "Node" && n.Obj().Pkg() == idr.Types
	}
	readers := 0
	for _, name := range idr.Types.Scope().Names() {
		tn, ok := idr.Types.Scope().Lookup(name).(*types.TypeName)
		if !ok {
			continue
		}
		named, ok := tn.Type().(*types.Named)
		if !ok {
			continue
		}
		st, ok := named.Underlying().(*types.Struct)
		if !ok {
			continue
		}
		rel := c.MethodOfPkg(idr.Types, named.Obj().Name(), "Release")
		if rel == nil {
			continue
		}
		nodeFields := map[*types.Var]bool{}
		owners := map[*types.Named]bool{named: true}
		for i := 0; i < st.NumFields(); i++ {
			fl := st.Field(i)
			if isNodePtr(fl.Type()) {
				nodeFields[fl] = true
			}
			// position fields grouped in an embedded struct (benign 33)
			if fl.Embedded() {
				if en := core.NamedOf(fl.Type()); en != nil {
					if est, ok := en.Underlying().(*types.Struct); ok {
						for j := 0; j < est.NumFields(); j++ {
							if isNodePtr(est.Field(j).Type()) {
								nodeFields[est.Field(j)] = true
								owners[en] = true
							}
						}
					}
				}
			}
		}
		if len(nodeFields) < 2 {
			continue
		}
		// methods of the type (incl. closures)
		var methods []*ssa.Function
		for _, f := range c.RepoFunctions() {
			g := f
			for g.Parent() != nil {
				g = g.Parent()
			}
			if g.Signature.Recv() != nil && core.NamedOf(g.Signature.Recv().Type()) == named {
				methods = append(methods, f)
			}
		}
		// fields written by methods
		written := map[*types.Var]bool{}
		for _, f := range methods {
			for _, w := range core.Writes(f) {
				if w.Kind == "field" && nodeFields[w.Field] && owners[w.Owner] {
					written[w.Field] = true
				}
			}
		}
		var roots []*types.Var
		for fl := range nodeFields {
			if !written[fl] {
				roots = append(roots, fl)
			}
		}
		if len(roots) == 0 {
			continue
		}
		readers++
		isRoot := func(v ssa.Value) bool {
			for i := 0; i < 4; i++ {
				if p, ok := v.(*ssa.Phi); ok && len(p.Edges) > 0 {
					for _, e := range p.Edges {
						if fp, ok := core.LoadedField(e); ok && len(fp.Path) > 0 {
							for _, r := range roots {
								if fp.Path[len(fp.Path)-1] == r {
									return true
								}
							}
						}
					}
					return false
				}
				break
			}
			fp, ok := core.LoadedField(v)
			if !ok || len(fp.Path) == 0 {
				return false
			}
			for _, r := range roots {
				if fp.Path[len(fp.Path)-1] == r {
					return true
				}
			}
			return false
		}
		bad := false
		for _, f := range methods {
			for _, w := range core.Writes(f) {
				if w.Kind != "field" || !nodeFields[w.Field] || !owners[w.Owner] || w.Val == nil {
					continue
				}
				if isRoot(w.Val) {
					bad = true
					c.Bad(rule, core.FuncKey(f)+" restarts "+w.Field.Name()+" at the root", w.Pos, "a position field of the reader is set to the value of the constructor-only root field outside the constructor: when the root itself was delivered it has been released to the pool, and the reader continues inside a node it no longer owns (the pool hands it to someone else, or the tree becomes cyclic)")
				}
			}
		}
		if !bad {
			c.OK(rule, "idr."+named.Obj().Name()+" never re-enters its root", rel.Pos(), "no method stores the root field's value into a position field")
		}
	}
	c.Floor(rule, 2, "stream readers with a constructor-only root field")
	_ = readers
}

func init() {
	wrapRun("C12", func(c *core.Ctx) {
		if c.CountRule("R12l") == 0 {
			cursorNotRestartedAtRoot(c, "R12l")
		}
	})
	addDoc("C12", "R12l no method of a stream reader stores the value of its constructor-only root field into a position field (the root may have been delivered and released).")
}

// ---------------------------------------------------------------- a group is identified by its first child

// groupIdentifiedByFirstChild: per the EDI standard (and the reader's documentation) a segment group is present iff its FIRST
// child's segment is present; the matcher is greedy and never looks further. In package edi, every recursive descent over
// the declaration tree that answers a bool (a method of a json-tagged declaration type that reaches itself again through a
// call whose receiver is an element of a slice field of its own receiver) takes element 0 by a constant index, outside any
// loop (seed C05-11: "any child up to the first mandatory one" also instantiates groups whose first segment is absent).
func groupIdentifiedByFirstChild(c *core.Ctx, rule string, pkgs []string) {
	c.SSA()
	reaches := func(from, to *ssa.Function) bool {
		seen := map[*ssa.Function]bool{}
		var walk func(f *ssa.Function, d int) bool
		walk = func(f *ssa.Function, d int) bool {
			if f == nil || f.Blocks == nil || seen[f] || d > 3 {
				return false
			}
			if f == to {
				return true
			}
			seen[f] = true
			for _, ci := range core.Calls(f) {
				if walk(ci.Common().StaticCallee(), d+1) {
					return true
				}
			}
			return false
		}
		return walk(from, 0)
	}
	n := 0
	for _, f := range c.RepoFunctions() {
		if core.IsCLIOrSample(core.FuncPkg(f)) || !inPkgs(core.FuncPkg(f), pkgs) || f.Signature.Recv() == nil {
			continue
		}
		res := f.Signature.Results()
		if res.Len() != 1 {
			continue
		}
		if bt, ok := res.At(0).Type().Underlying().(*types.Basic); !ok || bt.Kind() != types.Bool {
			continue
		}
		recvT := core.NamedOf(f.Signature.Recv().Type())
		if recvT == nil {
			continue
		}
		for _, b := range f.Blocks {
			for _, in := range b.Instrs {
				call, ok := in.(*ssa.Call)
				if !ok || call.Call.IsInvoke() || len(call.Call.Args) == 0 {
					continue
				}
				g := call.Call.StaticCallee()
				if g == nil || g.Signature.Recv() == nil || core.NamedOf(g.Signature.Recv().Type()) != recvT {
					continue
				}
				// receiver = element of a slice field of f's receiver?
				rv := call.Call.Args[0]
				if u, ok := rv.(*ssa.UnOp); ok && u.Op == token.MUL {
					rv = u.X
				}
				ia, ok := rv.(*ssa.IndexAddr)
				if !ok {
					continue
				}
				fp, ok := core.LoadedField(ia.X)
				if !ok || len(fp.Path) == 0 || fp.Base != ssa.Value(f.Params[0]) {
					continue
				}
				if !reaches(g, f) {
					continue
				}
				n++
				key := core.FuncKey(f) + " descends into " + fp.Path[len(fp.Path)-1].Name()
				k, isConst := ia.Index.(*ssa.Const)
				good := isConst && k.Value != nil && k.Value.Kind() == constant.Int && k.Int64() == 0
				// inside a loop?
				inLoop := false
				for _, t := range f.Blocks {
					for _, h := range t.Succs {
						if h.Dominates(t) && r7naturalLoop(h, t)[b] {
							inLoop = true
						}
					}
				}
				c.Check(good && !inLoop, rule, key, core.InstrPos(call), "element 0 by constant index, outside any loop",
					"the recursive match over the declaration tree does not take exactly the first child (constant index 0, no loop): a group is then also recognised by a later child — no longer the documented greedy matcher (group present iff its first segment is present)")
			}
		}
	}
	// the iterative form of the same descent: `for d.isGroup() { d = d.Children[0] }` (benign 64)
	for _, f := range c.RepoFunctions() {
		if core.IsCLIOrSample(core.FuncPkg(f)) || !inPkgs(core.FuncPkg(f), pkgs) || f.Signature.Recv() == nil {
			continue
		}
		res := f.Signature.Results()
		if res.Len() != 1 {
			continue
		}
		if bt, ok := res.At(0).Type().Underlying().(*types.Basic); !ok || bt.Kind() != types.Bool {
			continue
		}
		recvT := core.NamedOf(f.Signature.Recv().Type())
		for _, b := range f.Blocks {
			for _, in := range b.Instrs {
				ph, ok := in.(*ssa.Phi)
				if !ok || recvT == nil || core.NamedOf(ph.Type()) != recvT {
					continue
				}
				fromRecv := false
				for _, e := range ph.Edges {
					if e == ssa.Value(f.Params[0]) {
						fromRecv = true
					}
				}
				if !fromRecv {
					continue
				}
				for _, e := range ph.Edges {
					v := e
					if u, ok := v.(*ssa.UnOp); ok && u.Op == token.MUL {
						v = u.X
					}
					ia, ok := v.(*ssa.IndexAddr)
					if !ok {
						continue
					}
					fp, ok := core.LoadedField(ia.X)
					if !ok || len(fp.Path) == 0 || fp.Base != ssa.Value(ph) {
						continue
					}
					n++
					k, isConst := ia.Index.(*ssa.Const)
					good := isConst && k.Value != nil && k.Value.Kind() == constant.Int && k.Int64() == 0
					c.Check(good, rule, core.FuncKey(f)+" descends into "+fp.Path[len(fp.Path)-1].Name(), ia.Pos(), "element 0 by constant index (iterative descent)",
						"the iterative descent over the declaration tree does not step to exactly the first child (constant index 0): a group is then also recognised by a later child")
				}
			}
		}
	}
	c.Floor(rule, 1, "first-child identification of segment groups (recursive or iterative descent)")
	_ = n
}

func init() {
	wrapRun("C05", func(c *core.Ctx) {
		if c.CountRule("R05q") == 0 {
			groupIdentifiedByFirstChild(c, "R05q", []string{"extensions/omniv21/fileformat/edi"})
		}
	})
	addDoc("C05", "R05q the recursive bool match over the EDI declaration tree descends into element 0 of the child list only (constant index, no loop): a group is identified by its first child.")
}

func init() {
	wrapRun("C18", func(c *core.Ctx) {
		if c.CountRule("R18h") == 0 {
			encodingReadOnlyByHeader(c, "R18h")
		}
	})
	addDoc("C18", "R18h the json-tagged encoding field of header.ParserSettings is read inside package header only (every reader sees UTF-8).")
}

func init() {
	for _, pr := range [][2]string{{"C13", "R13l"}, {"C15", "R15s"}} {
		pr := pr
		wrapRun(pr[0], func(c *core.Ctx) {
			if c.CountRule(pr[1]) == 0 {
				evaluatorResultsNotPooled(c, pr[1])
			}
		})
		addDoc(pr[0], pr[1]+" no value returned by a function of package transform derives from (*sync.Pool).Get (the per-record cache aliases every result).")
	}
	control(Control{ID: "c15-pooled-object-maps", Prop: "C15", File: "extensions/omniv21/transform/parse.go",
		Old: "\tobj := map[string]interface{}{}\n", New: "\tobj := (&sync.Pool{New: func() interface{} { return map[string]interface{}{} }}).Get().(map[string]interface{})\n",
		Old2: "\t\"strconv\"\n", New2: "\t\"strconv\"\n\t\"sync\"\n",
		Rule: "R15s", Substr: "returns a pooled value", Why: "object maps come from a process-wide pool while the per-record cache aliases them"})
	wrapRun("C15", func(c *core.Ctx) {
		// R15r (= C01 R01e): the bytes Read returns are not backed by pooled or reader-owned storage (seed C15-17: the
		// marshal buffer went back to a pool; a record changed after it had been returned)
		if c.CountRule("R15r") == 0 {
			importRules(c, "C01", map[string]string{"R01e": "R15r"})
			c.Floor("R15r", 1, "returned bytes are fresh")
		}
	})
	addDoc("C15", "R15r (= C01 R01e) the bytes Read returns are not backed by pooled or reader-owned storage.")
	wrapRun("C06", func(c *core.Ctx) {
		if c.CountRule("R06r") == 0 {
			positioningByLineCounter(c, "R06r", []string{"extensions/omniv21/fileformat/csv"})
		}
	})
	addDoc("C06", "R06r a loop of the csv reader that skips records is controlled, at its header, by the decoder's LineNum() re-read inside the loop (row indexes are physical line numbers; a record may span several lines).")
	wrapRun("C01", func(c *core.Ctx) {
		// R01k (= R06r): a skip loop driven by a counter that does not advance on a failing read never ends (seed C01-15)
		if c.CountRule("R01k") == 0 {
			positioningByLineCounter(c, "R01k", []string{"extensions/omniv21/fileformat/csv"})
		}
	})
	addDoc("C01", "R01k (= C06 R06r) the csv positioning loop is controlled by the decoder's own line counter (a private counter that does not advance on a failing read makes Read spin).")
	wrapRun("C03", func(c *core.Ctx) {
		if c.CountRule("K23") == 0 {
			decoderCallbacksHonourContract(c, "K23")
		}
	})
	addDoc("C03", "K23 a repo function stored in xml.Decoder.CharsetReader never returns a nil reader together with a nil error (encoding/xml panics otherwise).")
	wrapRun("C01", func(c *core.Ctx) {
		// R01j (= C03 K19): a reader that dereferences its cursor after moving it past the root panics inside Read — the
		// call returns none of the three permitted results (seed C01-16).
		if c.CountRule("R01j") == 0 {
			importRules(c, "C03", map[string]string{"K19": "R01j"})
			c.Floor("R01j", 2, "cursor typestate of the stream readers")
		}
	})
	addDoc("C01", "R01j (= C03 K19) the stream readers never dereference a cursor that was moved to the parent of the root (a panic inside Read is none of the three permitted results).")

	wrapRun("C02", func(c *core.Ctx) {
		// R02m: failures are not swallowed on their own error path.
		if c.CountRule("R02m") == 0 {
			errorPathNotSwallowed(c, "R02m", []string{"extensions/omniv21/transform"}, r02mAllow)
			c.Floor("R02m", 10, "error tests in the transform package")
		}
		// R02n (= C20 R20a): a pooled JS runtime that keeps the previous script's variables makes a value depend on
		// which sibling ran before (seed C02-16).
		if c.CountRule("R02n") == 0 {
			importRules(c, "C20", map[string]string{"R20a": "R02n"})
			c.Floor("R02n", 1, "pooled runtime is wiped")
		}
		// R02o (= C11 R11c): the text `field` hands over is InnerText (seed C02-18: a fast path returned only the last
		// text node).
		if c.CountRule("R02o") == 0 {
			importRules(c, "C11", map[string]string{"R11c": "R02o"})
			c.Floor("R02o", 1, "InnerText traversal")
		}
	})
	addDoc("C02", "R02m on the edge on which an error obtained from a call is non-nil (transform package), no return with a nil error is reachable without a loop back edge — ignore_error covers the custom function's own failure only, argument evaluation failures fail the record. R02n (= C20 R20a) pooled script runtimes are wiped. R02o (= C11 R11c) InnerText visits every non-attribute child.")
	control(Control{ID: "c02-ignore-error-swallows-args", Prop: "C02", File: "extensions/omniv21/transform/invokeCustomFunc.go",
		Old:  "\tif err != nil {\n\t\treturn nil, err\n\t}\n\tresult := reflect.ValueOf(fn).Call(argValues)",
		New:  "\tif err != nil {\n\t\tif customFuncDecl.IgnoreError {\n\t\t\treturn nil, nil\n\t\t}\n\t\treturn nil, err\n\t}\n\tresult := reflect.ValueOf(fn).Call(argValues)",
		Rule: "R02m", Substr: "invokeCustomFunc error of", Why: "ignore_error swallows a failure of argument evaluation"})

	wrapRun("C04", func(c *core.Ctx) {
		// R04o (= C08 R08i): the bytes handed to the decoder are the input's (seed C04-21: a charset fast path decoded
		// windows-1252 as ISO-8859-1, so text predicates select other nodes than on the loaded document).
		if c.CountRule("R04o") == 0 {
			importRules(c, "C08", map[string]string{"R08i": "R04o"})
			c.Floor("R04o", 1, "input rewriting of the XML reader")
		}
	})
	addDoc("C04", "R04o (= C08 R08i) the XML decoder's input and charset handling are not rewritten outside declared settings.")

	wrapRun("C05", func(c *core.Ctx) {
		// R05o (= C06 R06b): csv decoder configuration (seed C05-21: Comment='#' drops input lines before the matcher sees them)
		if c.CountRule("R05o") == 0 {
			importRules(c, "C06", map[string]string{"R06b": "R05o"})
			c.Floor("R05o", 2, "csv decoder configuration")
		}
		if c.CountRule("R05p") == 0 {
			comparisonsExact(c, "R05p", []string{"extensions/omniv21/fileformat/edi", "extensions/omniv21/fileformat/flatfile"})
		}
	})
	addDoc("C05", "R05o (= C06 R06b) the csv decoder drops no line (no Comment rune). R05p no operand of a string comparison in the edi / flatfile packages derives from a case-folding or white-space-normalising function (a declaration matches exactly the units it names).")

	wrapRun("C06", func(c *core.Ctx) {
		if c.CountRule("R06q") == 0 {
			comparisonsExact(c, "R06q", []string{"extensions/omniv21/fileformat/csv", "extensions/omniv21/fileformat/fixedlength", "extensions/omniv21/fileformat/flatfile"})
		}
	})
	addDoc("C06", "R06q no operand of a string comparison in the csv / fixed-length packages derives from a case-folding or white-space-normalising function other than strings.TrimSpace (a header that differs inside a column name is rejected).")
	control(Control{ID: "c06-header-compare-folded", Prop: "C06", File: "extensions/omniv21/fileformat/csv/reader.go",
		Old:  "if strings.TrimSpace(header[index]) != strings.TrimSpace(column.Name) {",
		New:  "if strings.ToLower(strings.TrimSpace(header[index])) != strings.ToLower(strings.TrimSpace(column.Name)) {",
		Rule: "R06q", Substr: "normalised by strings.ToLower", Why: "header names that differ in case are accepted"})

	wrapRun("C16", func(c *core.Ctx) {
		if c.CountRule("R16i") == 0 {
			// R16i: a failure (an error other than a package-level sentinel such as io.EOF / ErrNoMatch) obtained from a
			// call is never followed by a return with a nil error — in the readers that would turn a failing input
			// reader into a clean end of input or a silently skipped record.
			errorPathNotSwallowed(c, "R16i", []string{"idr", "extensions/omniv21", "customfuncs", "schemahandler", "header", "validation", "transformctx"}, r02mAllow)
			c.Floor("R16i", 60, "error tests on the ingest path")
		}
	})
	addDoc("C16", "R16i on the edge on which an error obtained from a call is non-nil and not a package-level sentinel (io.EOF, ErrNoMatch …), no return with a nil error is reachable without a loop back edge (all non-CLI packages).")
	control(Control{ID: "c16-read-failure-swallowed", Prop: "C16", File: "extensions/omniv21/fileformat/flatfile/csv/reader.go",
		Old:  "\tif err := r.readLine(); err != nil && err != io.EOF {\n\t\treturn false, err\n\t}",
		New:  "\tif err := r.readLine(); err != nil && err != io.EOF {\n\t\treturn false, nil\n\t}",
		Rule: "R16i", Substr: "MoreUnprocessedData error of", Why: "a failing input reader looks like the end of input"})

	wrapRun("C16", func(c *core.Ctx) {
		// R16j: the old csv / fixed-length readers produce io.EOF only behind evidence that the source is exhausted or that
		// every declared envelope was tried (seed C16-18: a line starting with Ctrl-Z ended the stream, hiding the failure
		// of the reader behind it)
		if c.CountRule("R16j") == 0 {
			manufacturedEOFDeclExhausted = true
			manufacturedEOF(c, "R16j", []string{"extensions/omniv21/fileformat/csv", "extensions/omniv21/fileformat/fixedlength"}, 0)
			c.OK("R16j", "old csv / fixed-length readers examined for manufactured io.EOF", 0, "every value use of io.EOF in these packages was judged")
			manufacturedEOFDeclExhausted = false
		}
	})
	addDoc("C16", "R16j io.EOF in the old csv / fixed-length readers only behind `err == io.EOF` or after every declared envelope was tried.")

	wrapRun("C08", func(c *core.Ctx) {
		// R08j: names and values are compared exactly in the node package (seed C08-13: EqualFold in the array heuristic)
		if c.CountRule("R08j") == 0 {
			comparisonsExact(c, "R08j", []string{"idr"})
		}
	})
	addDoc("C08", "R08j no operand of a string comparison in package idr derives from a case-folding or white-space-normalising function (element names that differ in case are different names).")

	wrapRun("C07", func(c *core.Ctx) {
		// R07n (= C14 R14a, edi package): run-time writes into the shared declaration tree change how the next segment
		// of the same declaration is tokenized (seed C07-20: a position hint cached on Elem).
		if c.CountRule("R07n") == 0 {
			importRulesIf(c, "C14", map[string]string{"R14a": "R07n"}, func(o *core.Obligation) bool {
				return o.Rule != "R14a" || o.Status != "OK" && o.Status != "ok" || strings.Contains(o.Construct, "/edi.")
			})
			c.Floor("R07n", 1, "writes to shared schema state")
		}
		if c.CountRule("R07o") == 0 {
			scannerNotReconfigured(c, "R07o")
		}
	})
	addDoc("C07", "R07n (= C14 R14a) no run-time write into the shared declaration tree. R07o repo code does not lower the segment scanner's token limit below bufio's default nor replace its split function.")
	control(Control{ID: "c07-scanner-limit-lowered", Prop: "C07", File: "extensions/omniv21/fileformat/edi/reader2.go",
		Old:  "\treturn &NonValidatingReader{\n\t\tscanner:     scanner,",
		New:  "\tscanner.Buffer(make([]byte, ReaderBufSize), 32*ReaderBufSize)\n\treturn &NonValidatingReader{\n\t\tscanner:     scanner,",
		Rule: "R07o", Substr: "token limit", Why: "segments longer than 4 KiB fail"})
	_ = sort.Strings
}

// r02mAllow: returns with a nil error reachable from a failure edge that are intended (confirmed by reading).
var r02mAllow = map[string]string{}
