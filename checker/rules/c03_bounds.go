package rules

import (
	"fmt"
	"go/token"
	"go/types"
	"math"
	"reflect"

	"golang.org/x/tools/go/ssa"

	"omnilint/core"
)

// K16 subtractive bounds: x[:len(x)-k], x[len(x)-k:], x[len(x)-k] with a constant k > 0 panic when the object is shorter
// than k. Every such bound in reachable repository code must be preceded by a length guard the prover can find, or be a
// reviewed entry (seed C03-12: buf.Bytes()[:buf.Len()-1] before the encoder's error was looked at).
//
// K15 schema-sized allocations: make([]T, n) / make([]T, 0, n) panics ("makeslice: len/cap out of range") or exhausts
// memory when n is an integer the schema author wrote. The size operands of every make in reachable repository code must
// be constants, lengths of existing objects, or sums of those — not (arithmetic on) a decoded declaration field
// (seed C03-11: the csv2 line buffer pre-sized with the declared `rows`).

var c03reviewedK16 = map[string]c03argued{
	"(*extensions/omniv21/fileformat/edi.ediReader).shrinkStack subtracts 1 from len(stack)":            {2, "shrinkStack is only called by segNext under `len(r.stack) <= 1 -> return`, i.e. with at least two entries (the explicit-panic obligations of stackTop cover the same invariant)"},
	"(*extensions/omniv21/fileformat/flatfile.HierarchyReader).shrinkStack subtracts 1 from len(stack)": {2, "shrinkStack is only called by recNext under `len(r.stack) <= 1 -> return`, i.e. with at least two entries"},
	"idr.removeLastFilterInXPath subtracts 1 from len(parameter xpath)":                                 {1, "the index expression is the initial value of a loop counter that is tested with `i >= 0` before it is used as an index; for an empty string the loop body never runs"},
}

func lenLikeOperand(v ssa.Value) (ssa.Value, string, bool) {
	cl, ok := v.(*ssa.Call)
	if !ok {
		return nil, "", false
	}
	if bi, ok := cl.Call.Value.(*ssa.Builtin); ok && bi.Name() == "len" && len(cl.Call.Args) == 1 {
		return cl.Call.Args[0], "len", true
	}
	if o := core.CalleeObj(cl); o != nil && o.Name() == "Len" && len(cl.Call.Args) >= 1 && o.Type().(*types.Signature).Params().Len() == 0 {
		return cl.Call.Args[0], "Len", true
	}
	return nil, "", false
}

func (x *c03ctx) runK16() {
	c, e := x.c, x.e
	describe := func(v ssa.Value) string {
		if fld := c03fieldOfValue(v); fld != nil {
			return fld.Name()
		}
		if p, ok := v.(*ssa.Parameter); ok {
			return "parameter " + p.Name()
		}
		if call, ok := v.(*ssa.Call); ok {
			if o := core.CalleeObj(call); o != nil {
				return "result of " + core.FuncName(o)
			}
			return "call result"
		}
		return "local value"
	}
	for _, f := range x.fns {
		for _, b := range f.Blocks {
			for _, in := range b.Instrs {
				var bounds []ssa.Value
				switch y := in.(type) {
				case *ssa.Slice:
					bounds = []ssa.Value{y.Low, y.High, y.Max}
				case *ssa.IndexAddr:
					bounds = []ssa.Value{y.Index}
				case *ssa.Index:
					bounds = []ssa.Value{y.Index}
				case *ssa.Lookup:
					if bt, isB := y.X.Type().Underlying().(*types.Basic); isB && bt.Info()&types.IsString != 0 {
						bounds = []ssa.Value{y.Index}
					}
				}
				for _, bd := range bounds {
					bo, ok := bd.(*ssa.BinOp)
					if !ok || bo.Op != token.SUB {
						continue
					}
					k, isK := c03intConst(bo.Y)
					if !isK || k <= 0 {
						continue
					}
					obj, how, ok := lenLikeOperand(bo.X)
					if !ok {
						continue
					}
					key := fmt.Sprintf("%s subtracts %d from %s(%s)", core.FuncKey(f), k, how, describe(obj))
					pos := core.InstrPos(in)
					if how == "len" {
						g := c03goal{kind: "range", t: &c03term{op: "len", args: []*c03term{e.termOf(obj)}}, lo: k, hi: math.MaxInt64}
						if pr := e.prove(g, in, 0); pr.ok {
							c.OK("K16", key, pos, "length guard: "+pr.how)
							continue
						}
					}
					// a direct dominating comparison of the same length expression with a constant >= k
					if guardedLen(bo.X, k, in) {
						c.OK("K16", key, pos, "dominating comparison of the same length with a constant")
						continue
					}
					x.settle("K16", key, in, c03reviewedK16, fmt.Sprintf("the bound %s(...)-%d is negative when the object is shorter than %d, and no dominating length guard was found", how, k, k))
				}
			}
		}
	}
	x.flush("K16", c03reviewedK16)
	c.Floor("K16", 5, "subtractive constant bounds (stack pops, trailing-byte tests, backward scans)")
}

// guardedLen: instruction `at` is dominated by the true edge of `L > c` / `L >= c` / `L != 0` (c large enough) or the
// false edge of `L == 0` / `L < c` / `L <= c`, where L is structurally the same length expression.
func guardedLen(lenExpr ssa.Value, k int64, at ssa.Instruction) bool {
	sameLen := func(v ssa.Value) bool {
		if v == lenExpr {
			return true
		}
		a, h1, ok1 := lenLikeOperand(v)
		b, h2, ok2 := lenLikeOperand(lenExpr)
		return ok1 && ok2 && h1 == h2 && (a == b || core.SameValue(a, b))
	}
	f := at.Parent()
	for _, blk := range f.Blocks {
		if len(blk.Instrs) == 0 {
			continue
		}
		ifi, ok := blk.Instrs[len(blk.Instrs)-1].(*ssa.If)
		if !ok {
			continue
		}
		bo, ok := ifi.Cond.(*ssa.BinOp)
		if !ok {
			continue
		}
		var cst int64
		var op token.Token
		if sameLen(bo.X) {
			v, ok := c03intConst(bo.Y)
			if !ok {
				continue
			}
			cst, op = v, bo.Op
		} else if sameLen(bo.Y) {
			v, ok := c03intConst(bo.X)
			if !ok {
				continue
			}
			cst = v
			switch bo.Op { // c OP L  ==  L OP' c
			case token.LSS:
				op = token.GTR
			case token.LEQ:
				op = token.GEQ
			case token.GTR:
				op = token.LSS
			case token.GEQ:
				op = token.LEQ
			default:
				op = bo.Op
			}
		} else {
			continue
		}
		var edge *ssa.BasicBlock
		switch op {
		case token.GTR:
			if cst >= k-1 {
				edge = blk.Succs[0]
			}
		case token.GEQ:
			if cst >= k {
				edge = blk.Succs[0]
			}
		case token.NEQ:
			if cst == 0 && k == 1 {
				edge = blk.Succs[0]
			}
		case token.EQL:
			if cst == 0 && k == 1 {
				edge = blk.Succs[1]
			}
		case token.LSS:
			if cst >= k {
				edge = blk.Succs[1]
			}
		case token.LEQ:
			if cst >= k-1 {
				edge = blk.Succs[1]
			}
		}
		if edge != nil && len(edge.Preds) == 1 && (edge == at.Block() || edge.Dominates(at.Block())) {
			return true
		}
	}
	return false
}

// ---------------------------------------------------------------- K15

func (x *c03ctx) runK15() {
	c := x.c
	isDeclInt := func(v ssa.Value) (string, bool) {
		// (a conversion / dereference of) a load of an exported json-tagged field
		for i := 0; i < 6; i++ {
			switch y := v.(type) {
			case *ssa.Convert:
				v = y.X
				continue
			case *ssa.ChangeType:
				v = y.X
				continue
			case *ssa.UnOp:
				if y.Op == token.MUL {
					if fa, ok := y.X.(*ssa.FieldAddr); ok {
						fv := core.FieldOfAddr(fa)
						n := core.NamedOf(fa.X.Type())
						if fv != nil && n != nil && fv.Exported() {
							if st, ok := n.Underlying().(*types.Struct); ok {
								for j := 0; j < st.NumFields(); j++ {
									if st.Field(j) == fv && reflect.StructTag(st.Tag(j)).Get("json") != "" {
										return n.Obj().Name() + "." + fv.Name(), true
									}
								}
							}
						}
						return "", false
					}
					v = y.X // *ptr: pointer-typed optional field
					continue
				}
			}
			break
		}
		return "", false
	}
	var derives func(v ssa.Value, seen map[ssa.Value]bool, d int) (string, bool)
	derives = func(v ssa.Value, seen map[ssa.Value]bool, d int) (string, bool) {
		if v == nil || seen[v] || d > 8 {
			return "", false
		}
		seen[v] = true
		if name, ok := isDeclInt(v); ok {
			return name, true
		}
		switch y := v.(type) {
		case *ssa.BinOp:
			if n, ok := derives(y.X, seen, d+1); ok {
				return n, true
			}
			return derives(y.Y, seen, d+1)
		case *ssa.Convert:
			return derives(y.X, seen, d+1)
		case *ssa.Phi:
			for _, e := range y.Edges {
				if n, ok := derives(e, seen, d+1); ok {
					return n, true
				}
			}
		case *ssa.Call:
			// accessor methods of the declaration types (rows(), byRows(), MinOccurs() ...): follow their returns
			if cf := y.Call.StaticCallee(); cf != nil && cf.Blocks != nil && core.InRepo(core.FuncPkg(cf)) && len(cf.Blocks) <= 6 {
				for _, rt := range c19Returns(cf) {
					for _, r := range rt.Results {
						if n, ok := derives(r, seen, d+1); ok {
							return n, true
						}
					}
				}
			}
		case *ssa.UnOp:
			if y.Op == token.MUL {
				if a, ok := y.X.(*ssa.Alloc); ok {
					for _, r := range core.Referrers(a) {
						if st, ok := r.(*ssa.Store); ok && st.Addr == a {
							if n, ok := derives(st.Val, seen, d+1); ok {
								return n, true
							}
						}
					}
				}
			}
		}
		return "", false
	}
	n := 0
	for _, f := range x.fns {
		for _, b := range f.Blocks {
			for _, in := range b.Instrs {
				mk, ok := in.(*ssa.MakeSlice)
				if !ok {
					continue
				}
				for _, sz := range []ssa.Value{mk.Len, mk.Cap} {
					if _, isK := sz.(*ssa.Const); isK {
						continue
					}
					n++
					key := core.FuncKey(f) + " sizes an allocation"
					if name, ok := derives(sz, map[ssa.Value]bool{}, 0); ok {
						c.Bad("K15", key, core.InstrPos(in), "the size of this make() derives from the declared setting "+name+", an integer the schema author chooses (the JSON schema puts no upper bound on it): a huge value panics with `makeslice: len out of range` or exhausts memory before any input is looked at")
					} else {
						c.OK("K15", key, core.InstrPos(in), "size derives from lengths of existing objects / constants")
					}
				}
			}
		}
	}
	c.OK("K15", "allocation sizes inventory", 0, fmt.Sprintf("%d non-constant make() size operand(s) in reachable repository code", n))
}
