package rules

// C03 helper: where can the dynamic type of an interface value come from?  A backward, interprocedural walk from
// the operand of a type assertion to the MakeInterface instructions that can produce it (through phis, results
// of repository functions, sync.Pool New/Put, LoadingCache loaders and parameters).

import (
	"go/token"
	"go/types"
	"sort"

	"golang.org/x/tools/go/ssa"

	"omnilint/core"
)

type c03dyn struct {
	types   []types.Type
	hasNil  bool
	unknown string // non-empty: a source that cannot be classified
}

func (d *c03dyn) add(t types.Type) {
	for _, x := range d.types {
		if types.Identical(x, t) {
			return
		}
	}
	d.types = append(d.types, t)
}

func (d *c03dyn) merge(o c03dyn) {
	for _, t := range o.types {
		d.add(t)
	}
	d.hasNil = d.hasNil || o.hasNil
	if d.unknown == "" {
		d.unknown = o.unknown
	}
}

func (d c03dyn) describe() string {
	var s []string
	for _, t := range d.types {
		s = append(s, types.TypeString(t, func(p *types.Package) string { return p.Name() }))
	}
	sort.Strings(s)
	out := ""
	for i, x := range s {
		if i > 0 {
			out += ", "
		}
		out += x
	}
	if d.hasNil {
		out += " + nil"
	}
	return "{" + out + "}"
}

type c03dynCtx struct {
	e     *c03eng
	busy  map[ssa.Value]bool
	busyF map[string]bool
}

func (x *c03ctx) dynTypes(v ssa.Value) c03dyn {
	dc := &c03dynCtx{e: x.e, busy: map[ssa.Value]bool{}, busyF: map[string]bool{}}
	return dc.of(v, 0)
}

func (dc *c03dynCtx) of(v ssa.Value, depth int) c03dyn {
	var d c03dyn
	if depth > 8 {
		d.unknown = "too deep"
		return d
	}
	if dc.busy[v] {
		return d // cycle: contributes nothing new
	}
	dc.busy[v] = true
	defer delete(dc.busy, v)
	switch y := v.(type) {
	case *ssa.MakeInterface:
		d.add(y.X.Type())
	case *ssa.Const:
		if y.IsNil() {
			d.hasNil = true
		} else {
			d.add(y.Type())
		}
	case *ssa.ChangeInterface:
		return dc.of(y.X, depth)
	case *ssa.ChangeType:
		return dc.of(y.X, depth)
	case *ssa.Phi:
		for _, ed := range y.Edges {
			d.merge(dc.of(ed, depth))
		}
	case *ssa.Extract:
		if call, ok := y.Tuple.(*ssa.Call); ok {
			return dc.ofCall(call, y.Index, depth)
		}
		if ta, ok := y.Tuple.(*ssa.TypeAssert); ok && y.Index == 0 {
			if _, isIface := ta.AssertedType.Underlying().(*types.Interface); !isIface {
				d.add(ta.AssertedType)
				return d
			}
			return dc.of(ta.X, depth)
		}
		d.unknown = "value extracted from " + y.Tuple.String()
	case *ssa.Call:
		return dc.ofCall(y, 0, depth)
	case *ssa.Parameter:
		fn := y.Parent()
		sites := dc.e.callers[fn]
		if len(sites) == 0 {
			d.unknown = "parameter " + y.Name() + " of " + core.FuncKey(fn) + " (no resolvable caller)"
			return d
		}
		idx := c03paramIndex(y)
		for _, s := range sites {
			cc := s.Common()
			var vals []ssa.Value
			if cc.IsInvoke() {
				vals = append(vals, cc.Value)
			}
			vals = append(vals, cc.Args...)
			if idx >= len(vals) {
				d.unknown = "call shape mismatch at " + core.FuncKey(s.Parent())
				return d
			}
			d.merge(dc.of(vals[idx], depth+1))
		}
	case *ssa.TypeAssert:
		if _, isIface := y.AssertedType.Underlying().(*types.Interface); !isIface {
			d.add(y.AssertedType)
			return d
		}
		return dc.of(y.X, depth)
	case *ssa.UnOp:
		if _, isIface := v.Type().Underlying().(*types.Interface); !isIface {
			d.add(v.Type())
			return d
		}
		if y.Op == token.MUL {
			var cell *ssa.Alloc
			switch a := y.X.(type) {
			case *ssa.Alloc:
				if sv := dc.e.reachingStore(y, a); sv != nil {
					return dc.of(sv, depth)
				}
				cell = a
			case *ssa.FreeVar:
				cell = c03cellOfFreeVar(a)
			}
			if cell != nil {
				if vals, ok := c03storesToCell(cell); ok {
					d.hasNil = true // the zero value of the cell
					for _, sv := range vals {
						d.merge(dc.of(sv, depth+1))
					}
					return d
				}
			}
		}
		d.unknown = "value loaded from memory: " + v.String() + " (" + v.Name() + ")"
	default:
		if _, isIface := v.Type().Underlying().(*types.Interface); !isIface {
			d.add(v.Type())
			return d
		}
		d.unknown = "value " + v.String() + " (" + v.Name() + ")"
	}
	return d
}

// c03cellOfFreeVar: the local cell (Alloc) a closure's free variable is bound to (unique creation site).
func c03cellOfFreeVar(fv *ssa.FreeVar) *ssa.Alloc {
	fn := fv.Parent()
	idx := -1
	for i, x := range fn.FreeVars {
		if x == fv {
			idx = i
		}
	}
	if fn.Parent() == nil || idx < 0 {
		return nil
	}
	var cell *ssa.Alloc
	for _, b := range fn.Parent().Blocks {
		for _, in := range b.Instrs {
			mc, ok := in.(*ssa.MakeClosure)
			if !ok || mc.Fn != ssa.Value(fn) || idx >= len(mc.Bindings) {
				continue
			}
			al, ok := mc.Bindings[idx].(*ssa.Alloc)
			if !ok || (cell != nil && cell != al) {
				return nil
			}
			cell = al
		}
	}
	return cell
}

// c03storesToCell: every value stored into a local cell, in the declaring function and in the closures that capture
// it; ok=false if the cell's address escapes otherwise.
func c03storesToCell(al *ssa.Alloc) ([]ssa.Value, bool) {
	var out []ssa.Value
	for _, u := range core.Referrers(al) {
		switch y := u.(type) {
		case *ssa.Store:
			if y.Val == ssa.Value(al) {
				return nil, false
			}
			out = append(out, y.Val)
		case *ssa.UnOp, *ssa.DebugRef:
		case *ssa.MakeClosure:
			fn, _ := y.Fn.(*ssa.Function)
			if fn == nil {
				return nil, false
			}
			for i, b := range y.Bindings {
				if b != ssa.Value(al) || i >= len(fn.FreeVars) {
					continue
				}
				for _, fu := range core.Referrers(fn.FreeVars[i]) {
					switch z := fu.(type) {
					case *ssa.Store:
						if z.Val == ssa.Value(fn.FreeVars[i]) {
							return nil, false
						}
						out = append(out, z.Val)
					case *ssa.UnOp, *ssa.DebugRef:
					default:
						return nil, false
					}
				}
			}
		default:
			return nil, false
		}
	}
	return out, true
}

func (dc *c03dynCtx) ofCall(call *ssa.Call, idx int, depth int) c03dyn {
	var d c03dyn
	cc := call.Common()
	// result type concrete? then that's it
	res := cc.Signature().Results()
	if idx < res.Len() {
		if _, isIface := res.At(idx).Type().Underlying().(*types.Interface); !isIface {
			d.add(res.At(idx).Type())
			return d
		}
	}
	if o := core.CalleeObj(call); o != nil && o.Pkg() != nil {
		switch o.Pkg().Path() + "." + core.FuncName(o) {
		case "sync.Pool.Get":
			return dc.ofPool(cc.Args[0], depth)
		case "github.com/jf-tech/go-corelib/caches.LoadingCache.Get":
			return dc.ofCache(cc.Args[0], depth)
		}
	}
	callees := dc.e.c.Callees(call)
	if len(callees) == 0 {
		d.unknown = "result of unresolved call " + cc.String()
		return d
	}
	for _, f := range callees {
		d.merge(dc.ofResult(f, idx, depth+1))
	}
	return d
}

// ofResult: dynamic types of result idx of f over all returns; returns whose error result (last result of type
// error) is a non-nil value are skipped when the inspected result is the nil constant there.
func (dc *c03dynCtx) ofResult(f *ssa.Function, idx int, depth int) c03dyn {
	var d c03dyn
	if f.Blocks == nil {
		d.unknown = "result of external function " + f.String()
		return d
	}
	key := f.String() + "#" + string(rune('0'+idx))
	if dc.busyF[key] {
		return d
	}
	dc.busyF[key] = true
	defer delete(dc.busyF, key)
	for _, b := range f.Blocks {
		rt, ok := b.Instrs[len(b.Instrs)-1].(*ssa.Return)
		if !ok || idx >= len(rt.Results) {
			continue
		}
		r := rt.Results[idx]
		if core.IsNilConst(r) && len(rt.Results) > 1 {
			last := rt.Results[len(rt.Results)-1]
			if types.Identical(last.Type(), types.Universe.Lookup("error").Type()) && !core.IsNilConst(last) && idx != len(rt.Results)-1 {
				continue // (nil, err) failure return
			}
		}
		d.merge(dc.of(r, depth))
	}
	return d
}

// poolGlobal resolves the receiver of a sync.Pool / LoadingCache method call to the package-level variable.
func c03globalOf(v ssa.Value) *ssa.Global {
	switch y := v.(type) {
	case *ssa.Global:
		return y
	case *ssa.UnOp:
		if g, ok := y.X.(*ssa.Global); ok {
			return g
		}
	}
	return nil
}

func (dc *c03dynCtx) ofPool(recv ssa.Value, depth int) c03dyn {
	var d c03dyn
	g := c03globalOf(recv)
	if g == nil {
		d.unknown = "sync.Pool that is not a package-level variable"
		return d
	}
	if dc.busyF["pool:"+g.String()] {
		return d // values taken from the pool and put back contribute nothing new
	}
	dc.busyF["pool:"+g.String()] = true
	defer delete(dc.busyF, "pool:"+g.String())
	found := false
	for _, f := range dc.e.c.RepoFunctions() {
		if core.FuncPkg(f) != g.Pkg.Pkg {
			continue
		}
		storesG := false
		var news []*ssa.Function
		for _, b := range f.Blocks {
			for _, in := range b.Instrs {
				switch y := in.(type) {
				case *ssa.Store:
					if y.Addr == ssa.Value(g) {
						storesG = true
					}
					if fa, ok := y.Addr.(*ssa.FieldAddr); ok {
						if fld := core.FieldOfAddr(fa); fld != nil && fld.Name() == "New" && fld.Pkg() != nil && fld.Pkg().Path() == "sync" {
							switch fv := y.Val.(type) {
							case *ssa.MakeClosure:
								if fn, ok := fv.Fn.(*ssa.Function); ok {
									news = append(news, fn)
								}
							case *ssa.Function:
								news = append(news, fv)
							default:
								d.unknown = "Pool.New assigned a non-literal function in " + core.FuncKey(f)
							}
						}
					}
				case ssa.CallInstruction:
					if core.IsCallTo(y, "sync", "Pool.Put") && c03globalOf(y.Common().Args[0]) == g {
						d2 := dc.of(y.Common().Args[1], depth+1)
						if d2.hasNil {
							if pr := dc.e.prove(c03goal{kind: "notnil", t: dc.e.termOf(y.Common().Args[1])}, y, 0); pr.ok {
								d2.hasNil = false
							}
						}
						d.merge(d2)
					}
				}
			}
		}
		if storesG {
			for _, n := range news {
				found = true
				d.merge(dc.ofResult(n, 0, depth+1))
			}
		}
	}
	if !found {
		d.unknown = "no New function found for pool " + g.Name()
	}
	return d
}

func (dc *c03dynCtx) ofCache(recv ssa.Value, depth int) c03dyn {
	var d c03dyn
	g := c03globalOf(recv)
	if g == nil {
		d.unknown = "LoadingCache that is not a package-level variable"
		return d
	}
	n := 0
	for _, f := range dc.e.c.RepoFunctions() {
		for _, ci := range core.Calls(f) {
			if !core.IsCallTo(ci, "github.com/jf-tech/go-corelib/caches", "LoadingCache.Get") || c03globalOf(ci.Common().Args[0]) != g {
				continue
			}
			n++
			var ld *ssa.Function
			switch fv := core.Unwrap(ci.Common().Args[2], false).(type) {
			case *ssa.MakeClosure:
				ld, _ = fv.Fn.(*ssa.Function)
			case *ssa.Function:
				ld = fv
			}
			if ld == nil {
				d.unknown = "cache loader is not a function literal in " + core.FuncKey(f)
				continue
			}
			d.merge(dc.ofResult(ld, 0, depth+1))
		}
	}
	if n == 0 {
		d.unknown = "no Get call found for cache " + g.Name()
	}
	return d
}
