package rules

// R19c support: (value, error) pairs that travel through helpers.
//
// The rule's invariant is about what the exported date-time functions hand to the transform: no value next to a
// non-nil error, every error tested before the value is used. When the body of such a function is split into helpers
// the invariant is established piecewise:
//   - a helper may `return g(...)` - hand up, untouched, the (value, error) tuple of ONE call. The tuple then obeys the
//     invariant if g is itself a function this rule checks (its returns carry only zero values next to an error), or
//     if every caller of the helper is checked by the rule (it tests the error before it uses the value);
//   - a single-exit function `if err == nil { res = f(v) }; return res, err` returns a value only on the edges on
//     which the error is known to be nil;
//   - an exported function may leave the `input == ""` short cut to the helper whose result tuple it returns.
//
// The scope of the rule therefore is: the functions that handle a time.Time, their (transitive) callers inside the
// custom-function packages, and the fallible helpers these call.

import (
	"go/types"
	"sort"

	"golang.org/x/tools/go/ssa"

	"omnilint/core"
)

func c19ErrSig(f *ssa.Function) bool {
	res := f.Signature.Results()
	return res.Len() >= 2 && c19IsError(res.At(res.Len()-1).Type())
}

// c19ErrScope extends the date-time functions by their callers and fallible helpers inside the scope packages.
func c19ErrScope(c *core.Ctx, fns []*ssa.Function) []*ssa.Function {
	pkgs := map[*types.Package]bool{}
	for _, rel := range c19ScopePkgs {
		if p := c.Pkg(rel); p != nil {
			pkgs[p.Types] = true
		}
	}
	in := map[*ssa.Function]bool{}
	for _, f := range fns {
		in[f] = true
	}
	var cand []*ssa.Function
	for _, f := range c.RepoFunctions() {
		if pkgs[core.FuncPkg(f)] && f.Synthetic == "" && f.Parent() == nil {
			cand = append(cand, f)
		}
	}
	for changed := true; changed; {
		changed = false
		for _, f := range cand {
			for _, ci := range core.Calls(f) {
				g := ci.Common().StaticCallee()
				if g == nil || g == f {
					continue
				}
				// a caller of a function in scope
				if in[g] && !in[f] {
					in[f], changed = true, true
				}
				// a fallible helper of a function in scope
				if in[f] && !in[g] && pkgs[core.FuncPkg(g)] && g.Synthetic == "" && g.Parent() == nil && g.Blocks != nil && c19ErrSig(g) {
					in[g], changed = true, true
				}
			}
		}
	}
	var out []*ssa.Function
	for f := range in {
		out = append(out, f)
	}
	sort.Slice(out, func(i, j int) bool {
		a, b := core.FuncKey(out[i]), core.FuncKey(out[j])
		if a != b {
			return a < b
		}
		return out[i].Pos() < out[j].Pos()
	})
	return out
}

// c19pairs decides who is responsible for a (value, error) tuple that is handed up untouched.
type c19pairs struct {
	scope   map[*ssa.Function]bool
	callers map[*ssa.Function][]*ssa.Function
	taken   map[*ssa.Function]bool // used as a value somewhere (registered, stored, passed on)
}

func c19NewPairs(c *core.Ctx, scope []*ssa.Function) *c19pairs {
	p := &c19pairs{scope: map[*ssa.Function]bool{}, callers: map[*ssa.Function][]*ssa.Function{}, taken: map[*ssa.Function]bool{}}
	for _, f := range scope {
		p.scope[f] = true
	}
	for _, f := range c.RepoFunctions() {
		for _, b := range f.Blocks {
			for _, in := range b.Instrs {
				var callee ssa.Value
				if ci, ok := in.(ssa.CallInstruction); ok && !ci.Common().IsInvoke() {
					callee = ci.Common().Value
					if g, ok := callee.(*ssa.Function); ok {
						p.callers[g] = append(p.callers[g], f)
					}
				}
				for _, op := range in.Operands(nil) {
					if *op == nil {
						continue
					}
					g, ok := (*op).(*ssa.Function)
					if !ok {
						continue
					}
					if ci, isCall := in.(ssa.CallInstruction); isCall && callee == *op {
						isArg := false
						for _, a := range ci.Common().Args {
							if a == *op {
								isArg = true
							}
						}
						if !isArg {
							continue
						}
					}
					p.taken[g] = true
				}
			}
		}
	}
	return p
}

// callersChecked: every caller of f is known and is a function whose (value, error) calls the rule checks.
func (p *c19pairs) callersChecked(f *ssa.Function) bool {
	if f.Object() == nil || f.Object().Exported() || p.taken[f] || len(p.callers[f]) == 0 {
		return false
	}
	for _, g := range p.callers[f] {
		if !p.scope[g] || !c19ErrSig(g) {
			return false
		}
	}
	return true
}

// responsible: who vouches for the tuple of `call` that function f hands up untouched ("" = nobody).
func (p *c19pairs) responsible(f *ssa.Function, call *ssa.Call) string {
	if g := call.Call.StaticCallee(); g != nil && !call.Call.IsInvoke() && p.scope[g] && c19ErrSig(g) && g.Blocks != nil {
		return "the tuple is produced by " + core.FuncKey(g) + ", whose returns this rule checks"
	}
	if p.callersChecked(f) {
		return "every caller of " + core.FuncKey(f) + " is checked by this rule to test the error before using the value"
	}
	return ""
}

// callersTest: every caller of f is known and checked by the rule (callersChecked) AND compares the error of each of
// its calls of f with nil itself - it does not merely hand the tuple further up (which would make f and its caller
// vouch for each other). The rule's part B then shows for each of these calls that no component of the tuple is used
// before that test or on the non-nil edge.
func (p *c19pairs) callersTest(f *ssa.Function) bool {
	if !p.callersChecked(f) {
		return false
	}
	n := 0
	for _, g := range p.callers[f] {
		for _, ci := range core.Calls(g) {
			if ci.Common().IsInvoke() || ci.Common().StaticCallee() != f {
				continue
			}
			call, ok := ci.(*ssa.Call)
			if !ok {
				return false // go / defer: the results are dropped
			}
			tp, ok := call.Type().(*types.Tuple)
			if !ok {
				return false
			}
			var errX *ssa.Extract
			for _, u := range core.Referrers(call) {
				if ex, ok := u.(*ssa.Extract); ok && ex.Index == tp.Len()-1 {
					errX = ex
				}
			}
			if errX == nil || len(c19NilTests(c19PhiClosure(errX))) == 0 {
				return false
			}
			n++
		}
	}
	return n > 0
}

func (p *c19pairs) callersVouch(f *ssa.Function) string {
	return "every caller of " + core.FuncKey(f) + " is checked by this rule and tests the error of the call before using any of its values"
}

// c19ErrOfCall: ev is the error component (last result) of a call's tuple.
func c19ErrOfCall(ev ssa.Value) *ssa.Call {
	ex, ok := ev.(*ssa.Extract)
	if !ok {
		return nil
	}
	call, ok := ex.Tuple.(*ssa.Call)
	if !ok {
		return nil
	}
	tp, ok := call.Type().(*types.Tuple)
	if !ok || ex.Index != tp.Len()-1 || !c19IsError(tp.At(ex.Index).Type()) {
		return nil
	}
	return call
}

// c19TupleOf: the error value ev and the values vals are results of one and the same call (vals may also be zero
// constants): the tuple of that call handed on as it is. Returns the call.
func c19TupleOf(ev ssa.Value, vals []ssa.Value) *ssa.Call {
	ex, ok := ev.(*ssa.Extract)
	if !ok {
		return nil
	}
	call, ok := ex.Tuple.(*ssa.Call)
	if !ok {
		return nil
	}
	tp, ok := call.Type().(*types.Tuple)
	if !ok || ex.Index != tp.Len()-1 {
		return nil
	}
	n := 0
	for _, v := range vals {
		if core.IsZeroConst(v) {
			continue
		}
		vx, ok := v.(*ssa.Extract)
		if !ok || vx.Tuple != ssa.Value(call) || vx.Index == ex.Index {
			return nil
		}
		n++
	}
	if n == 0 {
		return nil
	}
	return call
}

// c19NilKnown: the error value ev is known to be nil in block at (at is dominated by the nil edge of a test of ev)
// or, with pred != nil, on the edge pred -> at.
func c19NilKnown(ev ssa.Value, pred, at *ssa.BasicBlock) bool {
	if core.IsNilConst(ev) {
		return true
	}
	for _, t := range c19NilTests(map[ssa.Value]bool{ev: true}) {
		if t.nilOut == t.nonNil {
			continue
		}
		blk := at
		if pred != nil {
			blk = pred
		}
		if len(t.nilOut.Preds) == 1 && t.nilOut.Dominates(blk) {
			return true
		}
		if pred != nil && pred == t.ifi.Block() && at == t.nilOut {
			return true // the nil edge itself leads into the block
		}
	}
	return false
}

// c19OnEdge: the operand a result of rt has when rt's block is entered through predecessor number i.
func c19OnEdge(rt *ssa.Return, v ssa.Value, i int) ssa.Value {
	if phi, ok := v.(*ssa.Phi); ok && phi.Block() == rt.Block() && i < len(phi.Edges) {
		return phi.Edges[i]
	}
	return v
}

// c19ReturnOK decides one return of f whose error result is not the constant nil: next to a (possibly) non-nil
// error only zero values are returned. how describes the reason; bad the violation.
func (p *c19pairs) returnOK(f *ssa.Function, rt *ssa.Return) (how, bad string) {
	last := len(rt.Results) - 1
	one := func(ev ssa.Value, vals []ssa.Value, pred *ssa.BasicBlock) (string, string) {
		if core.IsNilConst(ev) {
			return "nil error", ""
		}
		nz := -1
		for i, v := range vals {
			if !core.IsZeroConst(v) {
				nz = i
			}
		}
		if nz < 0 {
			return "only zero values accompany the error", ""
		}
		if c19NilKnown(ev, pred, rt.Block()) {
			return "a value is returned only where the error is known to be nil", ""
		}
		if call := c19TupleOf(ev, vals); call != nil {
			if who := p.responsible(f, call); who != "" {
				return "the (value, error) tuple of one call is handed up untouched: " + who, ""
			}
		}
		// the error of one call handed up next to values of that call AND values that do not stem from it (a flag
		// parameter, a constant): nothing the callee guarantees covers those, but when every caller is known and
		// checked by this rule, each of them tests the error before it uses ANY component of the tuple
		if call := c19ErrOfCall(ev); call != nil && p.callersTest(f) {
			return "the error of one call is handed up next to its values and values independent of it: " + p.callersVouch(f), ""
		}
		return "", "result #" + itoa(nz) + " is not the zero value"
	}
	how, bad = one(rt.Results[last], rt.Results[:last], nil)
	if bad == "" {
		return
	}
	b := rt.Block()
	anyPhi := false
	for _, r := range rt.Results {
		if phi, ok := r.(*ssa.Phi); ok && phi.Block() == b {
			anyPhi = true
		}
	}
	if !anyPhi || len(b.Preds) < 2 {
		return
	}
	// single exit: decide every incoming edge on its own
	for i, pred := range b.Preds {
		var vals []ssa.Value
		for _, r := range rt.Results[:last] {
			vals = append(vals, c19OnEdge(rt, r, i))
		}
		if _, bd := one(c19OnEdge(rt, rt.Results[last], i), vals, pred); bd != "" {
			return "", bd
		}
	}
	return "single exit: on every incoming edge the error is nil, the values are zero, or an untouched (value, error) tuple is handed up", ""
}

func itoa(i int) string {
	if i == 0 {
		return "0"
	}
	s := ""
	for ; i > 0; i /= 10 {
		s = string(rune('0'+i%10)) + s
	}
	return s
}

// c19HandedUp: the error of `call` is never tested in f but only returned, and every return that carries it carries
// (per incoming edge, for a single exit) nothing but values of the same call or zero values. Returns those returns;
// ok=false when the error has any other use, or is returned next to a foreign value.
// foreign=true when some such return also carries a value that is neither zero nor a result of the call (e.g. a flag
// parameter): then only the callers (all of them known and checked) can vouch for the tuple.
func c19HandedUp(f *ssa.Function, call *ssa.Call, errSet, valSet map[ssa.Value]bool) (rets map[*ssa.Return]bool, ok bool, foreign bool) {
	rets = map[*ssa.Return]bool{}
	for v := range errSet {
		for _, u := range core.Referrers(v) {
			switch x := u.(type) {
			case *ssa.Phi, *ssa.DebugRef:
			case *ssa.Return:
				rets[x] = true
			default:
				return nil, false, false
			}
		}
	}
	if len(rets) == 0 {
		return nil, false, false
	}
	for rt := range rets {
		last := len(rt.Results) - 1
		if !errSet[rt.Results[last]] {
			return nil, false, false // the error is returned in a value position
		}
		b := rt.Block()
		edges := []int{-1}
		if len(b.Preds) >= 2 {
			edges = edges[:0]
			for i := range b.Preds {
				edges = append(edges, i)
			}
		}
		for _, i := range edges {
			ev := rt.Results[last]
			if i >= 0 {
				ev = c19OnEdge(rt, ev, i)
			}
			if !errSet[ev] {
				continue // on this edge the error comes from elsewhere
			}
			for _, r := range rt.Results[:last] {
				v := r
				if i >= 0 {
					v = c19OnEdge(rt, r, i)
				}
				if errSet[v] {
					return nil, false, false // the error itself in a value position
				}
				if !core.IsZeroConst(v) && !valSet[v] {
					foreign = true
				}
			}
		}
	}
	return rets, true, foreign
}

// c19TailCall: f returns the result tuple of call untouched, right after the call (`return g(...)`).
func c19TailCall(call *ssa.Call) bool {
	b := call.Block()
	rt, ok := b.Instrs[len(b.Instrs)-1].(*ssa.Return)
	if !ok {
		return false
	}
	tp, ok := call.Type().(*types.Tuple)
	if !ok || tp.Len() != len(rt.Results) {
		return false
	}
	for i, r := range rt.Results {
		ex, ok := r.(*ssa.Extract)
		if !ok || ex.Tuple != ssa.Value(call) || ex.Index != i {
			return false
		}
	}
	// nothing but the extraction of the results between the call and the return
	seen := false
	for _, in := range b.Instrs {
		if in == ssa.Instruction(call) {
			seen = true
			continue
		}
		if !seen {
			continue
		}
		switch in.(type) {
		case *ssa.Extract, *ssa.DebugRef, *ssa.Return:
		default:
			return false
		}
	}
	return true
}
