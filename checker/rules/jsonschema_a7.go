package rules

// Shared analysis A7: the JSON-schema string constants (`JSONSchema*`) of the repository's validation packages are
// evaluated with go/constant from the type-checked program (never from the .json files, which are only the
// generator's input), parsed as JSON and queried by JSON pointer (RFC 6901).

import (
	"encoding/json"
	"fmt"
	"go/constant"
	"go/types"
	"sort"
	"strconv"
	"strings"

	"omnilint/core"
)

// a7Schema is one parsed JSON-schema constant.
type a7Schema struct {
	Name string       // constant name, e.g. JSONSchemaParserSettings
	Pkg  string       // repo-relative package path
	Obj  *types.Const // the constant object
	Text string       // the constant's string value
	Doc  interface{}  // parsed JSON
	Err  error        // JSON parse error, if any
}

// a7ValidationPkgs are the repo-relative packages whose JSONSchema* constants are loaded.
var a7ValidationPkgs = []string{"validation", "extensions/omniv21/validation"}

// a7Load returns every string constant named JSONSchema* of the validation packages, by constant name, in a
// deterministic order (second result). A package that is missing is reported in the third result.
func a7Load(c *core.Ctx) (map[string]*a7Schema, []string, []string) {
	out := map[string]*a7Schema{}
	var missing []string
	for _, rel := range a7ValidationPkgs {
		p := c.Pkg(rel)
		if p == nil {
			missing = append(missing, rel)
			continue
		}
		sc := p.Types.Scope()
		for _, n := range sc.Names() {
			if !strings.HasPrefix(n, "JSONSchema") {
				continue
			}
			k, ok := sc.Lookup(n).(*types.Const)
			if !ok || k.Val().Kind() != constant.String {
				continue
			}
			out[n] = a7Parse(n, rel, k, constant.StringVal(k.Val()))
		}
	}
	var names []string
	for n := range out {
		names = append(names, n)
	}
	sort.Strings(names)
	return out, names, missing
}

// a7Parse parses a schema text.
func a7Parse(name, pkg string, obj *types.Const, text string) *a7Schema {
	s := &a7Schema{Name: name, Pkg: pkg, Obj: obj, Text: text}
	dec := json.NewDecoder(strings.NewReader(text))
	dec.UseNumber()
	if err := dec.Decode(&s.Doc); err != nil {
		s.Err = err
		return s
	}
	if dec.More() {
		s.Err = fmt.Errorf("trailing data after the JSON document")
	}
	return s
}

// a7ByText finds the schema constant whose value equals text (SSA folds constants, so a use site only shows the
// string); nil if none.
func a7ByText(all map[string]*a7Schema, names []string, text string) *a7Schema {
	for _, n := range names {
		if all[n].Text == text {
			return all[n]
		}
	}
	return nil
}

// Pointer evaluates an RFC 6901 JSON pointer ("" = whole document).
func (s *a7Schema) Pointer(ptr string) (interface{}, bool) {
	if s == nil || s.Err != nil {
		return nil, false
	}
	cur := s.Doc
	if ptr == "" {
		return cur, true
	}
	if !strings.HasPrefix(ptr, "/") {
		return nil, false
	}
	for _, tok := range strings.Split(ptr[1:], "/") {
		tok = strings.ReplaceAll(strings.ReplaceAll(tok, "~1", "/"), "~0", "~")
		switch x := cur.(type) {
		case map[string]interface{}:
			v, ok := x[tok]
			if !ok {
				return nil, false
			}
			cur = v
		case []interface{}:
			i, err := strconv.Atoi(tok)
			if err != nil || i < 0 || i >= len(x) {
				return nil, false
			}
			cur = x[i]
		default:
			return nil, false
		}
	}
	return cur, true
}

// Strings returns the array of strings at ptr (e.g. an `enum` or `required` list).
func (s *a7Schema) Strings(ptr string) ([]string, bool) {
	v, ok := s.Pointer(ptr)
	if !ok {
		return nil, false
	}
	arr, ok := v.([]interface{})
	if !ok {
		return nil, false
	}
	var out []string
	for _, e := range arr {
		str, ok := e.(string)
		if !ok {
			return nil, false
		}
		out = append(out, str)
	}
	return out, true
}

// Number returns the number at ptr (minimum, minLength, minItems, ...).
func (s *a7Schema) Number(ptr string) (float64, bool) {
	v, ok := s.Pointer(ptr)
	if !ok {
		return 0, false
	}
	n, ok := v.(json.Number)
	if !ok {
		return 0, false
	}
	f, err := n.Float64()
	return f, err == nil
}

// a7PropertyPointers finds every JSON pointer of the document at which an object has a key `properties` containing
// the property `name` (used to locate a property declaration without fixing its nesting depth).
func (s *a7Schema) a7PropertyPointers(name string) []string {
	var out []string
	var walk func(v interface{}, at string)
	walk = func(v interface{}, at string) {
		switch x := v.(type) {
		case map[string]interface{}:
			keys := make([]string, 0, len(x))
			for k := range x {
				keys = append(keys, k)
			}
			sort.Strings(keys)
			for _, k := range keys {
				esc := strings.ReplaceAll(strings.ReplaceAll(k, "~", "~0"), "/", "~1")
				if k == "properties" {
					if props, ok := x[k].(map[string]interface{}); ok {
						if _, ok := props[name]; ok {
							nesc := strings.ReplaceAll(strings.ReplaceAll(name, "~", "~0"), "/", "~1")
							out = append(out, at+"/properties/"+nesc)
						}
					}
				}
				walk(x[k], at+"/"+esc)
			}
		case []interface{}:
			for i, e := range x {
				walk(e, at+"/"+strconv.Itoa(i))
			}
		}
	}
	if s != nil && s.Err == nil {
		walk(s.Doc, "")
	}
	return out
}
