package rules

import (
	"go/constant"
	"go/token"
	"go/types"

	"golang.org/x/tools/go/ssa"

	"omnilint/core"
)

// ---------------------------------------------------------------------------------------------------------------
// Boolean classification helpers: `if isUnusable(v) { return err }` where isUnusable(x) = P1(x) || P2(x) || ...
//
// g3OutcomeImplies reports whether, at block blk, the fact "test(v) was found false" is established through a call
// h(..., v, ...) of a repository function h with a single bool result: the outcome `whenVal` of that call dominates
// blk and, inside h, every return that can yield `whenVal` lies behind the false edge of test(param) (or returns the
// test's own value). test(x, b) must report whether the elementary predicate on x has been found false on every path
// to block b of x's function.
// ---------------------------------------------------------------------------------------------------------------

// g3PredCall identifies the call instructions that evaluate the elementary predicate on value x.
type g3PredCall func(ci ssa.CallInstruction, x ssa.Value) bool

func g3GuardedByBoolHelper(v ssa.Value, blk *ssa.BasicBlock, isPred g3PredCall) bool {
	for _, cj := range core.Calls(blk.Parent()) {
		call, ok := cj.(*ssa.Call)
		if !ok {
			continue
		}
		h := call.Call.StaticCallee()
		if h == nil || h.Blocks == nil || !core.InRepo(core.FuncPkg(h)) || !g3ReturnsBool(h) || call.Call.IsInvoke() {
			continue
		}
		for i, a := range call.Call.Args {
			if core.Unwrap(a, false) != v && a != v {
				continue
			}
			if i >= len(h.Params) {
				continue
			}
			for _, whenVal := range []bool{false, true} {
				if falseEdgeDominates(call, blk, whenVal) && g3HelperOutcomeImplies(h, h.Params[i], whenVal, isPred, 0) {
					return true
				}
			}
		}
	}
	return false
}

func g3ReturnsBool(h *ssa.Function) bool {
	rs := h.Signature.Results()
	if rs.Len() != 1 {
		return false
	}
	b, ok := rs.At(0).Type().Underlying().(*types.Basic)
	return ok && b.Kind() == types.Bool
}

// g3HelperOutcomeImplies: whenever h returns whenVal, the predicate on parameter p has been found false.
func g3HelperOutcomeImplies(h *ssa.Function, p *ssa.Parameter, whenVal bool, isPred g3PredCall, depth int) bool {
	if depth > 3 || h.Blocks == nil || h.Recover != nil {
		return false
	}
	n := 0
	for _, b := range h.Blocks {
		rt, ok := b.Instrs[len(b.Instrs)-1].(*ssa.Return)
		if !ok {
			continue
		}
		n++
		if len(rt.Results) != 1 || !g3ValueImplies(rt.Results[0], b, p, whenVal, isPred, depth, map[ssa.Value]bool{}) {
			return false
		}
	}
	return n > 0
}

// g3PredFoundFalseAt: some evaluation of the predicate on p has its false edge dominating block b.
func g3PredFoundFalseAt(p ssa.Value, b *ssa.BasicBlock, isPred g3PredCall) bool {
	for _, cj := range core.Calls(b.Parent()) {
		if !isPred(cj, p) {
			continue
		}
		if pv := cj.Value(); pv != nil && falseEdgeDominates(pv, b, false) {
			return true
		}
	}
	return false
}

// g3ValueImplies: if the bool value val, as observed at the end of block at, equals whenVal, then the predicate on p was
// found false (pred(p) == false). Conservative: false when it cannot be shown.
func g3ValueImplies(val ssa.Value, at *ssa.BasicBlock, p ssa.Value, whenVal bool, isPred g3PredCall, depth int, seen map[ssa.Value]bool) bool {
	if g3PredFoundFalseAt(p, at, isPred) {
		return true
	}
	switch x := val.(type) {
	case *ssa.Const:
		if x.Value != nil && x.Value.Kind() == constant.Bool {
			return constant.BoolVal(x.Value) != whenVal // the outcome cannot occur on this path
		}
		return false
	case *ssa.UnOp:
		if x.Op == token.NOT {
			return g3ValueImplies(x.X, at, p, !whenVal, isPred, depth, seen)
		}
		return false
	case *ssa.Phi:
		if seen[x] {
			return false
		}
		seen[x] = true
		for i, e := range x.Edges {
			if !g3ValueImplies(e, x.Block().Preds[i], p, whenVal, isPred, depth, seen) {
				return false
			}
		}
		return len(x.Edges) > 0
	case *ssa.Call:
		// the predicate itself: its value false <=> found false
		if isPred(x, p) {
			return !whenVal
		}
		// a nested classification helper handed the same value
		h := x.Call.StaticCallee()
		if h == nil || h.Blocks == nil || x.Call.IsInvoke() || !core.InRepo(core.FuncPkg(h)) || !g3ReturnsBool(h) {
			return false
		}
		for i, a := range x.Call.Args {
			if (a == p || core.Unwrap(a, false) == p) && i < len(h.Params) {
				if g3HelperOutcomeImplies(h, h.Params[i], whenVal, isPred, depth+1) {
					return true
				}
			}
		}
		return false
	}
	return false
}
