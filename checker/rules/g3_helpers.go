package rules

import (
	"go/constant"
	"go/token"
	"go/types"
	"sort"

	"golang.org/x/tools/go/ssa"

	"omnilint/core"
)

// ---------------------------------------------------------------------------------------------------------------
// Boolean classification helpers: `if isUnusable(v) { return err }` where isUnusable(x) = P1(x) || P2(x) || ...
//
// g3OutcomeImplies reports whether, at block blk, the fact "test(v) was found false" is established through a call
// h(..., v, ...) of a repository function h with a single bool result: the outcome `whenVal` of that call dominates
// blk and, inside h, every return that can yield `whenVal` lies behind the false edge of test(param) (or returns the
// test's own value). test(x, b) must report whether the elementary predicate on x has been found false on every path
// to block b of x's function.
// ---------------------------------------------------------------------------------------------------------------

// g3PredCall identifies the call instructions that evaluate the elementary predicate on value x.
type g3PredCall func(ci ssa.CallInstruction, x ssa.Value) bool

func g3GuardedByBoolHelper(v ssa.Value, blk *ssa.BasicBlock, isPred g3PredCall) bool {
	for _, cj := range core.Calls(blk.Parent()) {
		call, ok := cj.(*ssa.Call)
		if !ok {
			continue
		}
		h := call.Call.StaticCallee()
		if h == nil || h.Blocks == nil || !core.InRepo(core.FuncPkg(h)) || !g3ReturnsBool(h) || call.Call.IsInvoke() {
			continue
		}
		for i, a := range call.Call.Args {
			if core.Unwrap(a, false) != v && a != v {
				continue
			}
			if i >= len(h.Params) {
				continue
			}
			for _, whenVal := range []bool{false, true} {
				if falseEdgeDominates(call, blk, whenVal) && g3HelperOutcomeImplies(h, h.Params[i], whenVal, isPred, 0) {
					return true
				}
			}
		}
	}
	return false
}

func g3ReturnsBool(h *ssa.Function) bool {
	rs := h.Signature.Results()
	if rs.Len() != 1 {
		return false
	}
	b, ok := rs.At(0).Type().Underlying().(*types.Basic)
	return ok && b.Kind() == types.Bool
}

// g3HelperOutcomeImplies: whenever h returns whenVal, the predicate on parameter p has been found false.
func g3HelperOutcomeImplies(h *ssa.Function, p *ssa.Parameter, whenVal bool, isPred g3PredCall, depth int) bool {
	if depth > 3 || h.Blocks == nil || h.Recover != nil {
		return false
	}
	n := 0
	for _, b := range h.Blocks {
		rt, ok := b.Instrs[len(b.Instrs)-1].(*ssa.Return)
		if !ok {
			continue
		}
		n++
		if len(rt.Results) != 1 || !g3ValueImplies(rt.Results[0], b, p, whenVal, isPred, depth, map[ssa.Value]bool{}) {
			return false
		}
	}
	return n > 0
}

// g3PredFoundFalseAt: some evaluation of the predicate on p has its false edge dominating block b.
func g3PredFoundFalseAt(p ssa.Value, b *ssa.BasicBlock, isPred g3PredCall) bool {
	for _, cj := range core.Calls(b.Parent()) {
		if !isPred(cj, p) {
			continue
		}
		if pv := cj.Value(); pv != nil && falseEdgeDominates(pv, b, false) {
			return true
		}
	}
	return false
}

// g3ValueImplies: if the bool value val, as observed at the end of block at, equals whenVal, then the predicate on p was
// found false (pred(p) == false). Conservative: false when it cannot be shown.
func g3ValueImplies(val ssa.Value, at *ssa.BasicBlock, p ssa.Value, whenVal bool, isPred g3PredCall, depth int, seen map[ssa.Value]bool) bool {
	if g3PredFoundFalseAt(p, at, isPred) {
		return true
	}
	switch x := val.(type) {
	case *ssa.Const:
		if x.Value != nil && x.Value.Kind() == constant.Bool {
			return constant.BoolVal(x.Value) != whenVal // the outcome cannot occur on this path
		}
		return false
	case *ssa.UnOp:
		if x.Op == token.NOT {
			return g3ValueImplies(x.X, at, p, !whenVal, isPred, depth, seen)
		}
		return false
	case *ssa.Phi:
		if seen[x] {
			return false
		}
		seen[x] = true
		for i, e := range x.Edges {
			if !g3ValueImplies(e, x.Block().Preds[i], p, whenVal, isPred, depth, seen) {
				return false
			}
		}
		return len(x.Edges) > 0
	case *ssa.Call:
		// the predicate itself: its value false <=> found false
		if isPred(x, p) {
			return !whenVal
		}
		// a nested classification helper handed the same value
		h := x.Call.StaticCallee()
		if h == nil || h.Blocks == nil || x.Call.IsInvoke() || !core.InRepo(core.FuncPkg(h)) || !g3ReturnsBool(h) {
			return false
		}
		for i, a := range x.Call.Args {
			if (a == p || core.Unwrap(a, false) == p) && i < len(h.Params) {
				if g3HelperOutcomeImplies(h, h.Params[i], whenVal, isPred, depth+1) {
					return true
				}
			}
		}
		return false
	}
	return false
}

// ---------------------------------------------------------------------------------------------------------------
// Function values: a dispatch may select the evaluator as a value (`parse := p.parserFor(kind); parse(n, decl)`).
// ---------------------------------------------------------------------------------------------------------------

// g3Unbound maps the synthetic wrapper of a bound method value (x.m used as a value) to the method itself.
func g3Unbound(f *ssa.Function) *ssa.Function {
	if f == nil || f.Synthetic == "" || f.Pkg != nil || f.Parent() != nil {
		return f
	}
	if obj, ok := f.Object().(*types.Func); ok && obj != nil {
		if m := f.Prog.FuncValue(obj); m != nil && m != f {
			return m
		}
	}
	return f
}

// g3FuncValues collects into out the functions a func-typed value can denote, following phis, local cells, and the
// results of static repository callees (which are recorded in selectors: the functions that choose the value).
// Returns false if some source could not be resolved (parameter, field, map element, ...).
func g3FuncValues(v ssa.Value, resultIdx int, depth int, seen map[ssa.Value]bool, out, selectors map[*ssa.Function]bool) bool {
	v = core.Unwrap(v, true)
	if depth > 4 {
		return false
	}
	if seen[v] {
		return true
	}
	seen[v] = true
	switch x := v.(type) {
	case *ssa.Function:
		out[g3Unbound(x)] = true
		return true
	case *ssa.MakeClosure:
		if fn, ok := x.Fn.(*ssa.Function); ok {
			out[g3Unbound(fn)] = true
			return true
		}
		return false
	case *ssa.Const:
		return x.Value == nil // nil func: no callee
	case *ssa.Phi:
		ok := true
		for _, e := range x.Edges {
			if !g3FuncValues(e, 0, depth, seen, out, selectors) {
				ok = false
			}
		}
		return ok
	case *ssa.Extract:
		return g3FuncValues(x.Tuple, x.Index, depth, seen, out, selectors)
	case *ssa.UnOp:
		if x.Op != token.MUL {
			return false
		}
		a, isAlloc := cellOrValue(x).(*ssa.Alloc)
		if !isAlloc {
			return false
		}
		ok := true
		sts := storesToCell(a)
		for _, st := range sts {
			if !g3FuncValues(st.Val, 0, depth, seen, out, selectors) {
				ok = false
			}
		}
		return ok && len(sts) > 0
	case *ssa.Call:
		h := x.Call.StaticCallee()
		if h == nil || h.Blocks == nil || !core.InRepo(core.FuncPkg(h)) {
			return false
		}
		selectors[h] = true
		ok, n := true, 0
		for _, b := range h.Blocks {
			rt, isRet := b.Instrs[len(b.Instrs)-1].(*ssa.Return)
			if !isRet || resultIdx >= len(rt.Results) {
				continue
			}
			n++
			if !g3FuncValues(rt.Results[resultIdx], 0, depth+1, seen, out, selectors) {
				ok = false
			}
		}
		return ok && n > 0
	}
	return false
}

// g3Callees: the functions a call instruction can enter: its static callee, or — for a call through a func value —
// the functions the value can denote. complete=false if the value could not be fully resolved. selectors (may be nil)
// receives the repository functions whose result chooses the callee.
func g3Callees(ci ssa.CallInstruction, selectors map[*ssa.Function]bool) (fns []*ssa.Function, complete bool) {
	cc := ci.Common()
	if cf := cc.StaticCallee(); cf != nil {
		return []*ssa.Function{g3Unbound(cf)}, true
	}
	if cc.IsInvoke() {
		return nil, false
	}
	if _, isBuiltin := cc.Value.(*ssa.Builtin); isBuiltin {
		return nil, true
	}
	if selectors == nil {
		selectors = map[*ssa.Function]bool{}
	}
	out := map[*ssa.Function]bool{}
	complete = g3FuncValues(cc.Value, 0, 0, map[ssa.Value]bool{}, out, selectors)
	for f := range out {
		fns = append(fns, f)
	}
	sort.Slice(fns, func(i, j int) bool { return fns[i].String() < fns[j].String() })
	return fns, complete
}

// g3EvalPath: like evalPath (functions of package transform reachable from ParseNode through static calls and
// closures) but also entering functions that are referenced as values (bound method values, function literals
// returned by a selector helper) — a dispatch through a func value keeps its evaluators on the evaluation path.
func g3EvalPath(r *c13roles) []*ssa.Function {
	seen := map[*ssa.Function]bool{}
	var out []*ssa.Function
	var walk func(f *ssa.Function)
	walk = func(f *ssa.Function) {
		f = g3Unbound(f)
		if f == nil || seen[f] || f.Blocks == nil || core.FuncPkg(f) != r.tp {
			return
		}
		seen[f] = true
		out = append(out, f)
		for _, a := range f.AnonFuncs {
			walk(a)
		}
		for _, b := range f.Blocks {
			for _, in := range b.Instrs {
				if ci, ok := in.(ssa.CallInstruction); ok {
					walk(ci.Common().StaticCallee())
				}
				for _, op := range in.Operands(nil) {
					if op == nil || *op == nil {
						continue
					}
					if fn, ok := (*op).(*ssa.Function); ok {
						walk(fn)
					}
				}
			}
		}
	}
	walk(r.parseNode)
	sort.Slice(out, func(i, j int) bool { return core.FuncKey(out[i]) < core.FuncKey(out[j]) })
	return out
}
