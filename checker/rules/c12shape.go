package rules

import (
	"fmt"
	"go/token"
	"go/types"

	"golang.org/x/tools/go/ssa"

	"omnilint/core"
)

// R12g — shape analysis of the link surgery in AddChild / RemoveAndReleaseTree.
//
// The two functions are loop-free pointer programs over the five link fields. Their effect depends only on
// the alias configuration of {n, n.Parent, n.PrevSibling, n.NextSibling, parent.FirstChild, parent.LastChild}.
// Every such configuration is realised by a sibling list of length <= 4 with n at one of its positions (or a
// detached n). The SSA of each function is interpreted over this finite abstract heap (objects = abstract
// nodes, values = object id / nil / bool / unknown); anything the interpreter does not model makes the
// result undecided. The resulting heap must satisfy the doubly-linked-list invariant with the expected
// membership, nodes outside the operation must be untouched, and n's own subtree must stay intact for the
// recycler.

const (
	lParent = iota
	lFirst
	lLast
	lPrev
	lNext
	nLinks
)

type shapeVal struct {
	kind  int // 0 unknown, 1 nil, 2 obj, 3 addr, 4 bool, 5 other-addr (non link field)
	obj   int
	field int
	b     bool
}

type shapeHeap struct {
	links    [][nLinks]int // -1 = nil
	released map[int]bool
	names    []string
}

func (h *shapeHeap) clone() *shapeHeap {
	n := &shapeHeap{released: map[int]bool{}, names: h.names}
	n.links = append(n.links, h.links...)
	return n
}

func (h *shapeHeap) newNode(name string) int {
	h.links = append(h.links, [nLinks]int{-1, -1, -1, -1, -1})
	h.names = append(h.names, name)
	return len(h.links) - 1
}

// attach appends c to p's children in the model heap (used to build well-formed initial heaps).
func (h *shapeHeap) attach(p, c int) {
	h.links[c][lParent] = p
	if h.links[p][lFirst] == -1 {
		h.links[p][lFirst] = c
	} else {
		last := h.links[p][lLast]
		h.links[last][lNext] = c
		h.links[c][lPrev] = last
	}
	h.links[p][lLast] = c
}

func (h *shapeHeap) children(p int) ([]int, error) {
	var out []int
	for c := h.links[p][lFirst]; c != -1; c = h.links[c][lNext] {
		out = append(out, c)
		if len(out) > len(h.links) {
			return nil, fmt.Errorf("cycle in the NextSibling chain under %s", h.names[p])
		}
	}
	return out, nil
}

// wellFormedChildren checks p's child list equals want and all links are mutually consistent.
func (h *shapeHeap) wellFormedChildren(p int, want []int) error {
	got, err := h.children(p)
	if err != nil {
		return err
	}
	nm := func(ids []int) string {
		s := "["
		for i, id := range ids {
			if i > 0 {
				s += " "
			}
			s += h.names[id]
		}
		return s + "]"
	}
	if len(got) != len(want) {
		return fmt.Errorf("children of %s via FirstChild/NextSibling are %s, expected %s", h.names[p], nm(got), nm(want))
	}
	for i := range got {
		if got[i] != want[i] {
			return fmt.Errorf("children of %s via FirstChild/NextSibling are %s, expected %s", h.names[p], nm(got), nm(want))
		}
	}
	if len(want) == 0 {
		if h.links[p][lLast] != -1 {
			return fmt.Errorf("%s has no children but LastChild is set", h.names[p])
		}
		return nil
	}
	if h.links[p][lLast] != want[len(want)-1] {
		return fmt.Errorf("LastChild of %s is not the last element of its child list", h.names[p])
	}
	for i, c := range want {
		if h.links[c][lParent] != p {
			return fmt.Errorf("%s.Parent is not %s", h.names[c], h.names[p])
		}
		wp, wn := -1, -1
		if i > 0 {
			wp = want[i-1]
		}
		if i < len(want)-1 {
			wn = want[i+1]
		}
		if h.links[c][lPrev] != wp {
			return fmt.Errorf("%s.PrevSibling is inconsistent with the child list of %s", h.names[c], h.names[p])
		}
		if h.links[c][lNext] != wn {
			return fmt.Errorf("%s.NextSibling is inconsistent with the child list of %s", h.names[c], h.names[p])
		}
	}
	return nil
}

type shapeInterp struct {
	r        *c12roles
	linkIdx  map[int]int // struct field index -> link slot
	heap     *shapeHeap
	steps    int
	released []int
}

type shapeErr struct{ msg string }

func (e shapeErr) Error() string { return e.msg }

func (it *shapeInterp) fail(format string, a ...interface{}) {
	panic(shapeErr{fmt.Sprintf(format, a...)})
}

func (it *shapeInterp) eval(env map[ssa.Value]shapeVal, v ssa.Value) shapeVal {
	if c, ok := v.(*ssa.Const); ok {
		if c.IsNil() {
			return shapeVal{kind: 1}
		}
		if c.Value != nil && c.Value.Kind().String() == "Bool" {
			return shapeVal{kind: 4, b: c.Value.ExactString() == "true"}
		}
		return shapeVal{}
	}
	if x, ok := env[v]; ok {
		return x
	}
	return shapeVal{}
}

// run interprets fn with the given arguments on it.heap.
func (it *shapeInterp) run(fn *ssa.Function, args []shapeVal, depth int) {
	if depth > 4 {
		it.fail("call depth exceeded in %s", fn.Name())
	}
	if fn.Blocks == nil {
		it.fail("no body for %s", fn.String())
	}
	env := map[ssa.Value]shapeVal{}
	for i, p := range fn.Params {
		env[p] = args[i]
	}
	b := fn.Blocks[0]
	var prev *ssa.BasicBlock
	for {
		var next *ssa.BasicBlock
		for _, in := range b.Instrs {
			it.steps++
			if it.steps > 20000 {
				it.fail("step bound exceeded (loop?) in %s", fn.Name())
			}
			switch x := in.(type) {
			case *ssa.DebugRef:
			case *ssa.Phi:
				for i, p := range b.Preds {
					if p == prev {
						env[x] = it.eval(env, x.Edges[i])
					}
				}
			case *ssa.FieldAddr:
				base := it.eval(env, x.X)
				if !isPtrToNamed(x.X.Type(), it.r.node) {
					env[x] = shapeVal{}
					continue
				}
				if base.kind == 1 {
					it.fail("nil dereference at %s (field %s of a nil node)", fn.Prog.Fset.Position(x.Pos()), core.FieldOfAddr(x).Name())
				}
				if base.kind != 2 {
					it.fail("field address of a node value the shape domain does not track in %s", fn.Name())
				}
				if it.heap.released[base.obj] {
					it.fail("field %s of released node %s accessed", core.FieldOfAddr(x).Name(), it.heap.names[base.obj])
				}
				if slot, ok := it.linkIdx[x.Field]; ok {
					env[x] = shapeVal{kind: 3, obj: base.obj, field: slot}
				} else {
					env[x] = shapeVal{kind: 5, obj: base.obj}
				}
			case *ssa.UnOp:
				switch x.Op {
				case token.MUL:
					a := it.eval(env, x.X)
					switch a.kind {
					case 3:
						t := it.heap.links[a.obj][a.field]
						if t == -1 {
							env[x] = shapeVal{kind: 1}
						} else {
							env[x] = shapeVal{kind: 2, obj: t}
						}
					default:
						env[x] = shapeVal{}
					}
				case token.NOT:
					a := it.eval(env, x.X)
					if a.kind == 4 {
						env[x] = shapeVal{kind: 4, b: !a.b}
					} else {
						env[x] = shapeVal{}
					}
				default:
					env[x] = shapeVal{}
				}
			case *ssa.Store:
				a := it.eval(env, x.Addr)
				switch a.kind {
				case 3:
					v := it.eval(env, x.Val)
					switch v.kind {
					case 1:
						it.heap.links[a.obj][a.field] = -1
					case 2:
						it.heap.links[a.obj][a.field] = v.obj
					default:
						it.fail("store of an untracked value into a link field in %s", fn.Name())
					}
				case 5, 0:
					// non-link field or untracked memory: no effect on shape
				}
			case *ssa.BinOp:
				l, r := it.eval(env, x.X), it.eval(env, x.Y)
				if (x.Op == token.EQL || x.Op == token.NEQ) && (l.kind == 1 || l.kind == 2) && (r.kind == 1 || r.kind == 2) {
					eq := l.kind == r.kind && (l.kind == 1 || l.obj == r.obj)
					if x.Op == token.NEQ {
						eq = !eq
					}
					env[x] = shapeVal{kind: 4, b: eq}
				} else {
					env[x] = shapeVal{}
				}
			case *ssa.If:
				cv := it.eval(env, x.Cond)
				if cv.kind != 4 {
					// a condition the shape domain cannot evaluate: only acceptable if it does not depend on
					// node links (e.g. the nodeCaching switch); explore is not possible in a single run → the
					// caller enumerates both outcomes through it.choices.
					it.fail("branch on a value outside the shape domain at %s", fn.Prog.Fset.Position(x.Cond.Pos()))
				}
				if cv.b {
					next = b.Succs[0]
				} else {
					next = b.Succs[1]
				}
			case *ssa.Jump:
				next = b.Succs[0]
			case *ssa.Return:
				return
			case ssa.CallInstruction:
				cf := x.Common().StaticCallee()
				var argv []shapeVal
				touchesNode := false
				for _, a := range x.Common().Args {
					v := it.eval(env, a)
					argv = append(argv, v)
					if isPtrToNamed(a.Type(), it.r.node) {
						touchesNode = true
					}
				}
				if !touchesNode {
					if v := x.Value(); v != nil {
						env[v] = shapeVal{}
					}
					continue
				}
				if cf == nil {
					it.fail("dynamic call with a node argument in %s", fn.Name())
				}
				if core.FuncPkg(cf) == it.r.idr && it.r.nodeAPIFunc(cf) && releases(cf, it.r, 0) {
					if argv[0].kind == 2 {
						it.released = append(it.released, argv[0].obj)
						// the release resets the node and (recursively) its subtree; model: mark released at
						// the end of the interpretation (checked by the caller), here only remember it.
						it.heap.released[argv[0].obj] = true
					} else if argv[0].kind != 1 {
						it.fail("release of an untracked node value")
					} else {
						it.fail("release of a nil node")
					}
					continue
				}
				if writesLinks(cf, it.r, 0) {
					it.run(cf, argv, depth+1)
					if v := x.Value(); v != nil {
						env[v] = shapeVal{}
					}
					continue
				}
				if v := x.Value(); v != nil {
					env[v] = shapeVal{}
				}
			default:
				if v, ok := in.(ssa.Value); ok {
					env[v] = shapeVal{}
				}
			}
		}
		if next == nil {
			it.fail("fell off block %d of %s", b.Index, fn.Name())
		}
		prev, b = b, next
	}
}

func writesLinks(f *ssa.Function, r *c12roles, depth int) bool {
	if depth > 3 || f.Blocks == nil {
		return false
	}
	for _, w := range core.Writes(f) {
		if w.Kind == "field" && w.Owner != nil && types.Identical(w.Owner, r.node) && r.links[w.Field] {
			return true
		}
	}
	for _, ci := range core.Calls(f) {
		if cf := ci.Common().StaticCallee(); cf != nil && cf != f && core.FuncPkg(cf) == r.idr && writesLinks(cf, r, depth+1) {
			return true
		}
	}
	return false
}

type shapeCase struct {
	name  string
	heap  *shapeHeap
	args  []int // object ids (-1 nil)
	check func(h *shapeHeap, released []int) error
}

func runR12g(c *core.Ctx, r *c12roles) {
	linkIdx := map[int]int{}
	byName := map[string]int{"Parent": lParent, "FirstChild": lFirst, "LastChild": lLast, "PrevSibling": lPrev, "NextSibling": lNext}
	for i := 0; i < r.nodeSt.NumFields(); i++ {
		if slot, ok := byName[r.nodeSt.Field(i).Name()]; ok && r.links[r.nodeSt.Field(i)] {
			linkIdx[i] = slot
		}
	}
	if len(linkIdx) != nLinks {
		c.Unresolved("R12g", "link fields", "the five exported link fields of idr.Node could not be mapped")
		return
	}
	// world: G -> [S1, P, S2]; P -> k children
	build := func(k int) (*shapeHeap, int, []int) {
		h := &shapeHeap{released: map[int]bool{}}
		g := h.newNode("G")
		s1 := h.newNode("S1")
		p := h.newNode("P")
		s2 := h.newNode("S2")
		h.attach(g, s1)
		h.attach(g, p)
		h.attach(g, s2)
		var kids []int
		for i := 0; i < k; i++ {
			kid := h.newNode(fmt.Sprintf("C%d", i))
			h.attach(p, kid)
			kids = append(kids, kid)
		}
		return h, p, kids
	}
	outer := func(h *shapeHeap) error {
		// G's list must be untouched
		return h.wellFormedChildren(0, []int{1, 2, 3})
	}
	var cases []shapeCase
	// AddChild(parent, n): n blank
	for k := 0; k <= 3; k++ {
		h, p, kids := build(k)
		n := h.newNode("N")
		want := append(append([]int{}, kids...), n)
		pp := p
		cases = append(cases, shapeCase{
			name: fmt.Sprintf("AddChild parent-with-%d-children", k), heap: h, args: []int{p, n},
			check: func(h *shapeHeap, rel []int) error {
				if len(rel) > 0 {
					return fmt.Errorf("AddChild released a node")
				}
				if err := h.wellFormedChildren(pp, want); err != nil {
					return err
				}
				return outer(h)
			}})
	}
	addN := len(cases)
	// RemoveAndReleaseTree(n): n at each position of 1..4 siblings, n has two children; plus detached root
	for k := 1; k <= 4; k++ {
		for pos := 0; pos < k; pos++ {
			h, p, kids := build(k)
			n := kids[pos]
			h.names[n] = "N"
			x := h.newNode("X")
			y := h.newNode("Y")
			h.attach(n, x)
			h.attach(n, y)
			var want []int
			for _, kid := range kids {
				if kid != n {
					want = append(want, kid)
				}
			}
			pp, nn, xx, yy := p, n, x, y
			cases = append(cases, shapeCase{
				name: fmt.Sprintf("RemoveAndReleaseTree child %d of %d", pos+1, k), heap: h, args: []int{n},
				check: func(h *shapeHeap, rel []int) error {
					if len(rel) != 1 || rel[0] != nn {
						return fmt.Errorf("the removed node was not released exactly once")
					}
					if err := h.wellFormedChildren(pp, want); err != nil {
						return err
					}
					if err := h.wellFormedChildren(nn, []int{xx, yy}); err != nil {
						return fmt.Errorf("subtree of the removed node damaged before recycling: %v", err)
					}
					return outer(h)
				}})
		}
	}
	{
		h := &shapeHeap{released: map[int]bool{}}
		n := h.newNode("N")
		x := h.newNode("X")
		h.attach(n, x)
		cases = append(cases, shapeCase{name: "RemoveAndReleaseTree detached root", heap: h, args: []int{n},
			check: func(h *shapeHeap, rel []int) error {
				if len(rel) != 1 || rel[0] != 0 {
					return fmt.Errorf("the removed node was not released exactly once")
				}
				return h.wellFormedChildren(0, []int{1})
			}})
	}
	for i, cs := range cases {
		fn := r.addChild
		if i >= addN {
			fn = r.remove
		}
		key := core.FuncKey(fn) + " shape: " + cs.name
		it := &shapeInterp{r: r, linkIdx: linkIdx, heap: cs.heap}
		var args []shapeVal
		for _, a := range cs.args {
			args = append(args, shapeVal{kind: 2, obj: a})
		}
		err := func() (err error) {
			defer func() {
				if rec := recover(); rec != nil {
					if se, ok := rec.(shapeErr); ok {
						err = se
						return
					}
					panic(rec)
				}
			}()
			// releases mark nodes as released for later accesses inside the same run; the final check
			// looks at the heap as the recycler will see it.
			it.run(fn, args, 0)
			return cs.check(it.heap, it.released)
		}()
		if err != nil {
			if _, undec := err.(shapeErr); undec && !isShapeViolation(err.Error()) {
				c.Unknown("R12g", key, fn.Pos(), err.Error())
			} else {
				c.Bad("R12g", key, fn.Pos(), err.Error())
			}
		} else {
			c.OK("R12g", key, fn.Pos(), "resulting heap satisfies the doubly-linked child-list invariant")
		}
	}
	c.Floor("R12g", 15, "alias configurations of AddChild/RemoveAndReleaseTree")
}

func isShapeViolation(msg string) bool {
	for _, p := range []string{"nil dereference", "released node"} {
		if len(msg) >= len(p) && containsStr(msg, p) {
			return true
		}
	}
	return false
}

func containsStr(s, sub string) bool {
	for i := 0; i+len(sub) <= len(s); i++ {
		if s[i:i+len(sub)] == sub {
			return true
		}
	}
	return false
}
