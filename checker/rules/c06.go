package rules

import (
	"fmt"
	"go/constant"
	"go/token"
	"go/types"
	"sort"
	"strings"

	"golang.org/x/tools/go/ssa"

	"omnilint/core"
)

func init() {
	register(&RuleSet{
		Prop:  "C06",
		Title: "Delimited and fixed-length fields carry exactly the input text",
		Explanation: "Structural necessary conditions, decided on the resolved program: " +
			"R06a no transformation between the library reader and the node: the data of every text node created in the csv/fixed-length reader packages is resolved backwards (SSA value flow with access paths: Phi, conversions between string and []byte, indexing, sub-slicing, append/copy, reader struct fields matched field-based over the whole repository, parameters, helper results) and must be an element of the []string returned by encoding/csv.Reader.Read resp. (a sub-slice of) the []byte returned by the line source (ios.ByteReadLine), or the empty string; any call, concatenation or lookup on the way is a violation (R06a/R06e/R06h: a creation inside a helper with several static call sites is decided once per call site, the helper's parameters bound to that call's arguments, and counts once per call site); " +
			"R06b csv decoder configuration: every csv.Reader the reader packages construct gets, on every path, Comma = first rune ([]rune(s)[0] or utf8.DecodeRuneInString(s)) of the FileDecl field tagged \"delimiter\" (the rune is followed backwards through option structs, helper parameters and helper results to the expressions that compute it; each must have that shape) and a constant negative FieldsPerRecord; TrimLeadingSpace, LazyQuotes and Comment are never set anywhere in the library; " +
			"R06c header verification (old csv reader): on the first Read (flag false) every path to the record fetch passes through the header check (the callee that reads the field tagged header_row_index) and through the false edge of the test of its error; on the true edge the same error is returned with a nil node and nothing is fetched; the flag is only set to true after a header check; the header check can only return nil, io.EOF or the reader's fatal type; " +
			"R06d only truly empty lines are skipped: on every re-read cycle of a line source the only condition that depends on the line is len(line) compared with 0 (or the equivalent <1 / >=1); " +
			"R06e line selection: in readers whose column declaration has line_index/line_pattern, the call that extracts a column's text is dominated by the true edge of a line-selector call (a bool method of the same column declaration that reads those fields) and receives structurally the same line (same slice, same index value) and record buffer as that selector; " +
			"R06f column pairing (old csv reader): the field taken from the record and the declared column that names the node are selected with the same index value; " +
			"R06g the line source of the fixed-length readers delivers complete lines: it is ios.ByteReadLine/ReadLine (trusted), not a raw bufio call whose continuation flag is dropped; " +
			"R06h rune/byte unit discipline: every bound of a sub-slice on the data path of a fixed-length column is computed only from rune widths returned by unicode/utf8 decoding, len() and constants, never directly from the rune-counted declaration fields start_pos/length.",
		NotDecided: "Not decided: every piece of index/offset arithmetic (which element of the record slice: recordStart+index-1 and its maintenance when buffered lines are popped; rune-counted start_pos/length slicing of fixed-length lines; data_row_index/header_row_index jumps), RFC-4180 parsing inside encoding/csv (quotes, embedded delimiters/newlines), the header comparison itself (which strings are compared), that records are delivered in input order (the readers fetch sequentially; the hierarchy matcher is C05), the effect of replace_double_quotes, lines longer than bufio's buffer (C09 decides the aliasing discipline).",
		Trusted:    append([]string{"encoding/csv.Reader honours Comma/FieldsPerRecord/TrimLeadingSpace/LazyQuotes/Comment as documented and skips empty lines", "go-corelib ios.ByteReadLine returns the line's bytes without the line terminator", "encoding/json fills FileDecl fields according to their json tags"}, commonTrusted...),
		Run:        runC06,
	})
	const oc = "extensions/omniv21/fileformat/csv/reader.go"
	const nc = "extensions/omniv21/fileformat/flatfile/csv/reader.go"
	const ncd = "extensions/omniv21/fileformat/flatfile/csv/decl.go"
	const of = "extensions/omniv21/fileformat/fixedlength/reader.go"
	const ofd = "extensions/omniv21/fileformat/fixedlength/decl.go"
	const nf = "extensions/omniv21/fileformat/flatfile/fixedlength/reader.go"
	const nfd = "extensions/omniv21/fileformat/flatfile/fixedlength/decl.go"
	control(Control{ID: "c06-csv-field-trimmed", Prop: "C06", File: oc,
		Old: "data := idr.CreateNode(idr.TextNode, record[i])", New: "data := idr.CreateNode(idr.TextNode, strings.TrimSpace(record[i]))",
		Rule: "R06a", Substr: "recordToNode", Why: "leading/trailing blanks of a csv field are lost"})
	control(Control{ID: "c06-csv2-field-trimmed", Prop: "C06", File: ncd,
		Old: "\treturn records[line.recordStart+*c.Index-1]", New: "\treturn strings.TrimSpace(records[line.recordStart+*c.Index-1])",
		Rule: "R06a", Substr: "linesToNode", Why: "leading/trailing blanks of a csv2 field are lost"})
	control(Control{ID: "c06-csv2-records-lowered", Prop: "C06", File: nc,
		Old: "\tr.records = append(r.records, record...)", New: "\tfor _, f := range record {\n\t\tr.records = append(r.records, fmt.Sprintf(\"%q\", f))\n\t}",
		Rule: "R06a", Substr: "linesToNode", Why: "fields are altered when they are copied into the reader's buffer"})
	control(Control{ID: "c06-fixed-value-trimmed", Prop: "C06", File: ofd,
		Old: "\treturn string(line[:i])\n", New: "\treturn fmt.Sprintf(\"%q\", line[:i])\n",
		Rule: "R06a", Substr: "readByRowsEnvelope", Why: "the column text is re-rendered (quoted) instead of copied"})
	control(Control{ID: "c06-fixed2-value-from-bytes-trim", Prop: "C06", File: nfd,
		Old: "\treturn string(line[:i])\n", New: "\treturn fmt.Sprint(string(line[:i]))\n",
		Rule: "R06a", Substr: "linesToNode", Why: "the column text passes through a formatting call instead of being copied"})
	control(Control{ID: "c06-csv2-field-substring", Prop: "C06", File: ncd,
		Old: "\treturn records[line.recordStart+*c.Index-1]", New: "\tv := records[line.recordStart+*c.Index-1]\n\tif len(v) > 0 && v[0] == ' ' {\n\t\tv = v[1:]\n\t}\n\treturn v",
		Rule: "R06a", Substr: "linesToNode", Why: "a leading blank of a csv2 field is cut off"})
	control(Control{ID: "c06-delimiter-constant", Prop: "C06", File: oc,
		Old: "\tcsv.Comma = delim[0]\n\tcsv.FieldsPerRecord = -1\n\tcsv.ReuseRecord = true\n\treturn &reader{\n\t\tinputName:     inputName,", New: "\t_ = delim\n\tcsv.Comma = ','\n\tcsv.FieldsPerRecord = -1\n\tcsv.ReuseRecord = true\n\treturn &reader{\n\t\tinputName:     inputName,",
		Rule: "R06b", Substr: "Comma", Why: "the declared delimiter is ignored"})
	control(Control{ID: "c06-delimiter-first-byte", Prop: "C06", File: nc,
		Old: "\tdelim := []rune(decl.Delimiter)\n\tcsv.Comma = delim[0]", New: "\tcsv.Comma = rune(decl.Delimiter[0])",
		Rule: "R06b", Substr: "Comma", Why: "multi-byte delimiters are cut to their first byte"})
	control(Control{ID: "c06-fields-per-record-default", Prop: "C06", File: nc,
		Old: "\tcsv.FieldsPerRecord = -1\n", New: "",
		Rule: "R06b", Substr: "FieldsPerRecord", Why: "rows shorter or longer than the first row are rejected"})
	control(Control{ID: "c06-trim-leading-space", Prop: "C06", File: oc,
		Old: "\tcsv.FieldsPerRecord = -1\n\tcsv.ReuseRecord = true\n\treturn &reader{\n\t\tinputName:     inputName,", New: "\tcsv.FieldsPerRecord = -1\n\tcsv.TrimLeadingSpace = true\n\tcsv.ReuseRecord = true\n\treturn &reader{\n\t\tinputName:     inputName,",
		Rule: "R06b", Substr: "TrimLeadingSpace", Why: "leading blanks of every field are dropped by the decoder"})
	control(Control{ID: "c06-header-check-after-fetch", Prop: "C06", File: oc,
		Old:  "\tif !r.headerChecked {\n\t\terr := r.checkHeader()\n\t\tr.headerChecked = true\n\t\tif err != nil {\n\t\t\treturn nil, err\n\t\t}\n\t}\nread:\n\trecord, err := r.r.Read()",
		New:  "read:\n\trecord, err := r.r.Read()\n\tif !r.headerChecked {\n\t\therr := r.checkHeader()\n\t\tr.headerChecked = true\n\t\tif herr != nil {\n\t\t\treturn nil, herr\n\t\t}\n\t}",
		Rule: "R06c", Substr: "Read", Why: "a row is consumed before the header is verified"})
	control(Control{ID: "c06-header-error-ignored", Prop: "C06", File: oc,
		Old:  "\t\terr := r.checkHeader()\n\t\tr.headerChecked = true\n\t\tif err != nil {\n\t\t\treturn nil, err\n\t\t}",
		New:  "\t\t_ = r.checkHeader()\n\t\tr.headerChecked = true",
		Rule: "R06c", Substr: "Read", Why: "a header mismatch is ignored and records are produced"})
	control(Control{ID: "c06-header-mismatch-plain", Prop: "C06", File: oc,
		Old:  "\t\t\treturn ErrInvalidHeader(r.fmtErrStr(\n\t\t\t\t\"header column[%d] '%s' does not match declared column name '%s' in schema\",",
		New:  "\t\t\treturn errors.New(r.fmtErrStr(\n\t\t\t\t\"header column[%d] '%s' does not match declared column name '%s' in schema\",",
		Rule: "R06c", Substr: "classes", Why: "a header mismatch becomes a continuable error: the transform goes on and produces records"})
	control(Control{ID: "c06-flag-set-without-check", Prop: "C06", File: oc,
		Old: "\t\theaderChecked: false,", New: "\t\theaderChecked: decl.HeaderRowIndex == nil,",
		Rule: "R06c", Substr: "flag", Why: "the flag can be true although no header check ran (data row jump skipped)"})
	control(Control{ID: "c06-blank-lines-skipped", Prop: "C06", File: of,
		Old: "\t\tif len(line) == 0 {\n\t\t\tcontinue\n\t\t}", New: "\t\tif len(strings.TrimSpace(string(line))) == 0 {\n\t\t\tcontinue\n\t\t}",
		Rule: "R06d", Substr: "readLine", Why: "all-blank lines are dropped"})
	control(Control{ID: "c06-short-lines-skipped", Prop: "C06", File: nf,
		Old: "\t\tif len(b) > 0 {\n\t\t\tr.linesBuf = append", New: "\t\tif len(b) > 1 {\n\t\t\tr.linesBuf = append",
		Rule: "R06d", Substr: "readLine", Why: "one-byte lines are dropped"})
	control(Control{ID: "c06-value-from-first-line", Prop: "C06", File: nf,
		Old: "colDecl.lineToColumnValue(r.linesBuf[i].b)", New: "colDecl.lineToColumnValue(r.linesBuf[0].b)",
		Rule: "R06e", Substr: "linesToNode", Why: "every column is read from the first line of the record"})
	control(Control{ID: "c06-csv2-value-from-next-line", Prop: "C06", File: nc,
		Old: "colDecl.lineToColumnValue(&r.linesBuf[i], r.records))", New: "colDecl.lineToColumnValue(&r.linesBuf[n-1], r.records))",
		Rule: "R06e", Substr: "linesToNode", Why: "every column is read from the last line of the record"})
	control(Control{ID: "c06-line-selector-dropped", Prop: "C06", File: of,
		Old:  "\t\t\tcolDecl := envelopeDecl.Columns[col]\n\t\t\tif !colDecl.lineMatch(line) {\n\t\t\t\tcontinue\n\t\t\t}\n\t\t\tcolNode := idr.CreateNode(idr.ElementNode, colDecl.Name)\n\t\t\tidr.AddChild(node, colNode)\n\t\t\tcolVal := idr.CreateNode(idr.TextNode, colDecl.lineToColumnValue(line))\n\t\t\tidr.AddChild(colNode, colVal)\n\t\t\tcolumnsDone[col] = true\n\t\t}\n\t\tif footerRegex.Match(line) {",
		New:  "\t\t\tcolDecl := envelopeDecl.Columns[col]\n\t\t\tcolNode := idr.CreateNode(idr.ElementNode, colDecl.Name)\n\t\t\tidr.AddChild(node, colNode)\n\t\t\tcolVal := idr.CreateNode(idr.TextNode, colDecl.lineToColumnValue(line))\n\t\t\tidr.AddChild(colNode, colVal)\n\t\t\tcolumnsDone[col] = true\n\t\t}\n\t\tif footerRegex.Match(line) {",
		Rule: "R06e", Substr: "readByHeaderFooterEnvelope", Why: "line_pattern is ignored: columns are taken from the first line"})
	control(Control{ID: "c06-raw-bufio-readline", Prop: "C06", File: of,
		Old: "\t\tline, err := ios.ByteReadLine(r.r)\n", New: "\t\tline, _, err := r.r.ReadLine()\n\t\t_ = ios.ByteReadLine\n",
		Rule: "R06g", Substr: "readLine", Why: "lines longer than bufio's buffer are delivered in fragments"})
	control(Control{ID: "c06-byte-offset-fast-path", Prop: "C06", File: nfd,
		Old: "\tstart := c.StartPos - 1\n", New: "\tstart := c.StartPos - 1\n\tif end := start + c.Length; end <= len(line) && utf8.RuneCount(line[:end]) == end {\n\t\treturn string(line[start:end])\n\t}\n",
		Rule: "R06h", Substr: "linesToNode", Why: "a column is cut at byte offsets taken from rune-counted declaration fields (seed C06-3)"})
	control(Control{ID: "c06-column-shifted", Prop: "C06", File: oc,
		Old: "col := idr.CreateNode(idr.ElementNode, r.decl.Columns[i].name())", New: "col := idr.CreateNode(idr.ElementNode, r.decl.Columns[len(r.decl.Columns)-1-i].name())",
		Rule: "R06f", Substr: "recordToNode", Why: "fields are delivered under the wrong column names"})
}

type c06pkg struct {
	p       *types.Package
	kind    string // csv | line
	fns     []*ssa.Function
	sources []*ssa.Call
}

type c06roles struct {
	createNode *ssa.Function
	textNode   string
	elemNode   string
	pkgs       []*c06pkg
	byPkg      map[*types.Package]*c06pkg
	tagOf      map[*types.Var]string // json tag of declaration fields in the reader packages
	csvReaderT *types.Named
}

// c06SourceKind classifies a call as a unit source of the delimited / fixed-length readers.
func c06SourceKind(call *ssa.Call) string {
	if call.Call.IsInvoke() {
		return ""
	}
	o := core.CalleeObj(call)
	if o == nil || o.Pkg() == nil {
		return ""
	}
	n := core.FuncName(o)
	switch o.Pkg().Path() {
	case "encoding/csv":
		if n == "Reader.Read" {
			return "csv"
		}
	case "github.com/jf-tech/go-corelib/ios":
		if n == "ByteReadLine" || n == "ReadLine" {
			return "line"
		}
	case "bufio":
		switch n {
		case "Reader.ReadLine", "Reader.ReadString", "Reader.ReadBytes", "Reader.ReadSlice":
			return "line"
		}
	}
	return ""
}

func resolveC06(c *core.Ctx) *c06roles {
	c.SSA()
	ip := c.Pkg("idr")
	if ip == nil {
		c.Unresolved("R06", "package idr", "package idr not found")
		return nil
	}
	r := &c06roles{byPkg: map[*types.Package]*c06pkg{}, tagOf: map[*types.Var]string{}}
	r.createNode = c.Func("idr", "CreateNode")
	if k, ok := ip.Types.Scope().Lookup("TextNode").(*types.Const); ok {
		r.textNode = k.Val().ExactString()
	}
	if k, ok := ip.Types.Scope().Lookup("ElementNode").(*types.Const); ok {
		r.elemNode = k.Val().ExactString()
	}
	if r.createNode == nil || r.textNode == "" || r.elemNode == "" {
		c.Unresolved("R06", "idr.CreateNode / idr.TextNode", "exported node API not found")
		return nil
	}
	if cp := c.AnyPkg("encoding/csv"); cp != nil {
		if tn, ok := cp.Types.Scope().Lookup("Reader").(*types.TypeName); ok {
			r.csvReaderT, _ = tn.Type().(*types.Named)
		}
	}
	if r.csvReaderT == nil {
		c.Unresolved("R06", "encoding/csv.Reader", "type not found in the loaded program")
		return nil
	}
	for _, f := range c.RepoFunctions() {
		p := core.FuncPkg(f)
		if p == nil || core.IsCLIOrSample(p) || !strings.Contains(p.Path(), "/fileformat/") {
			continue
		}
		for _, ci := range core.Calls(f) {
			call, ok := ci.(*ssa.Call)
			if !ok {
				continue
			}
			k := c06SourceKind(call)
			if k == "" {
				continue
			}
			pk := r.byPkg[p]
			if pk == nil {
				pk = &c06pkg{p: p, kind: k}
				r.byPkg[p] = pk
				r.pkgs = append(r.pkgs, pk)
			}
			if pk.kind != k {
				c.Unresolved("R06", "unit source of "+core.Rel(p.Path()), "the package reads both csv records and raw lines")
				return nil
			}
			pk.sources = append(pk.sources, call)
		}
	}
	sort.Slice(r.pkgs, func(i, j int) bool { return r.pkgs[i].p.Path() < r.pkgs[j].p.Path() })
	for _, f := range c.RepoFunctions() {
		if pk := r.byPkg[core.FuncPkg(f)]; pk != nil {
			pk.fns = append(pk.fns, f)
		}
	}
	for _, pk := range r.pkgs {
		sc := pk.p.Scope()
		for _, n := range sc.Names() {
			tn, ok := sc.Lookup(n).(*types.TypeName)
			if !ok {
				continue
			}
			st, ok := tn.Type().Underlying().(*types.Struct)
			if !ok {
				continue
			}
			for i := 0; i < st.NumFields(); i++ {
				if tag := c18JSONTag(st, i); tag != "" {
					r.tagOf[st.Field(i)] = tag
				}
			}
		}
	}
	// a csv package declares "delimiter", a fixed-length package declares "start_pos" (EDI, which also reads lines, has neither)
	var keep []*c06pkg
	for _, pk := range r.pkgs {
		want := map[string]string{"csv": "delimiter", "line": "start_pos"}[pk.kind]
		has := false
		for f, tag := range r.tagOf {
			if tag == want && f.Pkg() == pk.p {
				has = true
			}
		}
		if has {
			keep = append(keep, pk)
		} else {
			delete(r.byPkg, pk.p)
		}
	}
	r.pkgs = keep
	if len(r.pkgs) == 0 {
		c.Unresolved("R06", "reader packages", "no package under extensions/omniv21/fileformat calls encoding/csv.Reader.Read or a line source")
		return nil
	}
	return r
}

func (r *c06roles) newProv(c *core.Ctx) *c08Prov {
	p := c08NewProv(c)
	p.IsSource = func(call *ssa.Call) (string, bool) {
		switch c06SourceKind(call) {
		case "csv":
			return "csv.Read", true
		case "line":
			return "line", true
		}
		return "", false
	}
	p.LeafField = func(f *types.Var) (string, bool) {
		tag, ok := r.tagOf[f]
		return tag, ok
	}
	return p
}

func runC06(c *core.Ctx) {
	r := resolveC06(c)
	if r == nil {
		return
	}
	prov := r.newProv(c)
	c.Check(len(r.pkgs) >= 4, "R06", "reader packages", token.NoPos, fmt.Sprintf("%d delimited/fixed-length reader packages", len(r.pkgs)), fmt.Sprintf("only %d delimited/fixed-length reader packages found (csv, csv2, fixedlength, fixedlength2 expected)", len(r.pkgs)))
	c06RuleA(c, r, prov)
	c.Floor("R06a", 7, "text node creations per call context: old csv, csv2 linesToNode (2 callers), old fixed-length (2), fixedlength2 linesToNode (2 callers)")
	c06RuleB(c, r, prov)
	c.Floor("R06b", 5, "two csv constructions (Comma, FieldsPerRecord each) and the library-wide option inventory")
	c06RuleC(c, r, prov)
	c.Floor("R06c", 4, "first-read path, error edge, flag discipline, header check classes")
	c06RuleD(c, r)
	c.Floor("R06d", 2, "old fixed-length readLine, fixedlength2 readLine")
	c06RuleE(c, r, prov)
	c.Floor("R06e", 6, "csv2 linesToNode and fixedlength2 linesToNode (each from the rows-based and the header/footer-based reader), old fixed-length by-rows and by-header-footer")
	c06RuleF(c, r, prov)
	c.Floor("R06f", 1, "old csv recordToNode")
	c06RuleG(c, r)
	c.Floor("R06g", 2, "line sources of the two fixed-length readers")
	c06RuleH(c, r, prov)
	c.Floor("R06h", 4, "column cuts of the two fixed-length readers (old reader: two creation sites; fixedlength2 linesToNode: two call contexts)")
}

func c06IsConst(v ssa.Value, exact string) bool {
	k, ok := v.(*ssa.Const)
	return ok && k.Value != nil && k.Value.ExactString() == exact
}

// c06TextNodes: the calls CreateNode(TextNode, x) of a package.
func c06TextNodes(r *c06roles, pk *c06pkg) []*ssa.Call {
	var out []*ssa.Call
	for _, f := range pk.fns {
		for _, ci := range core.Calls(f) {
			call, ok := ci.(*ssa.Call)
			if ok && call.Call.StaticCallee() == r.createNode && len(call.Call.Args) == 2 && c06IsConst(call.Call.Args[0], r.textNode) {
				out = append(out, call)
			}
		}
	}
	return out
}

// ---------------------------------------------------------------- R06a

func c06RuleA(c *core.Ctx, r *c06roles, prov *c08Prov) {
	for _, pk := range r.pkgs {
		calls := c06TextNodes(r, pk)
		if len(calls) == 0 {
			c.Unresolved("R06a", "text nodes of "+core.Rel(pk.p.Path()), "the package reads units but creates no text node through idr.CreateNode(idr.TextNode, …)")
			continue
		}
		for _, site := range c06TextSites(r, pk, prov) {
			call := site.tn
			key := site.fk + " text node data"
			ts := prov.Resolve(call.Call.Args[1], site.ctx)
			nSrc := 0
			bad := c08Subset(ts, func(t c08Term) bool {
				if c08IsEmptyConst(t) {
					return true
				}
				if t.Kind != "src" {
					return false
				}
				switch pk.kind {
				case "csv":
					if t.Root == "csv.Read#0" && t.Path == "[]" {
						nSrc++
						return true
					}
				case "line":
					if pp := strings.ReplaceAll(t.Path, "[:]", ""); t.Root == "line#0" && (pp == "" || pp == "[]") {
						nSrc++
						return true
					}
				}
				return false
			})
			what := map[string]string{"csv": "an element of the record returned by encoding/csv.Reader.Read", "line": "(a part of) the line returned by the line source"}[pk.kind]
			switch {
			case len(bad) > 0:
				c.Bad("R06a", key, call.Pos(), "the text of the node is not exactly "+what+" (or empty): it derives from "+strings.Join(bad, ", "))
			case nSrc == 0:
				c.Bad("R06a", key, call.Pos(), "the text of the node never comes from the input: "+ts.String())
			default:
				c.OK("R06a", key, call.Pos(), "data is "+ts.String())
			}
		}
	}
}

// ---------------------------------------------------------------- R06b

func c06RuleB(c *core.Ctx, r *c06roles, prov *c08Prov) {
	// library-wide inventory of csv.Reader option stores
	type optStore struct {
		w core.WriteSite
		f *ssa.Function
	}
	var stores []optStore
	for _, f := range c.RepoFunctions() {
		if core.IsCLIOrSample(core.FuncPkg(f)) {
			continue
		}
		for _, w := range core.Writes(f) {
			if w.Kind == "field" && w.Owner != nil && types.Identical(w.Owner, r.csvReaderT) && w.Field != nil {
				stores = append(stores, optStore{w, f})
			}
		}
	}
	var forbidden []string
	var firstPos token.Pos
	for _, s := range stores {
		switch s.w.Field.Name() {
		case "Comma", "FieldsPerRecord", "ReuseRecord":
		default:
			if !core.IsZeroConst(s.w.Val) {
				forbidden = append(forbidden, core.FuncKey(s.f)+" sets "+s.w.Field.Name())
				if !firstPos.IsValid() {
					firstPos = s.w.Pos
				}
			}
		}
	}
	sort.Strings(forbidden)
	c.Check(len(forbidden) == 0, "R06b", "csv.Reader options TrimLeadingSpace/LazyQuotes/Comment are never set", firstPos, fmt.Sprintf("%d option stores inspected", len(stores)),
		"the csv decoder is configured to alter or drop input: "+strings.Join(forbidden, ", "))

	// per construction
	for _, pk := range r.pkgs {
		if pk.kind != "csv" {
			continue
		}
		n := 0
		for _, f := range pk.fns {
			for _, ci := range core.Calls(f) {
				call, ok := ci.(*ssa.Call)
				if !ok || call.Call.IsInvoke() {
					continue
				}
				o := core.CalleeObj(call)
				if o == nil || o.Pkg() == nil {
					continue
				}
				isCtor := (o.Pkg().Path() == "encoding/csv" && o.Name() == "NewReader") || (o.Pkg().Path() == "github.com/jf-tech/go-corelib/ios" && o.Name() == "NewLineNumReportingCsvReader")
				if !isCtor {
					continue
				}
				n++
				fk := core.FuncKey(f)
				var comma, fpr []core.WriteSite
				onPath := map[ssa.Instruction]bool{} // store -> executed on every path from the construction
				collect := func(in *ssa.Function, root ssa.Value, from ssa.Instruction, via bool) {
					for _, s := range stores {
						if s.f != in {
							continue
						}
						if _, rt := c08AddrChain(s.w.Instr.(*ssa.Store).Addr); rt != root {
							continue
						}
						onPath[s.w.Instr] = via && (from == nil || c08MustPass(from, s.w.Instr))
						switch s.w.Field.Name() {
						case "Comma":
							comma = append(comma, s.w)
						case "FieldsPerRecord":
							fpr = append(fpr, s.w)
						}
					}
				}
				collect(f, call, call, true)
				// one level of configuration helpers: the decoder is handed to a repository function that sets the options
				for _, ci2 := range core.Calls(f) {
					hc, ok := ci2.(*ssa.Call)
					if !ok {
						continue
					}
					g := c08RepoCallee(hc)
					if g == nil {
						continue
					}
					for i, a := range hc.Call.Args {
						if a == ssa.Value(call) && i < len(g.Params) {
							collect(g, g.Params[i], nil, c08MustPass(call, hc))
							for _, s := range stores {
								if s.f == g && len(g.Blocks) > 0 && len(g.Blocks[0].Instrs) > 0 {
									if _, rt := c08AddrChain(s.w.Instr.(*ssa.Store).Addr); rt == ssa.Value(g.Params[i]) {
										entry := g.Blocks[0].Instrs[0]
										onPath[s.w.Instr] = onPath[s.w.Instr] && (entry == s.w.Instr || c08MustPass(entry, s.w.Instr))
									}
								}
							}
						}
					}
				}
				// Comma
				key := fk + " csv.Reader.Comma"
				switch {
				case len(comma) != 1:
					c.Bad("R06b", key, call.Pos(), fmt.Sprintf("the constructed csv decoder gets its delimiter from %d stores (exactly one expected): with none the delimiter is always ','", len(comma)))
				case !onPath[comma[0].Instr]:
					c.Bad("R06b", key, comma[0].Pos, "the delimiter is not set on every path from the construction of the decoder")
				default:
					ok, why := c06DelimiterRune(prov, comma[0])
					c.Check(ok, "R06b", key, comma[0].Pos, "first rune of FileDecl delimiter", "the delimiter handed to the csv decoder is not the first rune of the schema's delimiter: "+why)
				}
				// FieldsPerRecord
				key = fk + " csv.Reader.FieldsPerRecord"
				switch {
				case len(fpr) != 1:
					c.Bad("R06b", key, call.Pos(), fmt.Sprintf("FieldsPerRecord is set by %d stores (exactly one expected): with the default 0 every row must have as many fields as the first one, shorter/longer rows become errors", len(fpr)))
				case !onPath[fpr[0].Instr]:
					c.Bad("R06b", key, fpr[0].Pos, "FieldsPerRecord is not set on every path from the construction of the decoder")
				default:
					neg := false
					if k, ok := fpr[0].Val.(*ssa.Const); ok && k.Value != nil && k.Value.Kind() == constant.Int {
						neg = constant.Sign(k.Value) < 0
					}
					c.Check(neg, "R06b", key, fpr[0].Pos, "constant < 0: variable number of fields", "FieldsPerRecord is not a negative constant: rows with a different number of fields than declared/first are rejected by the decoder")
				}
			}
		}
		if n == 0 {
			c.Unresolved("R06b", "csv decoder construction in "+core.Rel(pk.p.Path()), "the package reads csv records but constructs no csv.Reader (csv.NewReader / ios.NewLineNumReportingCsvReader)")
		}
	}
}

// c06FirstRuneOfDelimiter: v is []rune(s)[0] or the rune result of utf8.DecodeRuneInString(s), s = the delimiter field.
func c06FirstRuneOfDelimiter(prov *c08Prov, v ssa.Value) (bool, string) {
	var s ssa.Value
	switch x := v.(type) {
	case *ssa.UnOp:
		if ia, ok := x.X.(*ssa.IndexAddr); ok && x.Op == token.MUL {
			if cv, ok := ia.X.(*ssa.Convert); ok && c06IsRuneSlice(cv.Type()) && c06IsConst(ia.Index, "0") {
				s = cv.X
			}
		}
	case *ssa.Index:
		if cv, ok := x.X.(*ssa.Convert); ok && c06IsRuneSlice(cv.Type()) && c06IsConst(x.Index, "0") {
			s = cv.X
		}
	case *ssa.Extract:
		if call, ok := x.Tuple.(*ssa.Call); ok && x.Index == 0 && core.IsCallTo(call, "unicode/utf8", "DecodeRuneInString") {
			s = call.Call.Args[0]
		}
	}
	if s == nil {
		return false, "the value is not []rune(s)[0] / utf8.DecodeRuneInString(s) of a string s (e.g. a constant, a byte of the string, or another rune)"
	}
	ts := prov.Resolve(s, nil)
	if len(ts) == 0 {
		return false, "the string has no origin"
	}
	for _, t := range ts {
		if !(t.Kind == "field" && t.Root == "delimiter" && t.Path == "") {
			return false, "the string is not the declaration field tagged \"delimiter\" but " + ts.String()
		}
	}
	return true, ""
}

func c06IsRuneSlice(t types.Type) bool {
	s, ok := t.Underlying().(*types.Slice)
	if !ok {
		return false
	}
	b, ok := s.Elem().Underlying().(*types.Basic)
	return ok && (b.Kind() == types.Int32 || b.Kind() == types.Rune)
}

// ---------------------------------------------------------------- R06d

func c06RuleD(c *core.Ctx, r *c06roles) {
	for _, pk := range r.pkgs {
		if pk.kind != "line" {
			continue
		}
		for _, call := range pk.sources {
			f := call.Parent()
			var line ssa.Value
			for _, u := range core.Referrers(call) {
				if ex, ok := u.(*ssa.Extract); ok && ex.Index == 0 {
					line = ex
				}
			}
			if line == nil {
				continue
			}
			key := core.FuncKey(f) + " skips only empty lines"
			src := call.Block()
			onCycle := map[*ssa.BasicBlock]bool{}
			for _, b := range f.Blocks {
				for _, s := range b.Succs {
					if reachableFrom(s, src) && reachableFrom(src, b) {
						onCycle[b] = true
					}
				}
			}
			if len(onCycle) == 0 {
				c.OK("R06d", key, call.Pos(), "the line source is not re-invoked in a loop here: nothing is skipped in this function")
				continue
			}
			var bad []string
			for _, b := range f.Blocks {
				if !onCycle[b] {
					continue
				}
				ifi, ok := b.Instrs[len(b.Instrs)-1].(*ssa.If)
				if !ok || !dependsOn(ifi.Cond, line, 0) {
					continue
				}
				if !c06IsEmptinessTest(ifi.Cond, line) {
					bad = append(bad, c.Position(core.InstrPos(ifi)))
				}
			}
			c.Check(len(bad) == 0, "R06d", key, call.Pos(), "the only content-dependent condition on the re-read path is len(line) against 0",
				"a condition other than len(line) == 0 on the raw line decides whether the line is skipped: non-empty lines (all-blank, short) would be silently dropped")
		}
	}
}

// c06IsEmptinessTest: cond partitions lines exactly into len==0 and len>0.
func c06IsEmptinessTest(cond ssa.Value, line ssa.Value) bool {
	if u, ok := cond.(*ssa.UnOp); ok && u.Op == token.NOT {
		return c06IsEmptinessTest(u.X, line)
	}
	bo, ok := cond.(*ssa.BinOp)
	if !ok {
		return false
	}
	isLen := func(v ssa.Value) bool {
		cl, ok := v.(*ssa.Call)
		if !ok {
			return false
		}
		bn, ok := cl.Call.Value.(*ssa.Builtin)
		return ok && bn.Name() == "len" && c06IsLineVar(cl.Call.Args[0], line, 0)
	}
	konst := func(v ssa.Value) (int64, bool) { return c08ConstInt(v) }
	op := bo.Op
	var k int64
	switch {
	case isLen(bo.X):
		kk, ok := konst(bo.Y)
		if !ok {
			return false
		}
		k = kk
	case isLen(bo.Y):
		kk, ok := konst(bo.X)
		if !ok {
			return false
		}
		k = kk
		// mirror the operator: k op len  ==  len op' k
		switch op {
		case token.LSS:
			op = token.GTR
		case token.GTR:
			op = token.LSS
		case token.LEQ:
			op = token.GEQ
		case token.GEQ:
			op = token.LEQ
		}
	default:
		return false
	}
	switch {
	case k == 0 && (op == token.EQL || op == token.NEQ || op == token.GTR || op == token.LEQ):
		return true
	case k == 1 && (op == token.LSS || op == token.GEQ):
		return true
	}
	return false
}

// c06IsLineVar: v is the line itself, or a variable (phi) that only ever holds the line or an empty/nil value
// (the loop-condition form "for len(b) == 0 { b, err = source() … }").
func c06IsLineVar(v, line ssa.Value, depth int) bool {
	if v == line {
		return true
	}
	phi, ok := v.(*ssa.Phi)
	if !ok || depth > 4 {
		return false
	}
	hasLine := false
	for _, e := range phi.Edges {
		switch {
		case e == ssa.Value(phi):
		case e == line:
			hasLine = true
		case core.IsNilConst(e) || core.IsZeroConst(e):
		default:
			if _, isPhi := e.(*ssa.Phi); isPhi && c06IsLineVar(e, line, depth+1) {
				hasLine = true
				continue
			}
			return false
		}
	}
	return hasLine
}
