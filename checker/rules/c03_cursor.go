package rules

import (
	"fmt"
	"go/token"
	"go/types"
	"sort"

	"golang.org/x/tools/go/ssa"

	"omnilint/core"
)

// K19 cursor moved above the root. The stream readers keep a cursor field (*Node) that is moved to `cursor.Parent` when
// a node is finished. The parent of the topmost node is nil, so after such a move the cursor may be nil; every later
// dereference of the cursor — directly, or by handing it to a function that dereferences its parameter before testing
// it — must be preceded by a nil test, a store of a non-nil node, or rest on a reviewed argument about the decoder.
//
// Typestate analysis, per reader type T (role: struct of package idr with >= 2 *Node fields and methods Read/Release)
// and per *Node field F of T that some method assigns from a load of a Node link field: abstract state of F in
// {NonNil, MaybeNil}; forward data flow over the SSA CFG of every method of T; a branch on `F == nil` refines the state
// on its edges; a store to F sets it (MaybeNil iff the stored value derives from a link-field load or is nil); a call of
// another method of T is interpreted with that method's summary (entry state = join over its call sites, exit state =
// join over its returns), to a fixpoint; between calls of the exported methods the object keeps the join of the
// constructor's and every exported method's exit state.

var c03reviewedK19 = map[string]c03argued{
	"idr.XMLStreamReader.cur is dereferenced after it was moved to Parent": {40, "the cursor is moved to its parent only when encoding/xml reports an EndElement, which the decoder does only for an element that is open (unbalanced end tags are syntax errors); elements are created below the document node, so the node being closed always has a non-nil parent, and the document node itself is never closed"},
}

type k19state int

const (
	k19Bottom k19state = iota
	k19NonNil
	k19MaybeNil
)

func k19join(a, b k19state) k19state {
	if a > b {
		return a
	}
	return b
}

func (x *c03ctx) runK19() {
	c := x.c
	idr := c.Pkg("idr")
	if idr == nil {
		c.Unresolved("K19", "package idr", "not loaded")
		return
	}
	nodeObj, _ := idr.Types.Scope().Lookup("Node").(*types.TypeName)
	if nodeObj == nil {
		c.Unresolved("K19", "idr.Node", "not found")
		return
	}
	isNodePtr := func(t types.Type) bool {
		p, ok := t.(*types.Pointer)
		return ok && types.Identical(p.Elem(), nodeObj.Type())
	}
	nodeStruct := nodeObj.Type().Underlying().(*types.Struct)
	isLink := func(fv *types.Var) bool {
		for i := 0; i < nodeStruct.NumFields(); i++ {
			if nodeStruct.Field(i) == fv && isNodePtr(fv.Type()) {
				return true
			}
		}
		return false
	}
	var nullable func(v ssa.Value, d int) bool
	nullable = func(v ssa.Value, d int) bool {
		if d > 6 {
			return false
		}
		switch y := v.(type) {
		case *ssa.Const:
			return y.IsNil()
		case *ssa.UnOp:
			if y.Op == token.MUL {
				if fa, ok := y.X.(*ssa.FieldAddr); ok {
					return isLink(core.FieldOfAddr(fa))
				}
			}
		case *ssa.Phi:
			for _, e := range y.Edges {
				if nullable(e, d+1) {
					return true
				}
			}
		}
		return false
	}
	linkLoad := func(v ssa.Value) bool {
		u, ok := v.(*ssa.UnOp)
		if !ok || u.Op != token.MUL {
			return false
		}
		fa, ok := u.X.(*ssa.FieldAddr)
		return ok && isLink(core.FieldOfAddr(fa))
	}
	nReaders := 0
	for _, name := range idr.Types.Scope().Names() {
		tn, ok := idr.Types.Scope().Lookup(name).(*types.TypeName)
		if !ok {
			continue
		}
		st, ok := tn.Type().Underlying().(*types.Struct)
		if !ok {
			continue
		}
		nNode := 0
		var countNodes func(ss *types.Struct, d int)
		countNodes = func(ss *types.Struct, d int) {
			for i := 0; i < ss.NumFields(); i++ {
				ft := ss.Field(i).Type()
				if isNodePtr(ft) {
					nNode++
					continue
				}
				if nn := core.NamedOf(ft); nn != nil && nn.Obj().Pkg() == idr.Types && nn.Obj() != nodeObj && d < 2 {
					if inner, ok := nn.Underlying().(*types.Struct); ok {
						countNodes(inner, d+1)
					}
				}
			}
		}
		countNodes(st, 0)
		if nNode < 2 || c.MethodOfPkg(idr.Types, name, "Read") == nil || c.MethodOfPkg(idr.Types, name, "Release") == nil {
			continue
		}
		nReaders++
		// methods (incl. closures) of T and constructors (package functions returning *T)
		var methods []*ssa.Function
		isMethod := map[*ssa.Function]bool{}
		var ctors []*ssa.Function
		for _, f := range c.RepoFunctions() {
			if core.FuncPkg(f) != idr.Types || f.Parent() != nil {
				continue
			}
			if recv := f.Signature.Recv(); recv != nil {
				if n := core.NamedOf(recv.Type()); n != nil && n.Obj() == tn {
					methods = append(methods, f)
					isMethod[f] = true
				}
				continue
			}
			res := f.Signature.Results()
			for i := 0; i < res.Len(); i++ {
				if n := core.NamedOf(res.At(i).Type()); n != nil && n.Obj() == tn {
					ctors = append(ctors, f)
				}
			}
		}
		sort.Slice(methods, func(i, j int) bool { return core.FuncKey(methods[i]) < core.FuncKey(methods[j]) })
		// fields with a store of a link-field load
		var fields []*types.Var
		for _, m := range methods {
			for _, w := range core.Writes(m) {
				if w.Kind == "field" && w.Field != nil && isNodePtr(w.Field.Type()) && w.Owner != nil && w.Owner.Obj() != nodeObj && linkLoad(w.Val) {
					dup := false
					for _, f := range fields {
						if f == w.Field {
							dup = true
						}
					}
					if !dup {
						fields = append(fields, w.Field)
					}
				}
			}
		}
		for _, F := range fields {
			isLoadF := func(v ssa.Value) bool {
				u, ok := v.(*ssa.UnOp)
				if !ok || u.Op != token.MUL {
					return false
				}
				fa, ok := u.X.(*ssa.FieldAddr)
				return ok && core.FieldOfAddr(fa) == F
			}
			entry := map[*ssa.Function]k19state{}
			exit := map[*ssa.Function]k19state{}
			// per-context summaries: exit state of a method for a given entry state (context-sensitive in the one bit)
			type ctxKey struct {
				f  *ssa.Function
				in k19state
			}
			ctxExit := map[ctxKey]k19state{}
			inProgress := map[ctxKey]bool{}
			type site struct {
				in ssa.Instruction
				st k19state
			}
			var sites map[ssa.Instruction]k19state
			// analyse one function with a given entry state; returns exit state; records deref sites when record is true
			var analyse func(f *ssa.Function, in k19state, record bool) k19state
			analyse = func(f *ssa.Function, in k19state, record bool) k19state {
				if f.Blocks == nil {
					return in
				}
				bin := map[*ssa.BasicBlock]k19state{f.Blocks[0]: in}
				out := k19Bottom
				work := []*ssa.BasicBlock{f.Blocks[0]}
				edgeState := map[[2]*ssa.BasicBlock]k19state{}
				for iter := 0; len(work) > 0 && iter < 4000; iter++ {
					b := work[0]
					work = work[1:]
					s := bin[b]
					for _, ins := range b.Instrs {
						switch y := ins.(type) {
						case *ssa.Store:
							if fa, ok := y.Addr.(*ssa.FieldAddr); ok && core.FieldOfAddr(fa) == F {
								if nullable(y.Val, 0) {
									s = k19MaybeNil
								} else {
									s = k19NonNil
								}
							}
						case ssa.CallInstruction:
							if _, isDefer := ins.(*ssa.Defer); isDefer {
								continue
							}
							cf := y.Common().StaticCallee()
							// dereference through a callee that dereferences its parameter
							if record && cf != nil {
								for ai, a := range y.Common().Args {
									if isLoadF(a) && !isMethod[cf] && x.derefsParamUnguarded(cf, ai, 0, map[string]bool{}) {
										sites[ins] = k19join(sites[ins], s)
									}
								}
							}
							if cf != nil && isMethod[cf] {
								entry[cf] = k19join(entry[cf], s)
								k := ctxKey{cf, s}
								if e, ok := ctxExit[k]; ok {
									if e != k19Bottom {
										s = e
									}
								} else if !inProgress[k] && s != k19Bottom {
									inProgress[k] = true
									e := analyse(cf, s, false)
									inProgress[k] = false
									ctxExit[k] = e
									if e != k19Bottom {
										s = e
									}
								} else if e := exit[cf]; e != k19Bottom {
									s = k19join(s, e) // recursive cycle: fall back to the context-insensitive summary
								}
							}
						case *ssa.FieldAddr:
							if record && isLoadF(y.X) {
								sites[ins] = k19join(sites[ins], s)
							}
						case *ssa.Return:
							out = k19join(out, s)
						}
					}
					// successors with branch refinement
					for si, succ := range b.Succs {
						ns := s
						if ifi, ok := b.Instrs[len(b.Instrs)-1].(*ssa.If); ok {
							if bo, ok := ifi.Cond.(*ssa.BinOp); ok && (bo.Op == token.EQL || bo.Op == token.NEQ) {
								var other ssa.Value
								if core.IsNilConst(bo.X) {
									other = bo.Y
								} else if core.IsNilConst(bo.Y) {
									other = bo.X
								}
								if other != nil && isLoadF(other) {
									nonNilEdge := 1
									if bo.Op == token.NEQ {
										nonNilEdge = 0
									}
									if si == nonNilEdge {
										ns = k19NonNil
									}
								}
							}
						}
						k := [2]*ssa.BasicBlock{b, succ}
						if edgeState[k] == ns && bin[succ] != k19Bottom {
							continue
						}
						edgeState[k] = ns
						nb := k19Bottom
						for _, p := range succ.Preds {
							nb = k19join(nb, edgeState[[2]*ssa.BasicBlock{p, succ}])
						}
						if nb != bin[succ] {
							bin[succ] = nb
							work = append(work, succ)
						}
					}
				}
				return out
			}
			// fixpoint over object state and method summaries
			obj := k19Bottom
			for _, ct := range ctors {
				obj = k19join(obj, analyse(ct, k19Bottom, false))
			}
			if obj == k19Bottom {
				obj = k19NonNil
			}
			exported := func(m *ssa.Function) bool { o := m.Object(); return o != nil && o.Exported() }
			for round := 0; round < 12; round++ {
				changed := false
				for _, m := range methods {
					in := entry[m]
					if exported(m) {
						in = k19join(in, obj)
					}
					if in == k19Bottom {
						continue
					}
					if in != entry[m] {
						entry[m] = in
						changed = true
					}
					e := analyse(m, in, false)
					if e != k19Bottom && e != exit[m] {
						exit[m] = k19join(exit[m], e)
						changed = true
					}
					if exported(m) && k19join(obj, exit[m]) != obj {
						obj = k19join(obj, exit[m])
						changed = true
					}
				}
				if !changed {
					break
				}
			}
			// record dereference sites with the final states
			nBad, nOK := 0, 0
			var firstBad ssa.Instruction
			for _, m := range methods {
				if entry[m] == k19Bottom {
					continue
				}
				sites = map[ssa.Instruction]k19state{}
				analyse(m, entry[m], true)
				var ins []ssa.Instruction
				for in := range sites {
					ins = append(ins, in)
				}
				sort.Slice(ins, func(i, j int) bool { return ins[i].Pos() < ins[j].Pos() })
				for _, in := range ins {
					if sites[in] == k19MaybeNil {
						nBad++
						if firstBad == nil {
							firstBad = in
						}
					} else {
						nOK++
					}
				}
			}
			key := "idr." + name + "." + F.Name() + " is dereferenced after it was moved to Parent"
			if nBad == 0 {
				c.OK("K19", key, F.Pos(), fmt.Sprintf("%d dereference site(s) of the field, each reached with the field known non-nil (nil test or store of a fresh node on every path)", nOK))
				continue
			}
			why := fmt.Sprintf("the field is assigned from a Parent link, which is nil for the topmost node, and %d of %d dereference sites can be reached without a nil test or a store of a non-nil node in between (first: %s): input that makes the reader continue after the topmost node was closed dereferences nil", nBad, nBad+nOK, c.Position(core.InstrPos(firstBad)))
			x.settle("K19", key, firstBad, c03reviewedK19, why)
		}
	}
	x.flush("K19", c03reviewedK19)
	if nReaders < 2 {
		c.Unresolved("K19", "stream readers", fmt.Sprintf("expected the XML and JSON stream readers, found %d", nReaders))
	}
	c.Floor("K19", 2, "cursor fields of the two stream readers")
}
