package rules

import (
	"go/types"
	"sort"

	"golang.org/x/tools/go/ssa"

	"omnilint/core"
)

// c10Region is "the code of one call of f": f itself plus the functions of f's own package that f reaches through
// static calls (helper methods/functions extracted from f, directly invoked function literals). Values are followed
// across these calls by binding arguments to parameters and results to call values.
type c10Region struct {
	root  *ssa.Function
	fns   []*ssa.Function                         // root first, then helpers in discovery order (deterministic)
	in    map[*ssa.Function]bool                  //
	sites map[*ssa.Function][]ssa.CallInstruction // static call sites of a helper inside the region
}

const c10RegionDepth = 3

func c10RegionOf(f *ssa.Function) *c10Region {
	r := &c10Region{root: f, in: map[*ssa.Function]bool{}, sites: map[*ssa.Function][]ssa.CallInstruction{}}
	pkg := core.FuncPkg(f)
	var visit func(fn *ssa.Function, depth int)
	visit = func(fn *ssa.Function, depth int) {
		r.in[fn] = true
		r.fns = append(r.fns, fn)
		for _, ci := range core.Calls(fn) {
			cc := ci.Common()
			if cc.IsInvoke() {
				continue
			}
			cf := cc.StaticCallee()
			if cf == nil || cf == f || cf.Blocks == nil || core.FuncPkg(cf) != pkg || pkg == nil {
				continue
			}
			if _, isGo := ci.(*ssa.Go); isGo {
				continue // not part of this call of f
			}
			if !r.in[cf] {
				if depth >= c10RegionDepth {
					continue
				}
				visit(cf, depth+1)
			}
			r.sites[cf] = append(r.sites[cf], ci)
		}
	}
	visit(f, 0)
	return r
}

// paramIndex returns the index of p in its function's parameter list (receiver included), or -1.
func c10ParamIndex(p *ssa.Parameter) int {
	for i, q := range p.Parent().Params {
		if q == p {
			return i
		}
	}
	return -1
}

// resultsAt returns the values returned by fn at result index idx.
func c10ResultsAt(fn *ssa.Function, idx int) []ssa.Value {
	var out []ssa.Value
	for _, b := range fn.Blocks {
		if ret, ok := b.Instrs[len(b.Instrs)-1].(*ssa.Return); ok && idx < len(ret.Results) {
			out = append(out, ret.Results[idx])
		}
	}
	return out
}

// producedIn: v is, on every path, a value produced by a call of ctor executed inside the region (hence during this very
// call of the root): the ctor call itself, a local interface view of it, a Phi of such values, a helper's parameter
// that is bound to such a value at every call site of the helper in the region, or the result of a region helper all
// of whose returns are such values.
func (r *c10Region) producedIn(v ssa.Value, ctor *ssa.Function, seen map[ssa.Value]bool) bool {
	if seen[v] {
		return true // cycle through a Phi: decided by the other edges
	}
	seen[v] = true
	switch x := v.(type) {
	case *ssa.Call:
		cf := x.Call.StaticCallee()
		if cf == nil || x.Call.IsInvoke() || !r.in[x.Parent()] {
			return false
		}
		if cf == ctor {
			return true
		}
		if r.in[cf] && cf != r.root && cf.Signature.Results().Len() == 1 {
			return r.allProduced(c10ResultsAt(cf, 0), ctor, seen)
		}
		return false
	case *ssa.Extract:
		call, ok := x.Tuple.(*ssa.Call)
		if !ok || call.Call.IsInvoke() {
			return false
		}
		cf := call.Call.StaticCallee()
		if cf == nil || !r.in[cf] || cf == r.root || !r.in[call.Parent()] {
			return false
		}
		return r.allProduced(c10ResultsAt(cf, x.Index), ctor, seen)
	case *ssa.MakeInterface:
		return r.producedIn(x.X, ctor, seen)
	case *ssa.ChangeInterface:
		return r.producedIn(x.X, ctor, seen)
	case *ssa.Phi:
		return r.allProduced(x.Edges, ctor, seen)
	case *ssa.Parameter:
		fn := x.Parent()
		idx := c10ParamIndex(x)
		if fn == r.root || !r.in[fn] || idx < 0 || len(r.sites[fn]) == 0 {
			return false
		}
		for _, site := range r.sites[fn] {
			args := site.Common().Args
			if idx >= len(args) || !r.producedIn(args[idx], ctor, seen) {
				return false
			}
		}
		return true
	}
	return false
}

func (r *c10Region) allProduced(vs []ssa.Value, ctor *ssa.Function, seen map[ssa.Value]bool) bool {
	if len(vs) == 0 {
		return false
	}
	for _, v := range vs {
		if !r.producedIn(v, ctor, seen) {
			return false
		}
	}
	return true
}

// usedOnlyAs: every use of v (followed into region helpers through parameters, out of them through results, through
// Phis and local interface views) satisfies isUse(call, v) — v is consumed by a call in the permitted way. Any other
// use (store, conversion, passing to code outside the region, capture by a closure, return from the root or to callers
// outside the region) makes it false. repoSites gives all static call sites of a function in the repository.
func (r *c10Region) usedOnlyAs(v ssa.Value, isUse func(ci ssa.CallInstruction, v ssa.Value) bool, repoSites func(*ssa.Function) ([]ssa.CallInstruction, bool), seen map[ssa.Value]bool) bool {
	if seen[v] {
		return true
	}
	seen[v] = true
	for _, u := range core.Referrers(v) {
		switch x := u.(type) {
		case *ssa.DebugRef:
		case *ssa.Phi:
			if !r.usedOnlyAs(x, isUse, repoSites, seen) {
				return false
			}
		case *ssa.MakeInterface:
			if !r.usedOnlyAs(x, isUse, repoSites, seen) {
				return false
			}
		case *ssa.ChangeInterface:
			if !r.usedOnlyAs(x, isUse, repoSites, seen) {
				return false
			}
		case ssa.CallInstruction:
			if isUse(x, v) {
				continue
			}
			cc := x.Common()
			cf := cc.StaticCallee()
			if cc.IsInvoke() || cf == nil || !r.in[cf] || cf == r.root || cc.Value == v {
				return false
			}
			if _, isCall := x.(*ssa.Call); !isCall {
				return false // go/defer: runs outside the straight-line evaluation of this record
			}
			if len(cc.Args) != len(cf.Params) {
				return false
			}
			for i, a := range cc.Args {
				if a == v && !r.usedOnlyAs(cf.Params[i], isUse, repoSites, seen) {
					return false
				}
			}
		case *ssa.Return:
			fn := x.Parent()
			if fn == r.root || !r.in[fn] {
				return false
			}
			all, closed := repoSites(fn)
			if !closed {
				return false
			}
			for _, site := range all {
				if !r.in[site.Parent()] {
					return false // handed to a caller that is not part of this call of the root
				}
				call, ok := site.(*ssa.Call)
				if !ok {
					return false
				}
				for i, res := range x.Results {
					if res != v {
						continue
					}
					if len(x.Results) == 1 {
						if !r.usedOnlyAs(call, isUse, repoSites, seen) {
							return false
						}
						continue
					}
					for _, u2 := range core.Referrers(call) {
						ex, ok := u2.(*ssa.Extract)
						if !ok {
							return false
						}
						if ex.Index == i && !r.usedOnlyAs(ex, isUse, repoSites, seen) {
							return false
						}
					}
				}
			}
		default:
			return false
		}
	}
	return true
}

// c10RepoSites returns a function that lists every static call site of fn in the repository; closed is false when fn
// may also be called in ways not visible as static calls (exported, or used as a value / bound method / interface method
// implementation cannot be excluded).
func c10RepoSites(c *core.Ctx) func(*ssa.Function) ([]ssa.CallInstruction, bool) {
	var index map[*ssa.Function][]ssa.CallInstruction
	valueUse := map[*ssa.Function]bool{}
	build := func() {
		index = map[*ssa.Function][]ssa.CallInstruction{}
		for _, f := range c.RepoFunctions() {
			for _, b := range f.Blocks {
				for _, in := range b.Instrs {
					if ci, ok := in.(ssa.CallInstruction); ok {
						if cf := ci.Common().StaticCallee(); cf != nil && !ci.Common().IsInvoke() {
							index[cf] = append(index[cf], ci)
						}
					}
					for _, op := range in.Operands(nil) {
						if op == nil || *op == nil {
							continue
						}
						if fv, ok := (*op).(*ssa.Function); ok {
							if ci, isCall := in.(ssa.CallInstruction); isCall && ci.Common().Value == ssa.Value(fv) {
								// callee position; but the same function may also be passed as an argument
								for _, a := range ci.Common().Args {
									if a == ssa.Value(fv) {
										valueUse[fv] = true
									}
								}
								continue
							}
							valueUse[fv] = true
						}
					}
				}
			}
		}
	}
	return func(fn *ssa.Function) ([]ssa.CallInstruction, bool) {
		if index == nil {
			build()
		}
		closed := !valueUse[fn]
		if fn.Parent() == nil {
			// a declared function or method: closed only if unexported and (for methods) not reachable through an
			// interface, which we approximate by: unexported name
			if obj, ok := fn.Object().(*types.Func); !ok || obj.Exported() {
				closed = false
			}
			if fn.Synthetic != "" {
				closed = false
			}
		}
		sites := index[fn]
		sort.SliceStable(sites, func(i, j int) bool { return sites[i].Pos() < sites[j].Pos() })
		return sites, closed
	}
}
