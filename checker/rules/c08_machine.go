package rules

// A small symbolic machine for the loop-free node predicates and decoders of package idr (C08 R08a/R08c/R08f).
//
// It executes SSA over abstract values: symbolic JSON nodes (with a known or unknown JSONType flag word), the Data of
// such a node, the FormatSpecific interface of such a node, constants, and "parsed" values (strconv.ParseFloat /
// ParseBool of a node's Data). Conditions it cannot decide fork the execution (every combination is explored);
// re-entering a block (a loop) ends the execution with an opaque "loop" outcome.

import (
	"fmt"
	"go/constant"
	"go/token"
	"go/types"
	"strings"

	"golang.org/x/tools/go/ssa"

	"omnilint/core"
)

type c08AVKind int

const (
	c08Unknown c08AVKind = iota
	c08Bool
	c08Int
	c08NodeV
	c08NilPtr
	c08Iface   // FormatSpecific of node N
	c08DataV   // Data of node N
	c08Parsed  // strconv.Parse*(Data of node N)
	c08NilIfc  // nil interface
	c08Tuple   //
	c08ConstV  // other constant
	c08Opaque  // result of something not modelled
	c08Obj     // pointer to a non-node object
	c08AddrN   // address of field F of node N
	c08AddrObj // address of a field of a non-node object (resolved through the provenance engine when loaded)
)

type c08AV struct {
	K    c08AVKind
	B    bool
	I    uint64
	N    int
	S    string
	Bits int64
	T    []c08AV
	F    *types.Var
	V    ssa.Value
}

func (a c08AV) String() string {
	switch a.K {
	case c08Bool:
		return fmt.Sprintf("%v", a.B)
	case c08Int:
		return fmt.Sprintf("%d", a.I)
	case c08NodeV:
		return fmt.Sprintf("node%d", a.N)
	case c08NilPtr, c08NilIfc:
		return "nil"
	case c08Iface:
		return fmt.Sprintf("FormatSpecific(node%d)", a.N)
	case c08DataV:
		return fmt.Sprintf("Data(node%d)", a.N)
	case c08Parsed:
		if a.Bits != 0 {
			return fmt.Sprintf("%s(Data(node%d), %d)", a.S, a.N, a.Bits)
		}
		return fmt.Sprintf("%s(Data(node%d))", a.S, a.N)
	case c08ConstV:
		return "const " + a.S
	case c08Opaque:
		return a.S
	case c08Tuple:
		var p []string
		for _, t := range a.T {
			p = append(p, t.String())
		}
		return "(" + strings.Join(p, ", ") + ")"
	}
	return "unknown"
}

type c08SymNode struct {
	tagKnown bool
	tag      uint64
	nonNil   bool
}

type c08Machine struct {
	r       *c08roles
	prov    *c08Prov
	nodes   []c08SymNode
	child   map[int]int // node -> its FirstChild node
	choices []bool
	pos     int
	steps   int
	// typedMode: value assumed for the bool parameter of J2NodeToInterface
	typedMode bool
}

func (m *c08Machine) choose() bool {
	if m.pos < len(m.choices) {
		c := m.choices[m.pos]
		m.pos++
		return c
	}
	m.choices = append(m.choices, false)
	m.pos++
	return false
}

func (m *c08Machine) newNode(n c08SymNode) int {
	m.nodes = append(m.nodes, n)
	return len(m.nodes) - 1
}

func (m *c08Machine) firstChild(n int) int {
	if id, ok := m.child[n]; ok {
		return id
	}
	id := m.newNode(c08SymNode{})
	m.child[n] = id
	return id
}

func c08IsPtrToNode(t types.Type, node *types.Named) bool {
	p, ok := t.Underlying().(*types.Pointer)
	return ok && types.Identical(p.Elem(), node)
}

func (m *c08Machine) constant(k *ssa.Const) c08AV {
	if k.IsNil() {
		if _, ok := k.Type().Underlying().(*types.Interface); ok {
			return c08AV{K: c08NilIfc}
		}
		return c08AV{K: c08NilPtr}
	}
	if k.Value == nil {
		return c08AV{K: c08ConstV, S: "zero"}
	}
	switch k.Value.Kind() {
	case constant.Bool:
		return c08AV{K: c08Bool, B: constant.BoolVal(k.Value)}
	case constant.Int:
		if u, ok := constant.Uint64Val(k.Value); ok {
			return c08AV{K: c08Int, I: u}
		}
		if i, ok := constant.Int64Val(k.Value); ok {
			return c08AV{K: c08Int, I: uint64(i)}
		}
	}
	return c08AV{K: c08ConstV, S: k.Value.ExactString()}
}

// run executes fn on args; status is "" (returned), "loop", "panic" or "abort: …".
func (m *c08Machine) run(fn *ssa.Function, args []c08AV, depth int) (c08AV, string) {
	if fn == nil || fn.Blocks == nil || depth > 8 {
		return c08AV{K: c08Opaque, S: "result of " + c08FuncName(fn)}, "abort: not executable"
	}
	env := map[ssa.Value]c08AV{}
	for i, p := range fn.Params {
		if i < len(args) {
			env[p] = args[i]
		}
	}
	val := func(v ssa.Value) c08AV {
		if k, ok := v.(*ssa.Const); ok {
			return m.constant(k)
		}
		if a, ok := env[v]; ok {
			return a
		}
		return c08AV{}
	}
	visits := map[*ssa.BasicBlock]bool{}
	var prev *ssa.BasicBlock
	b := fn.Blocks[0]
	for {
		if visits[b] {
			return c08AV{K: c08Opaque, S: "loop in " + c08FuncName(fn)}, "loop"
		}
		visits[b] = true
		var next *ssa.BasicBlock
		for _, in := range b.Instrs {
			m.steps++
			if m.steps > 20000 {
				return c08AV{K: c08Opaque, S: "step budget"}, "abort: step budget"
			}
			switch x := in.(type) {
			case *ssa.Phi:
				for i, pb := range b.Preds {
					if pb == prev {
						env[x] = val(x.Edges[i])
					}
				}
			case *ssa.If:
				c := val(x.Cond)
				take := false
				if c.K == c08Bool {
					take = c.B
				} else {
					take = m.choose()
				}
				if take {
					next = b.Succs[0]
				} else {
					next = b.Succs[1]
				}
			case *ssa.Jump:
				next = b.Succs[0]
			case *ssa.Return:
				switch len(x.Results) {
				case 0:
					return c08AV{K: c08ConstV, S: "void"}, ""
				case 1:
					return val(x.Results[0]), ""
				}
				var t []c08AV
				for _, rv := range x.Results {
					t = append(t, val(rv))
				}
				return c08AV{K: c08Tuple, T: t}, ""
			case *ssa.Panic:
				return c08AV{K: c08Opaque, S: "panic in " + c08FuncName(fn)}, "panic"
			case ssa.Value:
				env[x] = m.eval(x, val, depth)
			}
		}
		if next == nil {
			return c08AV{K: c08Opaque, S: "fell off " + c08FuncName(fn)}, "abort: no terminator"
		}
		prev, b = b, next
	}
}

func (m *c08Machine) eval(v ssa.Value, val func(ssa.Value) c08AV, depth int) c08AV {
	switch x := v.(type) {
	case *ssa.FieldAddr:
		base := val(x.X)
		f := core.FieldOfAddr(x)
		switch base.K {
		case c08NodeV:
			return c08AV{K: c08AddrN, N: base.N, F: f}
		case c08Obj, c08Unknown:
			if !c08IsPtrToNode(x.X.Type(), m.r.node) {
				return c08AV{K: c08AddrObj, V: x}
			}
		}
		return c08AV{}
	case *ssa.UnOp:
		a := val(x.X)
		switch x.Op {
		case token.MUL:
			switch a.K {
			case c08AddrN:
				switch a.F {
				case m.r.firstChild:
					return c08AV{K: c08NodeV, N: m.firstChild(a.N)}
				case m.r.dataFld:
					return c08AV{K: c08DataV, N: a.N}
				case m.r.fsFld:
					return c08AV{K: c08Iface, N: a.N}
				}
				if a.F != nil && c08IsPtrToNode(a.F.Type(), m.r.node) {
					return c08AV{K: c08NodeV, N: m.newNode(c08SymNode{})}
				}
				return c08AV{}
			case c08AddrObj:
				return m.loadObj(x)
			}
			return c08AV{}
		case token.NOT:
			if a.K == c08Bool {
				return c08AV{K: c08Bool, B: !a.B}
			}
		}
		return c08AV{}
	case *ssa.BinOp:
		return m.binop(x.Op, val(x.X), val(x.Y))
	case *ssa.TypeAssert:
		a := val(x.X)
		if a.K != c08Iface {
			if x.CommaOk {
				return c08AV{K: c08Tuple, T: []c08AV{{}, {}}}
			}
			return c08AV{}
		}
		n := m.nodes[a.N]
		isJT := types.Identical(x.AssertedType, m.r.jsonTypeT)
		var res c08AV
		if isJT && n.tagKnown {
			res = c08AV{K: c08Int, I: n.tag}
		}
		if _, isIface := x.AssertedType.Underlying().(*types.Interface); isIface {
			if x.CommaOk {
				return c08AV{K: c08Tuple, T: []c08AV{{}, {}}}
			}
			return c08AV{}
		}
		if x.CommaOk {
			return c08AV{K: c08Tuple, T: []c08AV{res, {K: c08Bool, B: isJT}}}
		}
		if !isJT {
			return c08AV{K: c08Opaque, S: "failing type assertion"}
		}
		return res
	case *ssa.Extract:
		t := val(x.Tuple)
		if t.K == c08Tuple && x.Index < len(t.T) {
			return t.T[x.Index]
		}
		return c08AV{}
	case *ssa.MakeInterface:
		return val(x.X)
	case *ssa.ChangeType:
		return val(x.X)
	case *ssa.ChangeInterface:
		return val(x.X)
	case *ssa.Convert:
		a := val(x.X)
		if a.K == c08Int {
			return a
		}
		return c08AV{}
	case *ssa.Call:
		return m.call(x, val, depth)
	case *ssa.Alloc:
		if !c08IsPtrToNode(x.Type(), m.r.node) {
			return c08AV{K: c08Obj}
		}
	}
	return c08AV{}
}

// loadObj: a load from a field of a non-node object: only booleans are modelled, through the provenance engine; the
// bool parameter of J2NodeToInterface is taken to be m.typedMode.
func (m *c08Machine) loadObj(load *ssa.UnOp) c08AV {
	b, ok := load.Type().Underlying().(*types.Basic)
	if !ok || b.Kind() != types.Bool {
		return c08AV{}
	}
	ts := m.prov.ResolvePathKeep(load, nil, nil)
	if len(ts) == 0 {
		return c08AV{}
	}
	var seenT, seenF bool
	for _, t := range ts {
		switch {
		case t.Kind == "const" && t.Root == "true":
			seenT = true
		case t.Kind == "const" && t.Root == "false":
			seenF = true
		case t.Kind == "param" && strings.HasPrefix(t.Root, core.FuncKey(m.r.j2)+" parameter") && t.Path == "":
			if m.typedMode {
				seenT = true
			} else {
				seenF = true
			}
		default:
			return c08AV{}
		}
	}
	if seenT != seenF {
		return c08AV{K: c08Bool, B: seenT}
	}
	return c08AV{}
}

func (m *c08Machine) binop(op token.Token, a, b c08AV) c08AV {
	if a.K == c08Int && b.K == c08Int {
		switch op {
		case token.AND:
			return c08AV{K: c08Int, I: a.I & b.I}
		case token.OR:
			return c08AV{K: c08Int, I: a.I | b.I}
		case token.XOR:
			return c08AV{K: c08Int, I: a.I ^ b.I}
		case token.AND_NOT:
			return c08AV{K: c08Int, I: a.I &^ b.I}
		case token.EQL:
			return c08AV{K: c08Bool, B: a.I == b.I}
		case token.NEQ:
			return c08AV{K: c08Bool, B: a.I != b.I}
		case token.GTR:
			return c08AV{K: c08Bool, B: a.I > b.I}
		case token.LSS:
			return c08AV{K: c08Bool, B: a.I < b.I}
		case token.GEQ:
			return c08AV{K: c08Bool, B: a.I >= b.I}
		case token.LEQ:
			return c08AV{K: c08Bool, B: a.I <= b.I}
		}
		return c08AV{}
	}
	if a.K == c08Bool && b.K == c08Bool {
		switch op {
		case token.EQL:
			return c08AV{K: c08Bool, B: a.B == b.B}
		case token.NEQ:
			return c08AV{K: c08Bool, B: a.B != b.B}
		}
	}
	// two string constants (e.g. the "" a helper returns for a non-XML node compared against "")
	if a.K == c08ConstV && b.K == c08ConstV && strings.HasPrefix(a.S, "\"") && strings.HasPrefix(b.S, "\"") {
		switch op {
		case token.EQL:
			return c08AV{K: c08Bool, B: a.S == b.S}
		case token.NEQ:
			return c08AV{K: c08Bool, B: a.S != b.S}
		}
	}
	// node against nil
	nodeNil := func(n, z c08AV) (known, isNil bool) {
		if n.K == c08NodeV && z.K == c08NilPtr && m.nodes[n.N].nonNil {
			return true, false
		}
		if n.K == c08NilPtr && z.K == c08NilPtr {
			return true, true
		}
		return false, false
	}
	for _, pr := range [][2]c08AV{{a, b}, {b, a}} {
		if known, isNil := nodeNil(pr[0], pr[1]); known {
			switch op {
			case token.EQL:
				return c08AV{K: c08Bool, B: isNil}
			case token.NEQ:
				return c08AV{K: c08Bool, B: !isNil}
			}
		}
	}
	if a.K == c08NodeV && b.K == c08NodeV && a.N == b.N {
		switch op {
		case token.EQL:
			return c08AV{K: c08Bool, B: true}
		case token.NEQ:
			return c08AV{K: c08Bool, B: false}
		}
	}
	return c08AV{}
}

func (m *c08Machine) call(call *ssa.Call, val func(ssa.Value) c08AV, depth int) c08AV {
	if _, ok := call.Call.Value.(*ssa.Builtin); ok {
		return c08AV{}
	}
	if o := core.CalleeObj(call); o != nil && o.Pkg() != nil && o.Pkg().Path() == "strconv" && !call.Call.IsInvoke() {
		switch o.Name() {
		case "ParseFloat":
			if len(call.Call.Args) == 2 {
				a, bits := val(call.Call.Args[0]), val(call.Call.Args[1])
				if a.K == c08DataV && bits.K == c08Int {
					return c08AV{K: c08Tuple, T: []c08AV{{K: c08Parsed, S: "ParseFloat", N: a.N, Bits: int64(bits.I)}, {}}}
				}
			}
		case "ParseBool":
			if len(call.Call.Args) == 1 {
				if a := val(call.Call.Args[0]); a.K == c08DataV {
					return c08AV{K: c08Tuple, T: []c08AV{{K: c08Parsed, S: "ParseBool", N: a.N}, {}}}
				}
			}
		}
		return c08AV{K: c08Opaque, S: "result of " + c08CalleeName(call)}
	}
	cf := call.Call.StaticCallee()
	if cf == nil || cf.Blocks == nil || core.FuncPkg(cf) != m.r.idr {
		return c08AV{K: c08Opaque, S: "result of " + c08CalleeName(call)}
	}
	var args []c08AV
	for _, a := range call.Call.Args {
		args = append(args, val(a))
	}
	res, status := m.run(cf, args, depth+1)
	if status != "" && res.K != c08Opaque {
		return c08AV{K: c08Opaque, S: "result of " + c08FuncName(cf) + " (" + status + ")"}
	}
	return res
}

// c08Explore runs fn under every combination of undecidable branches; setup creates the machine and the arguments.
func c08Explore(setup func() (*c08Machine, []c08AV), fn *ssa.Function) (outs []c08AV, statuses []string) {
	work := [][]bool{{}}
	for runs := 0; len(work) > 0 && runs < 512; runs++ {
		prefix := work[len(work)-1]
		work = work[:len(work)-1]
		m, args := setup()
		m.choices = append([]bool{}, prefix...)
		m.pos = 0
		res, status := m.run(fn, args, 0)
		outs = append(outs, res)
		statuses = append(statuses, status)
		for i := len(prefix); i < len(m.choices); i++ {
			alt := append(append([]bool{}, m.choices[:i]...), true)
			work = append(work, alt)
		}
	}
	if len(work) > 0 {
		outs = append(outs, c08AV{K: c08Opaque, S: "too many paths"})
		statuses = append(statuses, "abort: too many paths")
	}
	return outs, statuses
}
