package rules

import (
	"fmt"
	"go/token"
	"go/types"
	"strings"

	"golang.org/x/tools/go/ssa"

	"omnilint/core"
)

// Rules added after independently seeded changes were missed by the first rule sets (DESIGN.md section 11).

// wrapRun appends extra rules to a rule set owned by another file (keeps the hook out of files that builders re-deliver).
func wrapRun(prop string, extra func(c *core.Ctx)) {
	rs := Registry[prop]
	if rs == nil {
		return
	}
	orig := rs.Run
	rs.Run = func(c *core.Ctx) {
		orig(c)
		extra(c)
	}
}

// instanceIsolation: what a reader delivers is a function of its own input only if the code on its path keeps no
// mutable state outside the instance. In the run-set functions of the given packages: no store rooted at a
// package-level variable, every package-level variable read has init-only writers, and aggregates held in
// package-level variables (maps, slices, pointers) are neither mutated nor aliased into instance state (= C14 R14b
// restricted to the packages the property is anchored in). Without this two instances alive at the same time —
// interleaved on one goroutine or concurrent — see each other's data.
func instanceIsolation(c *core.Ctx, rule string, floor int, pkgs ...string) {
	e := entries(c, rule)
	if e == nil {
		return
	}
	var fns []*ssa.Function
	for _, f := range repoFuncsIn(e.run) {
		p := core.FuncPkg(f)
		if p == nil {
			continue
		}
		rel := core.Rel(p.Path())
		ok := len(pkgs) == 0
		for _, want := range pkgs {
			if rel == want || strings.HasPrefix(rel, want+"/") {
				ok = true
			}
		}
		if ok {
			fns = append(fns, f)
		}
	}
	nW := 0
	for _, f := range fns {
		for _, w := range core.Writes(f) {
			nW++
			if w.Global != nil && core.InRepo(w.Global.Pkg.Pkg) {
				c.Bad(rule, core.FuncKey(f)+" writes global "+w.Global.Name(), w.Pos, "function on the reader's path stores to memory rooted at package-level variable "+w.Global.Name()+": state shared by every instance in the process")
			}
		}
	}
	c.OK(rule, "store inventory", 0, fmt.Sprintf("%d stores in %d run-set functions of %v inspected: none rooted at a package-level variable unless reported", nW, len(fns), pkgs))
	// the one sanctioned kind of shared state, sync.Pool: an object handed back must not stay referenced
	poolTypestateMatch(c, rule, func(p *types.Package) bool {
		rel := core.Rel(p.Path())
		for _, want := range pkgs {
			if rel == want || strings.HasPrefix(rel, want+"/") {
				return true
			}
		}
		return len(pkgs) == 0
	})
	c14GlobalsN(c, e, fns, rule, floor)
}

func init() {
	wrapRun("C04", func(c *core.Ctx) {
		if c.CountRule("R04j") == 0 {
			instanceIsolation(c, "R04j", 3, "idr", "extensions/omniv21/fileformat/xml", "extensions/omniv21/fileformat/json")
		}
	})
	wrapRun("C05", func(c *core.Ctx) {
		if c.CountRule("R05h") == 0 {
			staleElemPointers(c, "R05h", "extensions/omniv21/fileformat/flatfile", "extensions/omniv21/fileformat/edi")
			c.Floor("R05h", 8, "stack-top pointers of the two matchers")
		}
		if c.CountRule("R05g") == 0 {
			instanceIsolation(c, "R05g", 3, "extensions/omniv21/fileformat/flatfile", "extensions/omniv21/fileformat/edi")
		}
	})
	wrapRun("C06", func(c *core.Ctx) {
		// R06j: a line that still aliases bufio's buffer when the buffer is refilled is overwritten with later input (the
		// bug behind upstream issue 213) = C09 R09a, the borrowed-buffer discipline
		if c.CountRule("R06j") == 0 {
			importRules(c, "C09", map[string]string{"R09a": "R06j", "R09i": "R06j", "R09j": "R06j"})
			c.Floor("R06j", 3, "borrow stores of the csv2/fixedlength2 readers")
		}
		if c.CountRule("R06i") == 0 {
			instanceIsolation(c, "R06i", 1, "extensions/omniv21/fileformat/flatfile", "extensions/omniv21/fileformat/csv", "extensions/omniv21/fileformat/fixedlength")
		}
	})
	wrapRun("C07", func(c *core.Ctx) {
		if c.CountRule("R07g") == 0 {
			instanceIsolation(c, "R07g", 3, "extensions/omniv21/fileformat/edi")
		}
	})
	wrapRun("C08", func(c *core.Ctx) {
		if c.CountRule("R08g") == 0 {
			instanceIsolation(c, "R08g", 3, "idr", "extensions/omniv21/customfuncs")
		}
	})
	wrapRun("C11", func(c *core.Ctx) {
		if c.CountRule("R11e") == 0 {
			c11QueryWrappers(c)
			c.Floor("R11e", 1, "append in MatchAll")
			c.Floor("R11f", 3, "loadXPathExpr (2) + stream-reader constructors")
		}
	})
	wrapRun("C16", func(c *core.Ctx) {
		// R16f: the hierarchical readers (csv2, fixedlength2, edi) return nothing but NIL, io.EOF and their own fatal type
		// from Read (= C05 R05c): a plain error manufactured at the top of Read from a wrapped input failure would be
		// continuable and re-occur on every call
		if c.CountRule("R16f") == 0 {
			importRules(c, "C05", map[string]string{"R05c": "R16f"})
			c.Floor("R16f", 3, "csv2, fixedlength2, edi")
		}
	})
	wrapRun("C03", func(c *core.Ctx) {
		if c.CountRule("K12") == 0 {
			// an unsynchronised package-level map/slice mutated on the Read path makes two transforms running side by side
			// die with the runtime's unrecoverable "concurrent map writes"
			instanceIsolation(c, "K12", 10)
		}
		if c.CountRule("K14") == 0 {
			// a write through a stale stack-entry pointer is lost: the real entry keeps a nil node, the next AddChild panics
			staleElemPointers(c, "K14")
			c.Floor("K14", 8, "element pointers into grown slice-of-struct fields")
		}
		if c.CountRule("K13") == 0 {
			// the one subtractive slice bound on the tokenizer path, token[:len(token)-len(delim)], is in range only while the
			// scanner returns delimiter-terminated tokens (= C07 R07a, which checks the flags against the strip)
			importRules(c, "C07", map[string]string{"R07a": "K13"})
			c.Floor("K13", 5, "segment delimiter strip and its scanner configuration")
		}
		if c.CountRule("K10") == 0 {
			c03NoReadRecursion(c)
			c.Floor("K10", 8, "Read methods of the readers, the ingester and the transform")
		}
		if c.CountRule("K11") == 0 {
			c03NoStationaryLoop(c)
			c.Floor("K11", 10, "loops whose exit condition is carried in registers")
		}
	})
	control(Control{ID: "c05-stale-stack-pointer", Prop: "C05", File: "extensions/omniv21/fileformat/flatfile/hierarchyReader.go",
		Old:  "\tcur = r.shrinkStack()\n\tif cur.curChild < len(cur.recDecl.ChildDecls())-1 {\n\t\tcur.curChild++\n\t\tr.growStack(stackEntry{recDecl: cur.recDecl.ChildDecls()[cur.curChild]})\n",
		New:  "\tcur = r.shrinkStack()\n\tif cur.curChild < len(cur.recDecl.ChildDecls())-1 {\n\t\tr.growStack(stackEntry{recDecl: cur.recDecl.ChildDecls()[cur.curChild+1]})\n\t\tcur.curChild++\n",
		Rule: "R05h", Substr: "HierarchyReader).recNext", Why: "the parent's child cursor is advanced through a pointer taken before the stack grew"})
	control(Control{ID: "c13-pooled-buffer-kept", Prop: "C13", File: "extensions/omniv21/fileformat/edi/reader2.go",
		Old: "\t\"unicode/utf8\"\n\n\t\"github.com/jf-tech/go-corelib/ios\"\n\t\"github.com/jf-tech/go-corelib/strs\"\n)\n",
		New: "\t\"sync\"\n\t\"unicode/utf8\"\n\n\t\"github.com/jf-tech/go-corelib/ios\"\n\t\"github.com/jf-tech/go-corelib/strs\"\n)\n\nvar scanBufPool sync.Pool\n\nfunc (r *NonValidatingReader) recycleBuf() {\n\tscanBufPool.Put(r.rawSeg.Elems)\n}\n",
		Rule: "R13d", Substr: "recycleBuf", Why: "an object is handed to a pool while the reader keeps referencing it"})
	control(Control{ID: "c04-remark-open-candidate", Prop: "C04", File: "idr/jsonreader.go",
		Old:  "\tif sp.xpathExpr != nil && sp.stream == nil && MatchAny(sp.root, sp.xpathExpr) {\n\t\tsp.stream = sp.cur\n\t}\n}\n\n// wrapUpCurAndTargetCheck wraps sp.cur node processing and also checks if the sp.cur is the stream\n// candidate and if it is, then does a final check: a stream candidate is the target if:\n// - If it has finished processing (sp.cur == sp.stream)\n// - Either we don't have a stream filter xpath or the stream filter xpath matches.\nfunc (sp *JSONStreamReader)",
		New:  "\tif sp.xpathExpr != nil && MatchAny(sp.root, sp.xpathExpr) {\n\t\tsp.stream = sp.cur\n\t}\n}\n\n// wrapUpCurAndTargetCheck wraps sp.cur node processing and also checks if the sp.cur is the stream\n// candidate and if it is, then does a final check: a stream candidate is the target if:\n// - If it has finished processing (sp.cur == sp.stream)\n// - Either we don't have a stream filter xpath or the stream filter xpath matches.\nfunc (sp *JSONStreamReader)",
		Rule: "R04f", Substr: "JSONStreamReader", Why: "a nested node on the target path replaces the open outer candidate"})
	control(Control{ID: "c09-single-read-bom", Prop: "C09", File: "schema.go",
		Old:  "\tbr, err := ios.StripBOM(s.header.ParserSettings.WrapEncoding(input))\n\tif err != nil {\n\t\treturn nil, err\n\t}\n",
		New:  "\tbr, err := ios.StripBOM(s.header.ParserSettings.WrapEncoding(input))\n\tif err != nil {\n\t\treturn nil, err\n\t}\n\tvar probe [1]byte\n\tif n, _ := input.Read(probe[:0]); n > 0 {\n\t\treturn nil, err\n\t}\n",
		Rule: "R09c", Substr: "NewTransform", Why: "a single raw Read whose byte count is trusted"})
	control(Control{ID: "c09-handwritten-reader", Prop: "C09", File: "extensions/omniv21/fileformat/edi/reader2.go",
		Old: "func (r *NonValidatingReader) Read() (RawSeg, error) {\n", New: "type crlfDropper struct{ r io.Reader }\n\nfunc (d crlfDropper) Read(p []byte) (int, error) {\n\tn, err := d.r.Read(p)\n\tk := 0\n\tfor i := 0; i < n; i++ {\n\t\tif p[i] != '\\r' && p[i] != '\\n' {\n\t\t\tp[k] = p[i]\n\t\t\tk++\n\t\t}\n\t}\n\treturn k, err\n}\n\nfunc (r *NonValidatingReader) Read() (RawSeg, error) {\n",
		Rule: "R09d", Substr: "crlfDropper", Why: "hand-written byte filter may return (0, nil)"})
	control(Control{ID: "c16-unexpected-eof-as-eof", Prop: "C16", File: "extensions/omniv21/fileformat/json/reader.go",
		Old: "\tif err == io.EOF {", New: "\tif err == io.EOF || err == io.ErrUnexpectedEOF {",
		Rule: "R16e", Substr: "json.reader).Read", Why: "a truncated source (gzip/http short body) ends the transform with a clean EOF"})
	control(Control{ID: "c03-dynamic-xpath-fresh-stack", Prop: "C03", File: "extensions/omniv21/transform/validate.go",
		Old: "\t\t\tstrs.BuildFQDN(fqdn, \"xpath_dynamic\"), decl.XPathDynamic, templateRefStack)", New: "\t\t\tstrs.BuildFQDN(fqdn, \"xpath_dynamic\"), decl.XPathDynamic, nil)",
		Rule: "K7", Substr: "validateXPath", Why: "template cycle through xpath_dynamic is not detected: NewSchema never returns"})
	control(Control{ID: "c03-loop-ignores-source-error", Prop: "C03", File: "extensions/omniv21/fileformat/fixedlength/reader.go",
		Old: "\t\tswitch err {\n\t\tcase nil:\n\t\t\tr.line++\n\t\tdefault:\n\t\t\treturn nil, err\n\t\t}", New: "\t\tswitch err {\n\t\tcase nil:\n\t\t\tr.line++\n\t\tcase io.EOF:\n\t\t\treturn nil, err\n\t\t}",
		Rule: "K9", Substr: "readLine", Why: "a persistent read error keeps the line loop spinning"})
	control(Control{ID: "c03-read-recurses", Prop: "C03", File: "extensions/omniv21/fileformat/csv/reader.go",
		Old: "\t\tgoto read\n", New: "\t\tif r.xpath == nil {\n\t\t\tgoto read\n\t\t}\n\t\treturn r.Read()\n", Rule: "K10", Substr: "csv.reader).Read", Why: "one stack frame per filtered-out record"})
	control(Control{ID: "c03-stationary-loop", Prop: "C03", File: "idr/navigator.go",
		Old: "\tfor ; n != nil && n.Type == AttributeNode; n = n.NextSibling {", New: "\tfor ; n != nil && n.Type == AttributeNode; n = n {",
		Rule: "K11", Substr: "MoveToChild", Why: "loop variable never advances"})
	control(Control{ID: "c05-matcher-reads-io-state", Prop: "C05", File: "extensions/omniv21/fileformat/flatfile/hierarchyReader.go",
		Old: "\tcur = r.shrinkStack()\n\tif cur.curChild < len(cur.recDecl.ChildDecls())-1 {", New: "\tcur = r.shrinkStack()\n\tif r.target == nil && r.r != nil && cur.curChild < len(cur.recDecl.ChildDecls())-1 {",
		Rule: "R05f", Substr: "recNext", Why: "sibling advance depends on reader state outside the declaration stack"})
	control(Control{ID: "c11-matchall-dedups", Prop: "C11", File: "idr/query.go",
		Old: "\tfor iter.MoveNext() {\n\t\tret = append(ret, nodeFromIter(iter))\n\t}", New: "\tfor iter.MoveNext() {\n\t\tif n := nodeFromIter(iter); len(ret) == 0 || ret[len(ret)-1] != n {\n\t\t\tret = append(ret, n)\n\t\t}\n\t}",
		Rule: "R11e", Substr: "MatchAll", Why: "parent/ancestor steps legitimately yield a node once per input node"})
	control(Control{ID: "c11-expr-normalised", Prop: "C11", File: "idr/query.go",
		Old: "\t\texpr, err = caches.GetXPathExpr(exprStr)", New: "\t\texpr, err = caches.GetXPathExpr(fmt.Sprintf(\"%s\", exprStr))",
		Rule: "R11f", Substr: "loadXPathExpr", Why: "whitespace inside string literals of predicates is rewritten"})
	control(Control{ID: "c09-own-split-func", Prop: "C09", File: "extensions/omniv21/fileformat/edi/reader2.go",
		Old: "func (r *NonValidatingReader) Read() (RawSeg, error) {\n", New: "func (r *NonValidatingReader) resplit() {\n\tr.scanner.Split(bufio.ScanLines)\n}\n\nfunc (r *NonValidatingReader) Read() (RawSeg, error) {\n",
		Rule: "R09f", Substr: "resplit", Why: "hand-installed split function"})
	control(Control{ID: "c14-shared-digest", Prop: "C14", File: "customfuncs/customFuncs.go",
		Old:  "func UUIDv3(_ *transformctx.Ctx, s string) (string, error) {\n\treturn uuid.NewMD5(uuid.Nil, []byte(s)).String(), nil",
		New:  "var uuidv3Hash = md5.New()\n\nfunc UUIDv3(_ *transformctx.Ctx, s string) (string, error) {\n\treturn uuid.NewHash(uuidv3Hash, uuid.Nil, []byte(s), 3).String(), nil",
		Old2: "import (\n\t\"strings\"\n", New2: "import (\n\t\"crypto/md5\"\n\t\"strings\"\n",
		Rule: "R14b", Substr: "uuidv3Hash", Why: "one digest object shared by every checksum computation"})
	control(Control{ID: "c15-local-zone-format", Prop: "C15", File: "customfuncs/datetime.go",
		Old: "\treturn rfc3339(t.In(loc), true), nil", New: "\tif len(tz) == 1 {\n\t\tt = t.In(loc)\n\t}\n\treturn rfc3339(t, true), nil",
		Rule: "R15i", Substr: "Time.Format", Why: "without a tz argument the epoch is formatted in the process's local zone"})
	control(Control{ID: "c15-memo-on-shared-decl", Prop: "C15", File: "extensions/omniv21/transform/parse.go",
		Old: "\tif v, found := p.transformCtx.External(*decl.External); found {", New: "\tif v, found := p.transformCtx.External(*decl.External); found {\n\t\tdecl.fqdn = decl.fqdn + \"\"",
		Rule: "R15h", Substr: "parseExternal", Why: "value memoised into a declaration shared by every transform of the schema"})
	control(Control{ID: "c15-cache-key-digest", Prop: "C15", File: "extensions/omniv21/customfuncs/javascript.go",
		Old: "\tp, err := JSProgramCache.Get(js, func(interface{}) (interface{}, error) {", New: "\tp, err := JSProgramCache.Get(len(js), func(interface{}) (interface{}, error) {",
		Rule: "R15j", Substr: "getProgram", Why: "program cache keyed by a non-injective digest of the script"})
	control(Control{ID: "c10-memo-on-shared-decl", Prop: "C10", File: "extensions/omniv21/transform/parse.go",
		Old: "\tif v, found := p.transformCtx.External(*decl.External); found {", New: "\tif v, found := p.transformCtx.External(*decl.External); found {\n\t\tdecl.fqdn = decl.fqdn + \"\"",
		Rule: "R10i", Substr: "parseExternal", Why: "value memoised into the shared declarations while records are read"})
	control(Control{ID: "c15-vm-dirty-after-error", Prop: "C15", File: "extensions/omniv21/customfuncs/javascript.go",
		Old: "\t\t\tfor arg := range args {\n\t\t\t\t_ = vm.GlobalObject().Delete(arg)\n\t\t\t}", New: "\t\t\t_ = vm.GlobalObject().Delete(argNameNode)",
		Rule: "R15g", Substr: "execProgram", Why: "script arguments of an earlier transform stay visible in the pooled VM"})
}

// ---------------------------------------------------------------- generic sync.Pool typestate

// poolTypestate: for every (*sync.Pool).Put in library code, the object handed to the pool must not stay referenced:
// if it is loaded from a struct field (a holder), that field is overwritten on every path before it is read again or
// the function returns; if it is a local value, it is not used after the Put. Pools already covered by dedicated rules
// (the node pool by R12d, the VM pool by R20a) are included — the rule is the same.
func poolTypestate(c *core.Ctx, rule string) { poolTypestateIn(c, rule, "") }

func poolTypestateIn(c *core.Ctx, rule, pkgSuffix string) {
	n := poolTypestateMatch(c, rule, func(p *types.Package) bool {
		return pkgSuffix == "" || strings.HasSuffix(p.Path(), pkgSuffix)
	})
	if n == 0 {
		c.Unresolved(rule, "sync.Pool.Put sites", "none found in library code")
	}
}

func poolTypestateMatch(c *core.Ctx, rule string, match func(p *types.Package) bool) int {
	n := 0
	for _, f := range c.RepoFunctions() {
		if core.IsCLIOrSample(core.FuncPkg(f)) || !match(core.FuncPkg(f)) {
			continue
		}
		for _, ci := range core.Calls(f) {
			putArg, isPut := poolPutArg(ci)
			if !isPut {
				continue
			}
			// a one-hop wrapper's own Put of its parameter is judged at the wrapper's call sites
			if isPoolCall(ci, "Put") {
				if p, isParam := core.Unwrap(putArg, true).(*ssa.Parameter); isParam && p.Parent() == f && len(f.Blocks) <= 2 {
					continue
				}
			}
			if _, isDefer := ci.(*ssa.Defer); isDefer {
				n++
				c.OK(rule, core.FuncKey(f)+" pool Put typestate", core.InstrPos(ci), "deferred Put: runs at function exit")
				continue
			}
			n++
			key := core.FuncKey(f) + " pool Put typestate"
			arg := core.Unwrap(putArg, true)
			// strip slice/convert wrappers
			for {
				if s, ok := arg.(*ssa.Slice); ok {
					arg = s.X
					continue
				}
				break
			}
			if u, ok := arg.(*ssa.UnOp); ok && u.Op == token.MUL {
				if fa, ok := u.X.(*ssa.FieldAddr); ok {
					// holder: must be overwritten on all paths after the Put
					bad, why := token.NoPos, ""
					var dfs func(b *ssa.BasicBlock, start int, seen map[*ssa.BasicBlock]bool)
					dfs = func(b *ssa.BasicBlock, start int, seen map[*ssa.BasicBlock]bool) {
						for i := start; i < len(b.Instrs); i++ {
							switch x := b.Instrs[i].(type) {
							case *ssa.Store:
								if core.SameValue(x.Addr, fa) {
									return
								}
							case *ssa.UnOp:
								if x.Op == token.MUL && core.SameValue(x.X, fa) && !bad.IsValid() {
									bad, why = core.InstrPos(x), "the field is read again after its object was handed to the pool"
									return
								}
							case *ssa.Return:
								if !bad.IsValid() {
									bad, why = core.InstrPos(x), "the function returns while field "+core.FieldOfAddr(fa).Name()+" still references the object that was handed to the pool"
								}
								return
							}
						}
						for _, s := range b.Succs {
							if !seen[s] {
								seen[s] = true
								dfs(s, 0, seen)
							}
						}
					}
					dfs(ci.Block(), core.InstrIndex(ci)+1, map[*ssa.BasicBlock]bool{})
					c.Check(!bad.IsValid(), rule, key, core.InstrPos(ci), "the holder field is overwritten on every path after the Put", why+": a later Get (possibly on another goroutine) shares it with this owner")
					continue
				}
			}
			// local value (or captured cell): no use after Put in this function
			used := token.NoPos
			vDef, _ := arg.(ssa.Instruction)
			core.WalkAfter(ci, func(in ssa.Instruction) bool {
				if vDef != nil && in == vDef {
					return false
				}
				for _, op := range in.Operands(nil) {
					if *op == arg {
						if _, dbg := in.(*ssa.DebugRef); !dbg && !used.IsValid() {
							used = core.InstrPos(in)
						}
					}
				}
				return true
			})
			c.Check(!used.IsValid(), rule, key, core.InstrPos(ci), "the pooled value is not used after the Put", "the value is used after it was handed to the pool")
		}
	}
	return n
}

// ---------------------------------------------------------------- R09c / R09d

func c09RawReads(c *core.Ctx) {
	ioPkg := c.AnyPkg("io")
	if ioPkg == nil {
		c.Unresolved("R09c", "package io", "not loaded")
		return
	}
	readerI := lookupIface(ioPkg.Types, "Reader")
	// R09c: direct calls of io.Reader.Read in library code
	n := 0
	for _, f := range c.RepoFunctions() {
		if core.IsCLIOrSample(core.FuncPkg(f)) {
			continue
		}
		for _, ci := range core.Calls(f) {
			cc := ci.Common()
			isRead := false
			if cc.IsInvoke() && cc.Method.Name() == "Read" {
				if it, ok := cc.Value.Type().Underlying().(*types.Interface); ok && types.Implements(it, readerI) {
					isRead = true
				}
			} else if o := core.CalleeObj(ci); o != nil && o.Name() == "Read" {
				sig := o.Type().(*types.Signature)
				if sig.Recv() != nil && sig.Params().Len() == 1 && sig.Results().Len() == 2 {
					if sl, ok := sig.Params().At(0).Type().Underlying().(*types.Slice); ok {
						if b, ok := sl.Elem().Underlying().(*types.Basic); ok && b.Kind() == types.Byte && isInt(sig.Results().At(0).Type()) {
							isRead = true
						}
					}
				}
			}
			if !isRead {
				continue
			}
			n++
			c.Bad("R09c", core.FuncKey(f)+" calls Read directly", core.InstrPos(ci), "library code calls io.Reader.Read directly: a single Read may return fewer bytes than asked for (or data together with io.EOF), so the result depends on how the caller's reader chunks its data; use io.ReadFull/bufio or the go-corelib readers")
		}
	}
	c.OK("R09c", "no raw Read in library code", 0, fmt.Sprintf("%d direct io.Reader.Read call(s) in library code (chunk handling is delegated to bufio, encoding/* and go-corelib readers)", n))
	// R09d: hand-written io.Reader implementations
	m := 0
	for _, p := range c.Pkgs {
		if core.IsCLIOrSample(p.Types) {
			continue
		}
		for _, t := range implementersIn(p.Types, readerI) {
			m++
			nt := core.NamedOf(t)
			c.Unknown("R09d", "type "+core.Rel(nt.Obj().Pkg().Path())+"."+nt.Obj().Name()+" implements io.Reader", nt.Obj().Pos(), "a hand-written byte reader sits in the input path: its behaviour at chunk boundaries (short reads, zero-byte reads, data with io.EOF) cannot be shown by this analysis")
		}
	}
	c.OK("R09d", "no hand-written io.Reader in library code", 0, fmt.Sprintf("%d implementation(s)", m))
	// R09f: hand-written bufio.SplitFunc / Scanner.Split in library code (tokenisation across refills is delegated to the
	// go-corelib scanners; a stateful split function can lose context at a chunk boundary)
	k := 0
	for _, f := range c.RepoFunctions() {
		if core.IsCLIOrSample(core.FuncPkg(f)) {
			continue
		}
		for _, ci := range core.Calls(f) {
			if o := core.CalleeObj(ci); o != nil && o.Pkg() != nil && o.Pkg().Path() == "bufio" && core.FuncName(o) == "Scanner.Split" {
				k++
				c.Unknown("R09f", core.FuncKey(f)+" installs a split function", core.InstrPos(ci), "library code installs its own bufio split function: whether it keeps the right context when a token straddles a buffer refill cannot be shown by this analysis")
			}
		}
	}
	c.OK("R09f", "no hand-written split function in library code", 0, fmt.Sprintf("%d call(s) of bufio.Scanner.Split", k))
}

// ---------------------------------------------------------------- R16e

// c16NoBenignSentinels: in the format readers and stream readers, an error value obtained from a call is compared with
// a package-level error variable other than io.EOF, and the true edge of that comparison reaches a return whose error is
// io.EOF or nil: a specific input failure (io.ErrUnexpectedEOF, ...) is reported as a clean end of input.
func c16NoBenignSentinels(c *core.Ctx) {
	n := 0
	for _, f := range c.RepoFunctions() {
		p := core.FuncPkg(f)
		if core.IsCLIOrSample(p) || !(strings.Contains(p.Path(), "/fileformat/") || strings.HasSuffix(p.Path(), "/idr")) {
			continue
		}
		for _, b := range f.Blocks {
			ifi, ok := b.Instrs[len(b.Instrs)-1].(*ssa.If)
			if !ok {
				continue
			}
			// collect sentinel comparisons feeding the condition (directly or through || phis)
			var cmps []*ssa.BinOp
			var collect func(v ssa.Value, d int)
			collect = func(v ssa.Value, d int) {
				if d > 4 {
					return
				}
				switch x := v.(type) {
				case *ssa.BinOp:
					if x.Op == token.EQL {
						cmps = append(cmps, x)
					}
				case *ssa.Phi:
					for _, e := range x.Edges {
						collect(e, d+1)
					}
				}
			}
			collect(ifi.Cond, 0)
			// also comparisons in predecessor blocks of a short-circuit chain that jump to the same true successor
			for _, bo := range cmps {
				sent := sentinelOf(bo)
				if sent == nil {
					continue
				}
				n++
				key := core.FuncKey(f) + " treats " + sent.Name() + " specially"
				// true successor returns EOF / nil error?
				ts := b.Succs[0]
				benign := false
				for _, tb := range f.Blocks {
					if !(tb == ts || ts.Dominates(tb)) {
						continue
					}
					if rt, ok := tb.Instrs[len(tb.Instrs)-1].(*ssa.Return); ok && len(rt.Results) > 0 {
						last := rt.Results[len(rt.Results)-1]
						if isErrorT(last.Type()) && (core.IsNilConst(last) || isEOFLoad(last)) {
							benign = true
						}
					}
				}
				c.Check(!benign, "R16e", key, core.InstrPos(bo), "the sentinel's branch does not end in io.EOF / nil",
					"an input error equal to "+sent.Pkg.Pkg.Name()+"."+sent.Name()+" is answered with io.EOF or nil: a failing (truncated) source ends the transform like a clean end of input")
			}
		}
	}
	c.OK("R16e", "sentinel comparisons in readers", 0, fmt.Sprintf("%d comparison(s) of an error with a non-EOF package-level sentinel in reader packages", n))
}

func isEOFLoad(v ssa.Value) bool {
	u, ok := v.(*ssa.UnOp)
	if !ok || u.Op != token.MUL {
		return false
	}
	g, ok := u.X.(*ssa.Global)
	return ok && g.Pkg.Pkg.Path() == "io" && g.Name() == "EOF"
}

// sentinelOf: bo compares an error value with a load of a package-level error variable other than io.EOF.
func sentinelOf(bo *ssa.BinOp) *ssa.Global {
	for _, pr := range [][2]ssa.Value{{bo.X, bo.Y}, {bo.Y, bo.X}} {
		if !isErrorT(pr[0].Type()) {
			continue
		}
		u, ok := pr[1].(*ssa.UnOp)
		if !ok || u.Op != token.MUL {
			continue
		}
		g, ok := u.X.(*ssa.Global)
		if !ok || (g.Pkg.Pkg.Path() == "io" && g.Name() == "EOF") {
			continue
		}
		// the compared value must come from a call (an obtained error), not be another sentinel
		switch pr[0].(type) {
		case *ssa.Extract, *ssa.Call, *ssa.Phi, *ssa.Parameter:
			return g
		}
	}
	return nil
}

// ---------------------------------------------------------------- K7 (C03): the template reference stack is threaded

// c03StackThreaded: every call of the recursive validator passes a reference stack that derives from the caller's own
// stack parameter (the parameter itself or a copy extended by append) — never nil or a fresh slice, which would restart
// cycle detection below that point.
func c03StackThreaded(c *core.Ctx) {
	r := c13Resolve(c, "K7")
	if r == nil {
		return
	}
	// the recursive validator: the function storing the hash field, with a []string parameter
	var validator *ssa.Function
	for _, f := range c.RepoFunctions() {
		if core.FuncPkg(f) != r.tp {
			continue
		}
		srcs := map[*types.Var]bool{}
		keySources(r.lookup.Index, r.parseNode, map[ssa.Value]bool{}, srcs)
		for _, w := range core.Writes(f) {
			if w.Kind == "field" && w.Field != nil && !w.Field.Exported() && srcs[w.Field] && isString(w.Field.Type()) {
				validator = f
			}
		}
	}
	if validator == nil {
		c.Unresolved("K7", "recursive validator", "function assigning the declaration hash not found")
		return
	}
	stackIdx := -1
	for i, p := range validator.Params {
		if sl, ok := p.Type().Underlying().(*types.Slice); ok && isString(sl.Elem()) {
			stackIdx = i
		}
	}
	if stackIdx < 0 {
		c.Unresolved("K7", "reference stack parameter", "the validator has no []string parameter")
		return
	}
	n := 0
	for _, f := range c.RepoFunctions() {
		if core.FuncPkg(f) != r.tp {
			continue
		}
		// f's own stack parameter (if any)
		var own *ssa.Parameter
		for _, p := range f.Params {
			if sl, ok := p.Type().Underlying().(*types.Slice); ok && isString(sl.Elem()) {
				own = p
			}
		}
		for _, ci := range core.Calls(f) {
			if ci.Common().StaticCallee() != validator {
				continue
			}
			n++
			key := core.FuncKey(f) + " passes reference stack"
			arg := ci.Common().Args[stackIdx]
			switch {
			case own != nil && derivesFromParam(arg, own, 0):
				c.OK("K7", key, core.InstrPos(ci), "the stack derives from the caller's own stack parameter")
			case own == nil && isFreshStringSlice(arg):
				c.OK("K7", key, core.InstrPos(ci), "root call: the stack starts with the root declaration's name")
			default:
				c.Bad("K7", key, core.InstrPos(ci), "the recursive validator is called with a reference stack that does not derive from the caller's stack: a template cycle through this edge is not detected and NewSchema recurses until the stack overflows")
			}
		}
	}
	if n == 0 {
		c.Unresolved("K7", "validator call sites", "none found")
	}
}

func derivesFromParam(v ssa.Value, p *ssa.Parameter, d int) bool {
	if v == ssa.Value(p) {
		return true
	}
	if d > 6 {
		return false
	}
	switch x := v.(type) {
	case *ssa.Call:
		// append(copy(param), name) / strs.CopySlice(param)
		for _, a := range x.Call.Args {
			if derivesFromParam(a, p, d+1) {
				return true
			}
		}
	case *ssa.Slice:
		return derivesFromParam(x.X, p, d+1)
	case *ssa.Phi:
		for _, e := range x.Edges {
			if !derivesFromParam(e, p, d+1) {
				return false
			}
		}
		return len(x.Edges) > 0
	case *ssa.UnOp:
		if x.Op == token.MUL {
			if a, ok := x.X.(*ssa.Alloc); ok {
				sts := storesToCell(a)
				if len(sts) == 0 {
					return false
				}
				for _, st := range sts {
					if !derivesFromParam(st.Val, p, d+1) {
						return false
					}
				}
				return true
			}
		}
	}
	return false
}

func isFreshStringSlice(v ssa.Value) bool {
	s, ok := v.(*ssa.Slice)
	if !ok {
		return false
	}
	_, isAlloc := s.X.(*ssa.Alloc)
	return isAlloc
}

// c07NoSharedBuffers (R07d): the tokenizer's buffers are exclusively owned by one reader: every object a function of the
// EDI package hands to a sync.Pool is no longer referenced by the reader afterwards (generic pool typestate restricted to
// the package). With no pool in the package the rule is vacuous and says so.
func c07NoSharedBuffers(c *core.Ctx) {
	n := 0
	for _, f := range c.RepoFunctions() {
		if !strings.HasSuffix(core.FuncPkg(f).Path(), "/fileformat/edi") {
			continue
		}
		for _, ci := range core.Calls(f) {
			if _, isPut := poolPutArg(ci); isPut || poolGetCall(ci) {
				n++
			}
		}
	}
	if n == 0 {
		c.OK("R07d", "EDI tokenizer buffers are not pooled", 0, "no sync.Pool use in the EDI package: each reader allocates and owns its scanner buffer")
		return
	}
	poolTypestateIn(c, "R07d", "/fileformat/edi")
}

// ---------------------------------------------------------------- K9 (C03): loops around a failing source terminate

// c03LoopsExitOnError: in the reader packages, a call of a non-repository function that returns an error and sits on a
// CFG cycle (a loop that re-invokes it) must not be re-invoked while its error is non-nil: every cycle path from the call
// back to itself passes the nil edge of a test of that error. Otherwise a source that fails persistently without
// consuming input (e.g. encoding/csv rejecting its delimiter) keeps the loop spinning: Read never returns.
func c03LoopsExitOnError(c *core.Ctx) {
	n := 0
	for _, f := range c.RepoFunctions() {
		p := core.FuncPkg(f)
		if core.IsCLIOrSample(p) || !(strings.Contains(p.Path(), "/fileformat/") || strings.HasSuffix(p.Path(), "/idr")) {
			continue
		}
		for _, ci := range core.Calls(f) {
			call, ok := ci.(*ssa.Call)
			if !ok {
				continue
			}
			o := core.CalleeObj(ci)
			if o == nil || o.Pkg() == nil || core.InRepo(o.Pkg()) {
				continue
			}
			switch o.Pkg().Path() {
			case "encoding/csv", "encoding/json", "encoding/xml", "bufio", "io", "github.com/jf-tech/go-corelib/ios":
			default:
				continue // not an input-consuming source
			}
			sig := o.Type().(*types.Signature)
			if sig.Results().Len() == 0 || !isErrorT(sig.Results().At(sig.Results().Len()-1).Type()) {
				continue
			}
			// on a cycle?
			src := call.Block()
			if !blockOnCycle(src) {
				continue
			}
			// the error value
			var errV ssa.Value
			if sig.Results().Len() == 1 {
				errV = call
			} else {
				for _, u := range core.Referrers(call) {
					if ex, ok := u.(*ssa.Extract); ok && ex.Index == sig.Results().Len()-1 {
						errV = ex
					}
				}
			}
			n++
			key := core.FuncKey(f) + " loop around " + core.Rel(o.Pkg().Path()) + "." + core.FuncName(o)
			if errV == nil {
				c.Bad("K9", key, core.InstrPos(call), "the error of a source call inside a loop is discarded: a persistently failing source keeps the loop spinning")
				continue
			}
			// DFS over cycle paths from src back to src, never taking a nil edge of errV
			seen := map[*ssa.BasicBlock]bool{}
			spin := false
			var dfs func(b *ssa.BasicBlock)
			dfs = func(b *ssa.BasicBlock) {
				if spin {
					return
				}
				var skip *ssa.BasicBlock
				if ifi, ok := b.Instrs[len(b.Instrs)-1].(*ssa.If); ok {
					if bo, ok := ifi.Cond.(*ssa.BinOp); ok && (bo.Op == token.EQL || bo.Op == token.NEQ) {
						isE := (bo.X == errV && core.IsNilConst(bo.Y)) || (bo.Y == errV && core.IsNilConst(bo.X))
						if isE && bo.Op == token.EQL {
							skip = b.Succs[0]
						}
						if isE && bo.Op == token.NEQ {
							skip = b.Succs[1]
						}
					}
				}
				for _, s := range b.Succs {
					if skip != nil && s == skip && b.Succs[0] != b.Succs[1] {
						continue
					}
					if s == src {
						spin = true
						return
					}
					if !seen[s] {
						seen[s] = true
						dfs(s)
					}
				}
			}
			dfs(src)
			c.Check(!spin, "K9", key, core.InstrPos(call), "the loop re-invokes the source only on the nil-error edge",
				"the loop can re-invoke the source while its error is non-nil (only io.EOF, or nothing, ends it): a source that keeps failing without consuming input makes Read spin forever")
		}
	}
	if n == 0 {
		c.Unresolved("K9", "source calls in loops", "none found")
	}
}

func blockOnCycle(b *ssa.BasicBlock) bool {
	seen := map[*ssa.BasicBlock]bool{}
	var walk func(x *ssa.BasicBlock) bool
	walk = func(x *ssa.BasicBlock) bool {
		for _, s := range x.Succs {
			if s == b {
				return true
			}
			if !seen[s] {
				seen[s] = true
				if walk(s) {
					return true
				}
			}
		}
		return false
	}
	return walk(b)
}

// ---------------------------------------------------------------- K10 / K11 (C03): no input-proportional recursion, no
// stationary loop (added after seeds C03-4, C03-6)

// c03NoReadRecursion (K10): a Read method of a format reader / stream reader must not (statically, within the
// repository) reach itself: skipping a unit by calling Read again adds a stack frame per skipped unit, so a long run of
// filtered-out records overflows the stack (Go has no tail calls). Recursion bounded by the schema (declaration depth)
// lives in other functions and is not touched by this rule.
func c03NoReadRecursion(c *core.Ctx) {
	n := 0
	for _, f := range c.RepoFunctions() {
		p := core.FuncPkg(f)
		if core.IsCLIOrSample(p) || f.Signature.Recv() == nil || f.Name() != "Read" || f.Parent() != nil {
			continue
		}
		if !(strings.Contains(p.Path(), "/fileformat/") || strings.HasSuffix(p.Path(), "/idr") || strings.HasSuffix(p.Path(), "/omniv21") || p.Path() == core.Mod) {
			continue
		}
		n++
		key := core.FuncKey(f) + " is not self-recursive"
		rec := reachesStatic(f, f, 0, map[*ssa.Function]bool{})
		c.Check(!rec, "K10", key, f.Pos(), "Read does not reach itself through static calls", "Read calls itself (directly or through helpers): every unit skipped this way adds a stack frame, so the depth grows with the input and a long run of skipped units ends in a fatal stack overflow")
	}
	if n == 0 {
		c.Unresolved("K10", "Read methods", "none found")
	}
}

// c03NoStationaryLoop (K11): in library code on the load/run path, no loop may have a cycle path along which nothing
// changes: every loop-header phi that feeds an exit condition of the loop keeps its value, and the path contains no
// store, map update, channel operation or call other than to a short list of pure functions. Entering such a path once
// means looping forever (e.g. a `continue` placed before the statement that advances the scanned slice).
func c03NoStationaryLoop(c *core.Ctx) {
	n := 0
	for _, f := range c.RepoFunctions() {
		if core.IsCLIOrSample(core.FuncPkg(f)) {
			continue
		}
		for _, h := range f.Blocks {
			// loop header: a block with a predecessor it dominates
			isHeader := false
			for _, p := range h.Preds {
				if h.Dominates(p) {
					isHeader = true
				}
			}
			if !isHeader {
				continue
			}
			// loop body = blocks dominated by h that can reach h
			inLoop := map[*ssa.BasicBlock]bool{}
			for _, b := range f.Blocks {
				if h.Dominates(b) && reachableFrom(b, h) && (b == h || reachesWithin(b, h)) {
					inLoop[b] = true
				}
			}
			// exit conditions and the header phis feeding them
			feeds := map[*ssa.Phi]bool{}
			for b := range inLoop {
				ifi, ok := b.Instrs[len(b.Instrs)-1].(*ssa.If)
				if !ok {
					continue
				}
				if inLoop[b.Succs[0]] && inLoop[b.Succs[1]] {
					continue
				}
				for _, in := range h.Instrs {
					if phi, ok := in.(*ssa.Phi); ok && dependsOn(ifi.Cond, phi, 0) {
						feeds[phi] = true
					}
				}
			}
			if len(feeds) == 0 {
				continue // exit does not depend on loop-carried registers (e.g. depends on calls/loads): not decidable here
			}
			n++
			key := core.FuncKey(f) + " loop makes progress"
			// search a cycle path h -> ... -> pred(h) with no effect and all feeding phis unchanged on that back edge
			stationary := token.NoPos
			var dfs func(b *ssa.BasicBlock, seen map[*ssa.BasicBlock]bool)
			dfs = func(b *ssa.BasicBlock, seen map[*ssa.BasicBlock]bool) {
				if stationary.IsValid() {
					return
				}
				if blockHasEffect(b) {
					return
				}
				for _, s := range b.Succs {
					if s == h {
						// back edge from b: do all feeding phis keep their value?
						idx := -1
						for i, p := range h.Preds {
							if p == b {
								idx = i
							}
						}
						same := idx >= 0
						for phi := range feeds {
							if idx < 0 || phi.Edges[idx] != ssa.Value(phi) {
								same = false
							}
						}
						if same {
							stationary = core.InstrPos(b.Instrs[len(b.Instrs)-1])
							return
						}
						continue
					}
					if inLoop[s] && !seen[s] {
						seen[s] = true
						dfs(s, seen)
					}
				}
			}
			dfs(h, map[*ssa.BasicBlock]bool{h: true})
			c.Check(!stationary.IsValid(), "K11", key, h.Instrs[0].Pos(), "no effect-free cycle path leaves the loop's exit-relevant variables unchanged",
				"the loop has a cycle path on which nothing changes (the variables its exit condition depends on keep their values and nothing is stored or called): once taken, the loop never ends")
		}
	}
	if n == 0 {
		c.Unresolved("K11", "loops with register-carried exit conditions", "none found")
	}
}

func reachesWithin(from, to *ssa.BasicBlock) bool {
	for _, s := range from.Succs {
		if s == to || reachableFrom(s, to) {
			return true
		}
	}
	return false
}

func blockHasEffect(b *ssa.BasicBlock) bool {
	for _, in := range b.Instrs {
		switch x := in.(type) {
		case *ssa.Store:
			if _, isAlloc := x.Addr.(*ssa.Alloc); !isAlloc {
				return true
			}
			return true
		case *ssa.MapUpdate, *ssa.Send, *ssa.Go, *ssa.Defer, *ssa.Panic, *ssa.Return, *ssa.Next:
			return true
		case *ssa.UnOp:
			if x.Op == token.ARROW {
				return true
			}
		case ssa.CallInstruction:
			if bn, ok := x.Common().Value.(*ssa.Builtin); ok {
				switch bn.Name() {
				case "len", "cap", "min", "max":
					continue
				}
				return true
			}
			o := core.CalleeObj(x)
			if o == nil || o.Pkg() == nil {
				return true
			}
			switch o.Pkg().Path() {
			case "unicode/utf8", "unicode", "strings", "bytes", "math":
				if strings.Contains(core.FuncName(o), ".") {
					return true // methods (Builder.Write…) have effects
				}
				continue
			}
			return true
		}
	}
	return false
}

// ---------------------------------------------------------------- R11e / R11f (C11): query wrappers are transparent

// c11QueryWrappers: R11e — MatchAll collects every node the engine yields: the append of the iterator's current node is
// control-dependent only on MoveNext() (no de-duplication or filtering in the wrapper); the MoveNext() answer may reach
// the branch through a phi, a negation, or the boolean result of an iterator helper / iterator closure of the repository
// whose every return is gated by MoveNext() alone (g5IsMoveNext). R11f — the expression string
// handed to the xpath compiler (directly or through the go-corelib cache) is the wrapper's own parameter, untransformed.
func c11QueryWrappers(c *core.Ctx) {
	p := c.Pkg("idr")
	if p == nil {
		c.Unresolved("R11e", "package idr", "not loaded")
		return
	}
	// R11f
	n := 0
	for _, f := range c.RepoFunctions() {
		if core.FuncPkg(f) != p.Types {
			continue
		}
		for _, ci := range core.Calls(f) {
			isCompile := core.IsCallTo(ci, "github.com/antchfx/xpath", "Compile") || core.IsCallTo(ci, "github.com/jf-tech/go-corelib/caches", "GetXPathExpr")
			if !isCompile {
				continue
			}
			n++
			key := core.FuncKey(f) + " compiles expression"
			ok := c11ExprFromParam(ci.Common().Args[0], p.Types, map[ssa.Value]bool{})
			c.Check(ok, "R11f", key, core.InstrPos(ci), "the compiled string is the caller's expression (at most trimmed at both ends)", "the xpath expression is rewritten before it is compiled: string literals inside predicates may change (e.g. whitespace normalisation), so the query differs from the one the reference engine evaluates")
		}
	}
	if n == 0 {
		c.Unresolved("R11f", "xpath compile sites", "none found in package idr")
	}
	// R11e
	m := 0
	for _, name := range []string{"MatchAll"} {
		f := c.Func("idr", name)
		if f == nil {
			c.Unresolved("R11e", "idr."+name, "exported query wrapper not found")
			continue
		}
		for _, b := range f.Blocks {
			for _, in := range b.Instrs {
				call, ok := in.(*ssa.Call)
				if !ok {
					continue
				}
				bn, ok := call.Call.Value.(*ssa.Builtin)
				if !ok || bn.Name() != "append" {
					continue
				}
				m++
				key := core.FuncKey(f) + " collects results"
				// every branch the append is control-dependent on must test a MoveNext() answer (directly, or through an
				// iterator helper / closure whose boolean result is decided by MoveNext() alone)
				bad := ""
				for _, cond := range g5GateConds(b) {
					isMoveNext := g5IsMoveNext(cond, map[ssa.Value]bool{})
					isErrTest := false
					if bo, ok := cond.(*ssa.BinOp); ok && (core.IsNilConst(bo.X) || core.IsNilConst(bo.Y)) && (isErrorT(bo.X.Type()) || isErrorT(bo.Y.Type())) {
						isErrTest = true
					}
					isDotTest := false
					if bo, ok := cond.(*ssa.BinOp); ok && bo.Op == token.EQL {
						if _, isC := bo.Y.(*ssa.Const); isC {
							if _, isP := bo.X.(*ssa.Parameter); isP {
								isDotTest = true // the "." shortcut on the expression parameter
							}
						}
					}
					if !isMoveNext && !isErrTest && !isDotTest {
						bad = "a condition other than MoveNext()"
					}
				}
				c.Check(bad == "", "R11e", key, core.InstrPos(call), "every node the iterator yields is appended", "collecting a result node depends on "+bad+": nodes the engine yields are filtered or de-duplicated by the wrapper, so the node sequence differs from the reference")
			}
		}
	}
	if m == 0 {
		c.Unresolved("R11e", "result collection", "no append found in idr.MatchAll")
	}
}

// c11ExprFromParam: v is the function's own string parameter, possibly trimmed at both ends (strings.TrimSpace), held in
// a local/captured variable, merged by a phi, or passed through a helper of the same package (the filter splitter).
// Cyclic derivations through a re-assigned variable (x = TrimSpace(x)) are resolved coinductively.
func c11ExprFromParam(v ssa.Value, pkg *types.Package, seen map[ssa.Value]bool) bool {
	if seen[v] {
		return true
	}
	seen[v] = true
	switch x := v.(type) {
	case *ssa.Parameter:
		return true
	case *ssa.Call:
		if core.IsCallTo(x, "strings", "TrimSpace") {
			return c11ExprFromParam(x.Call.Args[0], pkg, seen)
		}
		if cf := x.Call.StaticCallee(); cf != nil && core.FuncPkg(cf) == pkg && len(x.Call.Args) == 1 {
			return c11ExprFromParam(x.Call.Args[0], pkg, seen)
		}
	case *ssa.Phi:
		for _, e := range x.Edges {
			if !c11ExprFromParam(e, pkg, seen) {
				return false
			}
		}
		return len(x.Edges) > 0
	case *ssa.UnOp:
		if x.Op == token.MUL {
			var cell *ssa.Alloc
			switch a := x.X.(type) {
			case *ssa.Alloc:
				cell = a
			case *ssa.FreeVar:
				if b, ok := closureBinding(x.Parent(), a).(*ssa.Alloc); ok {
					cell = b
				}
			}
			if cell == nil {
				return false
			}
			sts := storesToCell(cell)
			if len(sts) == 0 {
				return false
			}
			for _, st := range sts {
				if !c11ExprFromParam(st.Val, pkg, seen) {
					return false
				}
			}
			return true
		}
	}
	return false
}
