package rules

// Positive controls of C03: each is a small edit of /repo that compiles, is of the kind the test-suite does not pin,
// breaks the no-panic property and must make the named rule fire naming the construct.
func c03controls() {
	control(Control{ID: "c03-revert-fix-F5-arg-name-assert", Prop: "C03", File: "extensions/omniv21/customfuncs/javascript.go",
		Old:  "\t\tname, ok := args[i*2].(string)\n\t\tif !ok {\n\t\t\treturn nil, fmt.Errorf(\"arg name must be a string, but got %T\", args[i*2])\n\t\t}\n\t\tvmArgs[name] = args[i*2+1]",
		New:  "\t\tvmArgs[args[i*2].(string)] = args[i*2+1]",
		Rule: "K3", Substr: "JavaScriptWithContext asserts .(string)", Why: "revert of fix 23d5588 (F5): argument name asserted unchecked"})
	control(Control{ID: "c03-revert-fix-F12-elem-guard", Prop: "C03", File: "extensions/omniv21/transform/invokeCustomFunc.go",
		Old: "\tif isVariadic && argIndex == fnType.NumIn()-1 {", New: "\tif isVariadic {",
		Rule: "K2", Substr: "getFuncArgType calls reflect.Type.Elem", Why: "revert of fix 46db170 (F12): Elem() on a non-variadic parameter of a variadic function"})
	control(Control{ID: "c03-csv-delimiter-minlength", Prop: "C03", File: "extensions/omniv21/validation/csvFileDeclaration.go",
		Old: "\"delimiter\": { \"type\": \"string\", \"minLength\": 1, \"maxLength\": 1 }", New: "\"delimiter\": { \"type\": \"string\", \"maxLength\": 1 }",
		Rule: "K5", Substr: "fileformat/csv.NewReader indexes Delimiter[0]", Why: "empty delimiter accepted: []rune(\"\")[0] panics in NewReader"})
	control(Control{ID: "c03-csv2-delimiter-not-required", Prop: "C03", File: "extensions/omniv21/validation/csv2FileDeclaration.go",
		Old: "\"required\": [ \"delimiter\" ],", New: "\"required\": [ ],",
		Rule: "K5", Substr: "flatfile/csv.NewReader indexes Delimiter[0]", Why: "delimiter may be absent: zero value \"\" is indexed"})
	control(Control{ID: "c03-fixedlength-envelopes-minitems", Prop: "C03", File: "extensions/omniv21/validation/fixedlengthFileDeclaration.go",
		Old: "            \"items\": { \"$ref\": \"#/definitions/envelope_by_header_footer_type\" },\n            \"minItems\": 1", New: "            \"items\": { \"$ref\": \"#/definitions/envelope_by_header_footer_type\" }",
		Rule: "K5", Substr: "envelopeType indexes Envelopes[0]", Why: "empty envelopes array accepted: Envelopes[0] panics in the first Read"})
	control(Control{ID: "c03-csv2-rows-minimum", Prop: "C03", File: "extensions/omniv21/validation/csv2FileDeclaration.go",
		Old: "\"rows\": { \"type\": \"integer\", \"minimum\": 1 },", New: "\"rows\": { \"type\": \"integer\" },",
		Rule: "K5t", Substr: "flatfile/csv.RecordDecl.Rows", Why: "rows: 0 accepted: ReadAndMatch matches without consuming input (no progress)"})
	control(Control{ID: "c03-file-declaration-not-required", Prop: "C03", File: "extensions/omniv21/validation/ediFileDeclaration.go",
		Old: "    \"required\": [ \"file_declaration\" ],", New: "    \"required\": [ ],",
		Rule: "K5t", Substr: "edi.ediFormatRuntime.Decl", Why: "schema without file_declaration accepted: runtime.Decl is nil and dereferenced"})
	control(Control{ID: "c03-usenumber", Prop: "C03", File: "idr/jsonreader.go",
		Old: "\treader.cur = reader.root\n\treturn reader, nil", New: "\treader.d.UseNumber()\n\treader.cur = reader.root\n\treturn reader, nil",
		Rule: "K6", Substr: "UseNumber", Why: "json.Number tokens reach the default branch v.(string)"})
	control(Control{ID: "c03-new-assert-in-reader", Prop: "C03", File: "extensions/omniv21/fileformat/json/reader.go",
		Old: "func (r *reader) Read() (*idr.Node, error) {", New: "func (r *reader) Read() (*idr.Node, error) {\n\tvar hint interface{} = r.inputName\n\tif len(r.inputName) > 3 {\n\t\thint = len(r.inputName)\n\t}\n\t_ = hint.(string)",
		Rule: "K3", Substr: "json.reader).Read asserts .(string)", Why: "new unchecked assertion in a reader's Read path"})
	control(Control{ID: "c03-drop-template-cycle-test", Prop: "C03", File: "extensions/omniv21/transform/validate.go",
		Old: "\tif strs.HasDup(templateRefStack) {", New: "\tif false && strs.HasDup(templateRefStack) {",
		Rule: "K7", Substr: "validateTemplate expands a referenced declaration recursively", Why: "template cycle no longer rejected: validateDecl recurses until stack overflow"})
	control(Control{ID: "c03-xpath-movenext-helper", Prop: "C03", File: "idr/jsonreader.go",
		Old: "\tif sp.xpathExpr != nil && sp.stream == nil && MatchAny(sp.root, sp.xpathExpr) {", New: "\tc03count := func(n *Node, e *xpath.Expr) int {\n\t\tk := 0\n\t\tfor it := QueryIter(n, e); it.MoveNext(); {\n\t\t\tk++\n\t\t}\n\t\treturn k\n\t}\n\tif sp.xpathExpr != nil && sp.stream == nil && c03count(sp.root, sp.xpathExpr) > 0 {",
		Rule: "K4", Substr: "streamCandidateCheck$1 calls xpath.NodeIterator.MoveNext", Why: "new evaluation site reachable from Read without recover"})
	control(Control{ID: "c03-new-panic-in-read", Prop: "C03", File: "extensions/omniv21/fileformat/csv/reader.go",
		Old: "\tn := r.recordToNode(record)\n", New: "\tif len(record) == 0 {\n\t\tpanic(\"empty record\")\n\t}\n\tn := r.recordToNode(record)\n",
		Rule: "K1", Substr: "fileformat/csv.reader).Read: panic when", Why: "new explicit panic on an input-dependent condition in Read"})
	control(Control{ID: "c03-new-stacktop-caller", Prop: "C03", File: "extensions/omniv21/fileformat/flatfile/hierarchyReader.go",
		Old: "\tif n == nil {\n\t\treturn\n\t}\n\tif r.target == n {", New: "\tif n == nil {\n\t\treturn\n\t}\n\t_ = r.stackTop(2)\n\tif r.target == n {",
		Rule: "K1", Substr: "stackTop: panic when _ < 0 || _ >= len(p0.stack) <- (*extensions/omniv21/fileformat/flatfile.HierarchyReader).Release", Why: "new caller of an asserting helper without the stack-depth guard"})
	control(Control{ID: "c03-drop-numout-validation", Prop: "C03", File: "extensions/omniv21/transform/validate.go",
		Old: "\tif fnType.NumOut() != 2 {", New: "\tif fnType.NumOut() > 2 {",
		Rule: "K5", Substr: "invokeCustomFunc indexes result of Value.Call[1]", Why: "custom functions with fewer than 2 results accepted: result[1] out of range"})
	control(Control{ID: "c03-drop-kind-func-validation", Prop: "C03", File: "extensions/omniv21/transform/validate.go",
		Old: "\tif reflect.ValueOf(fn).Kind() != reflect.Func {", New: "\tif reflect.ValueOf(fn).Kind() == reflect.Invalid {",
		Rule: "K2", Substr: "validateCustomFunc calls reflect.Type.NumIn", Why: "non-function registered as custom_func: NumIn() panics"})
	control(Control{ID: "c03-int-accessor-without-kind", Prop: "C03", File: "extensions/omniv21/transform/value.go",
		Old: "\t\tcase resultTypeFloat:\n\t\t\treturn convUintToFloat(v)", New: "\t\tcase resultTypeFloat:\n\t\t\treturn convIntToFloat(v)",
		Rule: "K2", Substr: "transform.init$4 calls reflect.Value.Int", Why: "Int() reached with an unsigned Kind"})
	control(Control{ID: "c03-shrinkstack-unguarded", Prop: "C03", File: "extensions/omniv21/fileformat/edi/reader.go",
		Old: "\tif len(r.stack) <= 1 {\n\t\treturn nil\n\t}\n\tcur = r.shrinkStack()", New: "\tcur = r.shrinkStack()\n\tif cur == nil {\n\t\treturn nil\n\t}",
		Rule: "K1", Substr: "shrinkStack: panic when len(p0.stack) < 1 <- (*extensions/omniv21/fileformat/edi.ediReader).segNext", Why: "stack-depth guard before shrinkStack removed"})
	control(Control{ID: "c03-atline-field-renamed", Prop: "C03", File: "idr/xmlreader.go",
		Old: "FieldByName(\"line\")", New: "FieldByName(\"lineNo\")",
		Rule: "K2", Substr: "XMLStreamReader).AtLine calls reflect.Value.FieldByName", Why: "field name not present in encoding/xml.Decoder of the toolchain: zero Value, Int() panics on the first error message"})
	control(Control{ID: "c03-unclassified-reflect-op", Prop: "C03", File: "extensions/omniv21/transform/value.go",
		Old: "\tcase reflect.Slice, reflect.Map, reflect.Array, reflect.String, reflect.Chan:\n\t\treturn value.Len() == 0", New: "\tcase reflect.Slice, reflect.Map, reflect.Array, reflect.String, reflect.Chan:\n\t\treturn value.Len() == 0\n\tcase reflect.Struct:\n\t\treturn value.Field(0).IsZero()",
		Rule: "K2", Substr: "isEmpty calls reflect.Value.Field", Why: "reflect operation with preconditions the rule does not know (Field(0) of an empty struct panics)"})
	control(Control{ID: "c03-optional-pointer-unguarded", Prop: "C03", File: "extensions/omniv21/fileformat/csv/format.go",
		Old: "\tif decl.HeaderRowIndex != nil && *decl.HeaderRowIndex >= decl.DataRowIndex {", New: "\tif *decl.HeaderRowIndex >= decl.DataRowIndex {",
		Rule: "K5", Substr: "validateFileDecl dereferences optional FileDecl.HeaderRowIndex", Why: "optional header_row_index dereferenced without the nil test"})
	control(Control{ID: "c03-len-guard-weakened", Prop: "C03", File: "extensions/omniv21/fileformat/edi/seg.go",
		Old: "\t\treturn len(d.Children) > 0 && d.Children[0].matchSegName(segName)", New: "\t\treturn len(d.Children) >= 0 && d.Children[0].matchSegName(segName)",
		Rule: "K5", Substr: "matchSegName indexes Children[0]", Why: "length guard no longer excludes the empty slice"})
}
