package rules

// C03 helper: settling obligations that could not be discharged mechanically against the reviewed (argued) tables in a
// way that survives behaviour-preserving refactorings:
//   - exact match of the construct;
//   - "lifted" match: the construct sits in an unexported function with exactly one call site — an extracted helper —
//     and the reviewed entry is keyed by the (transitive) single caller;
//   - shape match (end of the rule): the construct equals a still unused reviewed entry up to a consistent renaming of
//     unexported identifiers (functions, methods, fields, unexported types).
// None of these ever discharges anything: the obligation stays "argued"; a construct that matches nothing is reported.

import (
	"sort"
	"strings"
	"unicode"

	"golang.org/x/tools/go/ssa"

	"omnilint/core"
)

type c03pending struct {
	rule, construct, why string
	at                   ssa.Instruction
}

// liftable: f is an unexported, named function of the repository with exactly one (static, plain call) call site
// in the reachable program; returns that site.
func (x *c03ctx) liftable(f *ssa.Function) ssa.CallInstruction {
	if f == nil || f.Parent() != nil || f.Synthetic != "" {
		return nil
	}
	o := f.Object()
	if o == nil || o.Exported() {
		return nil
	}
	sites := x.e.callers[f]
	if len(sites) != 1 {
		return nil
	}
	call, ok := sites[0].(*ssa.Call)
	if !ok || call.Call.StaticCallee() != f {
		return nil
	}
	if p := core.FuncPkg(call.Parent()); p == nil || !core.InRepo(p) {
		return nil
	}
	if call.Parent() == f {
		return nil
	}
	return call
}

// liftedKeys: the construct (which starts with the key of function f) re-keyed by f's transitive single callers.
func (x *c03ctx) liftedKeys(f *ssa.Function, construct string) []string {
	var out []string
	prefix := core.FuncKey(f)
	if !strings.HasPrefix(construct, prefix) {
		return nil
	}
	g := f
	for i := 0; i < 3; i++ {
		s := x.liftable(g)
		if s == nil {
			break
		}
		g = s.Parent()
		out = append(out, core.FuncKey(g)+construct[len(prefix):])
	}
	return out
}

// liftedToAllCallers: f is an unexported helper with 2..4 static call sites, all in repository functions: the
// construct re-keyed by each distinct caller.
func (x *c03ctx) liftedToAllCallers(f *ssa.Function, construct string) []string {
	prefix := core.FuncKey(f)
	if f == nil || f.Parent() != nil || f.Synthetic != "" || f.Object() == nil || f.Object().Exported() || !strings.HasPrefix(construct, prefix) {
		return nil
	}
	sites := x.e.callers[f]
	if len(sites) < 2 || len(sites) > 4 {
		return nil
	}
	seen := map[*ssa.Function]bool{}
	var out []string
	for _, s := range sites {
		call, ok := s.(*ssa.Call)
		if !ok || call.Call.StaticCallee() != f {
			return nil
		}
		g := s.Parent()
		if p := core.FuncPkg(g); p == nil || !core.InRepo(p) || g == f {
			return nil
		}
		if !seen[g] {
			seen[g] = true
			out = append(out, core.FuncKey(g)+construct[len(prefix):])
		}
	}
	sort.Strings(out)
	return out
}

// c03shapeKnown: some reviewed entry has the construct's shape (then a mismatch is a rename, not an extraction).
func c03shapeKnown(construct string, table map[string]c03argued) bool {
	sh := c03shape(construct)
	for k := range table {
		if c03shape(k) == sh {
			return true
		}
	}
	return false
}

func (x *c03ctx) takeReviewed(rule, key string, table map[string]c03argued) (c03argued, bool) {
	a, ok := table[key]
	if !ok || x.argCount[rule+"\x00"+key] >= a.n {
		return a, false
	}
	x.argCount[rule+"\x00"+key]++
	return a, true
}

// settle: see the file comment. `alts` are additional keys under which the construct may have been reviewed.
func (x *c03ctx) settle(rule, construct string, at ssa.Instruction, table map[string]c03argued, why string, alts ...string) {
	pos := core.InstrPos(at)
	if x.protected(at) {
		x.c.OK(rule, construct, pos, "a panic here is recovered before it reaches the public API: every call chain from the entry points passes a deferred recover() ("+why+")")
		return
	}
	if a, ok := x.takeReviewed(rule, construct, table); ok {
		x.c.Arg(rule, construct, pos, a.why+" [not mechanically verified: "+why+"]")
		return
	}
	if !c03shapeKnown(construct, table) {
		alts = append(alts, x.liftedKeys(at.Parent(), construct)...)
		for _, k := range alts {
			if a, ok := x.takeReviewed(rule, k, table); ok {
				x.c.Arg(rule, k, pos, a.why+" [not mechanically verified: "+why+"; the construct now sits in the single-caller helper "+core.FuncKey(at.Parent())+"]")
				return
			}
		}
		// a helper shared by a few reviewed functions: the construct must have been reviewed in every caller
		if ks := x.liftedToAllCallers(at.Parent(), construct); len(ks) > 1 {
			all := true
			for _, k := range ks {
				a, ok := table[k]
				if !ok || x.argCount[rule+"\x00"+k] >= a.n {
					all = false
				}
			}
			if all {
				for _, k := range ks {
					a, _ := x.takeReviewed(rule, k, table)
					x.c.Arg(rule, k, pos, a.why+" [not mechanically verified: "+why+"; the construct now sits in the helper "+core.FuncKey(at.Parent())+" shared by the reviewed functions]")
				}
				return
			}
		}
	}
	x.pending = append(x.pending, c03pending{rule: rule, construct: construct, why: why, at: at})
}

// flush: shape matching of the leftovers of one rule, then report.
func (x *c03ctx) flush(rule string, table map[string]c03argued) {
	var keys []string
	for k := range table {
		keys = append(keys, k)
	}
	sort.Strings(keys)
	var rest []c03pending
	for _, p := range x.pending {
		if p.rule != rule {
			rest = append(rest, p)
			continue
		}
		sh := c03shape(p.construct)
		matched := false
		for _, k := range keys {
			if c03shape(k) != sh {
				continue
			}
			if a, ok := x.takeReviewed(rule, k, table); ok {
				x.c.Arg(rule, p.construct, core.InstrPos(p.at), a.why+" [not mechanically verified: "+p.why+"; matched the reviewed entry `"+k+"` up to renamed unexported identifiers]")
				matched = true
				break
			}
		}
		if !matched {
			x.c.Bad(rule, p.construct, core.InstrPos(p.at), p.why)
		}
	}
	x.pending = rest
}

func c03isIdentRune(r rune) bool { return r == '_' || unicode.IsLetter(r) || unicode.IsDigit(r) }

// c03shape replaces every unexported identifier that is selected from something (".name"), indexed ("name[") or
// named as an optional field's owner ("optional name.") by a placeholder numbered by first occurrence.
func c03shape(s string) string {
	rs := []rune(c03sortArgs(s))
	var sb strings.Builder
	names := map[string]int{}
	for i := 0; i < len(rs); {
		if !(rs[i] == '_' || unicode.IsLetter(rs[i])) {
			sb.WriteRune(rs[i])
			i++
			continue
		}
		j := i
		for j < len(rs) && c03isIdentRune(rs[j]) {
			j++
		}
		id := string(rs[i:j])
		abstract := false
		if unicode.IsLower(rs[i]) && id != "_" {
			prev := rune(0)
			if i > 0 {
				prev = rs[i-1]
			}
			next := rune(0)
			if j < len(rs) {
				next = rs[j]
			}
			switch {
			case prev == '.':
				abstract = true
			case next == '[' && prev == ' ':
				abstract = true
			case next == '.' && strings.HasSuffix(string(rs[:i]), "optional "):
				abstract = true
			}
		}
		if abstract {
			n, ok := names[id]
			if !ok {
				n = len(names) + 1
				names[id] = n
			}
			sb.WriteString("§")
			sb.WriteString(string(rune('0' + n%10)))
			if n >= 10 {
				sb.WriteString(string(rune('0' + n/10)))
			}
		} else {
			sb.WriteString(id)
		}
		i = j
	}
	return sb.String()
}

// c03sortArgs orders the comma-separated parts of every parenthesised group (recursively), so that a reordering of
// the parameters of a helper named in a guard does not change the shape.
func c03sortArgs(s string) string {
	rs := []rune(s)
	var rec func(i int) (string, int)
	rec = func(i int) (string, int) {
		// parses up to the matching ')' or end; returns canonical text and the index after it
		var parts []string
		var cur []rune
		for i < len(rs) {
			switch rs[i] {
			case '(':
				inner, j := rec(i + 1)
				cur = append(cur, '(')
				cur = append(cur, []rune(inner)...)
				cur = append(cur, ')')
				i = j
				continue
			case ')':
				parts = append(parts, string(cur))
				if len(parts) > 1 {
					sort.Strings(parts)
				}
				return strings.Join(parts, ","), i + 1
			case ',':
				parts = append(parts, string(cur))
				cur = nil
				i++
				continue
			}
			cur = append(cur, rs[i])
			i++
		}
		parts = append(parts, string(cur))
		return strings.Join(parts, ","), i
	}
	// top level: do not sort (commas outside parentheses are prose)
	var sb strings.Builder
	for i := 0; i < len(rs); {
		if rs[i] == '(' {
			inner, j := rec(i + 1)
			sb.WriteString("(" + inner + ")")
			i = j
			continue
		}
		sb.WriteRune(rs[i])
		i++
	}
	return sb.String()
}
