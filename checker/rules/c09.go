package rules

import (
	"fmt"
	"go/token"
	"go/types"
	"sort"
	"strings"

	"golang.org/x/tools/go/ssa"

	"omnilint/core"
)

func init() {
	register(&RuleSet{
		Prop:  "C09",
		Title: "Results do not depend on how the input reader delivers its bytes",
		Explanation: "R09a borrowed-buffer discipline. Borrow sources (resolved by callee): ios.ByteReadLine, bufio.Reader.ReadLine/ReadSlice/Peek, bufio.Scanner.Bytes, and csv.Reader.Read in packages that set ReuseRecord. A forward value flow (A5) over the SSA of all library packages marks every value that may alias such a buffer (slicing, struct/slice construction, Phi, Extract, append, calls into repository functions and their returns; struct fields abstract the heap); string(b) ends the flow (copy), and library functions of a closed list of pure packages do not retain arguments. " +
			"Every store of a borrowed value into memory that is not a local of the storing function is an obligation and must be covered by one of the protocols found in the code: " +
			"(A) copy-before-refill - in the function that refills the decoder, with the block that replaces the holder's last element by a make+copy of itself (and sets its `copied` flag) and the edges on which the holder is empty or the flag is set removed, the refill call is unreachable from the entry; the flag is set nowhere else; " +
			"(B) consume-before-refill - every refill call in the reader's methods is dominated by the false edge of the holder's `valid` flag, and every function that stores false to that flag also clears every borrow-holding field of the struct; " +
			"(C) reset-on-fill - a function that fills a struct through a pointer parameter calls the reset function on it before any other use, and in the callers the filled field is only read after a fill in the same activation; " +
			"moves inside one holder are allowed; anything else (package-level variable, channel, goroutine, unknown callee, map, plain pointer) is reported. " +
			"R09b borrowed bytes reach node data only through a copying conversion: idr.Node.Data is a string, and every string(borrowed) conversion site is inventoried.",
		NotDecided: "everything else in the statement: BOM/charset/byte-replacing readers at chunk boundaries, the decoders' own chunk handling (bufio, encoding/csv, encoding/json, encoding/xml), io.EOF returned together with data; for protocol A that only the last element of the line buffer can be uncopied (lines are appended at the end and popped from the front - argued, not checked); in-place unescape of a consumed EDI token.",
		Trusted: append([]string{"bufio.Reader/bufio.Scanner/encoding/csv invalidate a returned slice only on their next read call, as documented",
			"functions of bytes, strings, unicode/utf8, regexp, fmt, strconv, go-corelib/strs and go-corelib/maths do not retain their slice arguments"}, commonTrusted...),
		Run: runC09,
	})
	const fl2 = "extensions/omniv21/fileformat/flatfile/fixedlength/reader.go"
	const csv2 = "extensions/omniv21/fileformat/flatfile/csv/reader.go"
	const edi = "extensions/omniv21/fileformat/edi/reader.go"
	const edi2 = "extensions/omniv21/fileformat/edi/reader2.go"
	control(Control{ID: "c09-fl2-copy-block-removed", Prop: "C09", File: fl2,
		Old: "\tlinesBufLen := len(r.linesBuf)\n\tif linesBufLen > 0 && !r.linesBuf[linesBufLen-1].copied {\n\t\tcp := make([]byte, len(r.linesBuf[linesBufLen-1].b))\n\t\tcopy(cp, r.linesBuf[linesBufLen-1].b)\n\t\tr.linesBuf[linesBufLen-1].b = cp\n\t\tr.linesBuf[linesBufLen-1].copied = true\n\t}\n",
		New: "", Rule: "R09a", Substr: "readLine", Why: "upstream issue 213: a buffered line still aliases bufio's buffer when the next line is read"})
	control(Control{ID: "c09-fl2-flag-without-copy", Prop: "C09", File: fl2,
		Old: "\t\tcp := make([]byte, len(r.linesBuf[linesBufLen-1].b))\n\t\tcopy(cp, r.linesBuf[linesBufLen-1].b)\n\t\tr.linesBuf[linesBufLen-1].b = cp\n",
		New: "", Rule: "R09a", Substr: "readLine", Why: "line marked copied without being copied"})
	control(Control{ID: "c09-fl2-copy-first-line", Prop: "C09", File: fl2,
		Old: "\t\tr.linesBuf[linesBufLen-1].b = cp\n", New: "\t\tr.linesBuf[0].b = cp\n",
		Rule: "R09a", Substr: "readLine", Why: "the copy replaces another line than the borrowed one"})
	control(Control{ID: "c09-csv2-record-aliased", Prop: "C09", File: csv2,
		Old: "\tr.records = append(r.records, record...)\n", New: "\tif len(r.records) == 0 {\n\t\tr.records = record\n\t} else {\n\t\tr.records = append(r.records, record...)\n\t}\n",
		Rule: "R09a", Substr: "records", Why: "the reused csv record slice itself is kept in reader state"})
	control(Control{ID: "c09-edi-refill-unguarded", Prop: "C09", File: edi,
		Old: "\tif r.unprocessedRawSeg.valid {\n\t\treturn r.unprocessedRawSeg, nil\n\t}\n", New: "",
		Rule: "R09a", Substr: "getUnprocessedRawSeg", Why: "the next segment is scanned while the previous raw segment is still unconsumed"})
	control(Control{ID: "c09-edi-reset-keeps-raw", Prop: "C09", File: edi2,
		Old: "\traw.Raw = nil\n", New: "",
		Rule: "R09a", Substr: "RawSeg", Why: "an invalidated raw segment keeps a slice of the scanner buffer"})
	control(Control{ID: "c09-edi-token-in-global", Prop: "C09", File: edi2,
		Old: "\trawSeg.Raw = token\n", New: "\trawSeg.Raw = token\n\tcrBytes = token\n",
		Rule: "R09a", Substr: "crBytes", Why: "borrowed token published in a package-level variable"})
}

type c09rules struct {
	c  *core.Ctx
	t  *c09Taint
	rs map[*types.Named][]*ssa.Call // refill sites per reader type
}

func runC09(c *core.Ctx) {
	c.SSA()
	t := c09NewTaint(c)
	if len(t.fns) == 0 {
		c.Unresolved("R09a", "library functions", "no function to analyse")
		return
	}
	t.Run()
	r := &c09rules{c: c, t: t, rs: map[*types.Named][]*ssa.Call{}}

	// ---------------- sources
	var srcs []*c09Source
	for _, s := range t.sources {
		srcs = append(srcs, s)
	}
	sort.Slice(srcs, func(i, j int) bool {
		a, b := core.FuncKey(srcs[i].Fn)+srcs[i].Callee, core.FuncKey(srcs[j].Fn)+srcs[j].Callee
		if a != b {
			return a < b
		}
		return srcs[i].Call.Pos() < srcs[j].Call.Pos()
	})
	for _, s := range srcs {
		c.OK("R09a", core.FuncKey(s.Fn)+" borrows from "+s.Callee, core.InstrPos(s.Call), "borrow source: the result is tracked")
	}
	// ---------------- undecidable uses
	var uk []ssa.Instruction
	for in := range t.unknown {
		uk = append(uk, in)
	}
	sort.Slice(uk, func(i, j int) bool {
		a, b := core.FuncKey(uk[i].Parent()), core.FuncKey(uk[j].Parent())
		if a != b {
			return a < b
		}
		return uk[i].Pos() < uk[j].Pos()
	})
	for _, in := range uk {
		c.Unknown("R09a", core.FuncKey(in.Parent())+" passes borrowed data on", core.InstrPos(in), t.unknown[in])
	}
	// ---------------- stores
	var evs []*c09Event
	for _, ev := range t.events {
		evs = append(evs, ev)
	}
	sort.Slice(evs, func(i, j int) bool {
		a, b := c09EventKey(evs[i]), c09EventKey(evs[j])
		if a != b {
			return a < b
		}
		return evs[i].Instr.Pos() < evs[j].Instr.Pos()
	})
	nodeT := c09NodeType(c)
	for _, ev := range evs {
		r.event(ev, nodeT)
	}
	c.Floor("R09a", 15, "7 source call sites, 8 stores of borrowed data (2 protocol A/B fills, 2 fills through a pointer, 4 moves), refill sites")

	// ---------------- R09b
	if nodeT == nil {
		c.Unresolved("R09b", "idr.Node", "type not found")
	} else {
		st := nodeT.Underlying().(*types.Struct)
		found := false
		for i := 0; i < st.NumFields(); i++ {
			if st.Field(i).Name() == "Data" {
				found = true
				b, ok := st.Field(i).Type().Underlying().(*types.Basic)
				c.Check(ok && b.Info()&types.IsString != 0, "R09b", "idr.Node.Data is a string", st.Field(i).Pos(),
					"a value can only get into Data through a copying conversion", "Node.Data can hold a slice: borrowed bytes could be attached to a node without a copy")
			}
		}
		if !found {
			c.Unresolved("R09b", "idr.Node.Data", "field not found")
		}
	}
	var cvs []*ssa.Convert
	for cv := range t.copies {
		cvs = append(cvs, cv)
	}
	sort.Slice(cvs, func(i, j int) bool {
		a, b := core.FuncKey(cvs[i].Parent()), core.FuncKey(cvs[j].Parent())
		if a != b {
			return a < b
		}
		return cvs[i].Pos() < cvs[j].Pos()
	})
	for _, cv := range cvs {
		c.OK("R09b", core.FuncKey(cv.Parent())+" string(borrowed)", core.InstrPos(cv), "copying conversion ends the borrow")
	}
	c.Floor("R09b", 4, "Node.Data type, string(line[:i]) x2, string(ByteUnescape(...)), string(Elems[0].Data)")
	c09RawReads(c)
	c09LocalRetention(c, t, "R09i")
	c09Locals(c, t)
}

// c09SelfMove: the stored value is (a reslice / element of) what is loaded from the very holder it is stored into.
func c09SelfMove(ev *c09Event) bool {
	same := func(addr ssa.Value) bool {
		fields, root, ok := c09AddrRoot(addr)
		if !ok || root != ev.Root || len(fields) != len(ev.Fields) {
			return false
		}
		for i := range fields {
			if fields[i] != ev.Fields[i] {
				return false
			}
		}
		return true
	}
	seen := map[ssa.Value]bool{}
	var leaf func(v ssa.Value) bool
	leaf = func(v ssa.Value) bool {
		if seen[v] {
			return true
		}
		seen[v] = true
		switch x := v.(type) {
		case *ssa.Slice:
			return leaf(x.X)
		case *ssa.ChangeType:
			return leaf(x.X)
		case *ssa.Phi:
			for _, e := range x.Edges {
				if !leaf(e) {
					return false
				}
			}
			return true
		case *ssa.UnOp:
			return x.Op == token.MUL && same(x.X)
		}
		return false
	}
	return len(ev.Fields) > 0 && leaf(ev.Val)
}

func c09NodeType(c *core.Ctx) *types.Named {
	p := c.Pkg("idr")
	if p == nil {
		return nil
	}
	tn, _ := p.Types.Scope().Lookup("Node").(*types.TypeName)
	if tn == nil {
		return nil
	}
	n, _ := tn.Type().(*types.Named)
	if n == nil {
		return nil
	}
	if _, ok := n.Underlying().(*types.Struct); !ok {
		return nil
	}
	return n
}

func c09RecvNamed(f *ssa.Function) *types.Named {
	for f != nil && f.Parent() != nil {
		f = f.Parent()
	}
	if f == nil || f.Signature.Recv() == nil || len(f.Params) == 0 {
		return nil
	}
	return core.NamedOf(f.Params[0].Type())
}

func (r *c09rules) event(ev *c09Event, nodeT *types.Named) {
	c := r.c
	key := c09EventKey(ev)
	pos := core.InstrPos(ev.Instr)
	if ev.Kind != "field" {
		if ev.Kind == "global" {
			c.Bad("R09a", key, pos, ev.Why+": it outlives the decoder's next read")
		} else {
			c.Unknown("R09a", key, pos, ev.Why)
		}
		return
	}
	// into a node?
	if nodeT != nil {
		for _, tk := range ev.Toks {
			if strings.HasPrefix(tk, "fld:"+nodeT.Obj().Name()+".") {
				if fa, ok := ev.Addr.(*ssa.FieldAddr); ok && core.FieldOwner(fa) != nil && types.Identical(core.FieldOwner(fa), nodeT) {
					c.Bad("R09b", key, pos, "borrowed bytes attached to an IDR node without a copy")
					return
				}
			}
		}
	}
	// move inside one holder
	self := true
	chain := map[string]bool{}
	for _, tk := range ev.Toks {
		chain[tk] = true
	}
	for tk := range ev.Prov {
		if !chain[tk] {
			self = false
		}
	}
	if self || c09SelfMove(ev) {
		c.OK("R09a", key, pos, "moves data inside the holder it was loaded from ("+strings.Join(ev.Prov.list(), ", ")+")")
		return
	}
	switch root := ev.Root.(type) {
	case *ssa.Parameter:
		if len(ev.Fn.Params) > 0 && root == ev.Fn.Params[0] && ev.Fn.Signature.Recv() != nil {
			r.readerState(ev, key)
			return
		}
		r.fillThroughPointer(ev, root, key)
	default:
		c.Unknown("R09a", key, pos, fmt.Sprintf("borrowed value (%s) stored through a pointer whose owner is not the storing reader (%T)", strings.Join(ev.Prov.list(), ", "), ev.Root))
	}
}

// refillSites: calls, in the methods of reader type T, to borrow sources or to functions of other objects that return
// borrowed data.
func (r *c09rules) refillSites(T *types.Named) []*ssa.Call {
	if rs, ok := r.rs[T]; ok {
		return rs
	}
	var out []*ssa.Call
	for _, f := range r.t.fns {
		if rn := c09RecvNamed(f); rn == nil || !types.Identical(rn, T) {
			continue
		}
		for _, ci := range core.Calls(f) {
			call, ok := ci.(*ssa.Call)
			if !ok {
				continue
			}
			if r.t.sources[call] != nil {
				out = append(out, call)
				continue
			}
			g := call.Call.StaticCallee()
			if g == nil || len(r.t.tret[g]) == 0 {
				continue
			}
			if gn := c09RecvNamed(g); gn != nil && types.Identical(gn, T) {
				continue // accessor of the same reader
			}
			out = append(out, call)
		}
	}
	r.rs[T] = out
	return out
}

func c09CalleeName(call *ssa.Call) string {
	if o := core.CalleeObj(call); o != nil {
		return core.ObjKey(o)
	}
	return call.Call.String()
}

// readerState: a borrowed value is stored into a field of the method's receiver.
func (r *c09rules) readerState(ev *c09Event, key string) {
	c := r.c
	T := c09RecvNamed(ev.Fn)
	h := ev.Fields[0]
	sites := r.refillSites(T)
	if len(sites) == 0 {
		c.Unknown("R09a", key, core.InstrPos(ev.Instr), "no refill site found in the methods of the reader although borrowed data is stored")
		return
	}
	// protocol B?
	if okB, v, why := r.protocolB(T, h, sites); okB {
		c.OK("R09a", key, core.InstrPos(ev.Instr), fmt.Sprintf("consume-before-refill: holder %s guarded by flag %s; every invalidation clears the borrowed fields", h.Name(), v.Name()))
		for _, s := range sites {
			c.OK("R09a", fmt.Sprintf("%s refill %s while %s may be borrowed", core.FuncKey(s.Parent()), c09CalleeName(s), h.Name()), core.InstrPos(s), "dominated by !"+h.Name()+"."+v.Name())
		}
		return
	} else if why != "" {
		// a flag exists but the discipline is broken
		c.Bad("R09a", key, core.InstrPos(ev.Instr), "consume-before-refill protocol of holder "+h.Name()+" is broken: "+why)
		return
	}
	// protocol A?
	okA, results, why := r.protocolA(T, h, sites)
	if okA {
		c.OK("R09a", key, core.InstrPos(ev.Instr), "copy-before-refill: the last element of "+h.Name()+" is replaced by a copy before the decoder is refilled")
		for i, s := range sites {
			k := fmt.Sprintf("%s refill %s while %s may be borrowed", core.FuncKey(s.Parent()), c09CalleeName(s), h.Name())
			if results[i] == "" {
				c.OK("R09a", k, core.InstrPos(s), "unreachable from the entry without passing the copy block or an edge on which nothing is borrowed")
			} else {
				c.Bad("R09a", k, core.InstrPos(s), results[i])
			}
		}
		return
	}
	if why == "" {
		why = "no copy-before-refill block and no valid-flag guard found"
	}
	c.Bad("R09a", key, core.InstrPos(ev.Instr), fmt.Sprintf("a slice that aliases the decoder's buffer (%s) is kept in reader state %s across the next refill: %s", strings.Join(ev.Prov.list(), ", "), h.Name(), why))
}

func c09BoolFields(st *types.Struct) []*types.Var {
	var out []*types.Var
	for i := 0; i < st.NumFields(); i++ {
		if b, ok := st.Field(i).Type().Underlying().(*types.Basic); ok && b.Kind() == types.Bool {
			out = append(out, st.Field(i))
		}
	}
	return out
}

// c09IsClearing: the stored value empties a slice/pointer field: nil/zero, or the field itself resliced to length 0.
func c09IsClearing(st *ssa.Store) bool {
	if core.IsZeroConst(st.Val) || core.IsNilConst(st.Val) {
		return true
	}
	sl, ok := st.Val.(*ssa.Slice)
	if !ok || sl.Low != nil || sl.High == nil {
		return false
	}
	k, ok := sl.High.(*ssa.Const)
	if !ok || k.Value == nil || k.Value.ExactString() != "0" {
		return false
	}
	ld, ok := sl.X.(*ssa.UnOp)
	return ok && ld.Op == token.MUL && c09Same(ld.X, st.Addr)
}

// c09WholeClears: st overwrites the whole struct behind base with a value in which field q is empty: the zero value, or
// a composite literal whose field q is unset, nil, or base.q resliced to length 0.
func c09WholeClears(st *ssa.Store, base ssa.Value, q *types.Var) bool {
	if core.IsZeroConst(st.Val) {
		return true
	}
	ld, ok := st.Val.(*ssa.UnOp)
	if !ok || ld.Op != token.MUL {
		return false
	}
	al, ok := ld.X.(*ssa.Alloc)
	if !ok {
		return false
	}
	for _, u := range core.Referrers(al) {
		switch x := u.(type) {
		case *ssa.FieldAddr:
			if core.FieldOfAddr(x) != q {
				continue
			}
			for _, uu := range core.Referrers(x) {
				s2, ok := uu.(*ssa.Store)
				if !ok || s2.Addr != ssa.Value(x) {
					continue
				}
				if core.IsZeroConst(s2.Val) || core.IsNilConst(s2.Val) {
					continue
				}
				sl, ok := s2.Val.(*ssa.Slice)
				if !ok || sl.Low != nil || sl.High == nil {
					return false
				}
				k, ok := sl.High.(*ssa.Const)
				if !ok || k.Value == nil || k.Value.ExactString() != "0" {
					return false
				}
				src, ok := sl.X.(*ssa.UnOp)
				if !ok || src.Op != token.MUL {
					return false
				}
				sfa, ok := src.X.(*ssa.FieldAddr)
				if !ok || core.FieldOfAddr(sfa) != q || !c09Same(sfa.X, base) {
					return false
				}
			}
		case *ssa.Store:
			if x.Addr == ssa.Value(al) {
				return false // the literal itself is overwritten with something else
			}
		}
	}
	return true
}

// clearsAll: function g stores clearing values, on the base pointer `base`, into every borrow-holding field of S, on
// every path to a return.
func (r *c09rules) clearsAll(g *ssa.Function, base ssa.Value, S *types.Struct) (bool, string) {
	rets := c19Returns(g)
	for i := 0; i < S.NumFields(); i++ {
		q := S.Field(i)
		if r.t.tf[q] == nil {
			continue
		}
		cleared := false
		for _, b := range g.Blocks {
			for _, in := range b.Instrs {
				st, ok := in.(*ssa.Store)
				if !ok {
					continue
				}
				if c09Same(st.Addr, base) && c09WholeClears(st, base, q) {
					all := true
					for _, rt := range rets {
						if !core.Dominates(st, rt) {
							all = false
						}
					}
					if all {
						cleared = true
					}
					continue
				}
				fa, ok := st.Addr.(*ssa.FieldAddr)
				if !ok || core.FieldOfAddr(fa) != q || !c09Same(fa.X, base) || !c09IsClearing(st) {
					continue
				}
				all := true
				for _, rt := range rets {
					if !core.Dominates(st, rt) {
						all = false
					}
				}
				if all {
					cleared = true
				}
			}
		}
		if !cleared {
			return false, "field " + q.Name() + " is not cleared"
		}
	}
	return true, ""
}

// protocolB: consume-before-refill with a validity flag. Returns (true, flag, "") when it holds; (false, nil, "") when
// the holder has no such flag; (false, flag, why) when a flag guards some refill but the discipline is broken.
func (r *c09rules) protocolB(T *types.Named, h *types.Var, sites []*ssa.Call) (bool, *types.Var, string) {
	S, ok := h.Type().Underlying().(*types.Struct)
	if !ok {
		return false, nil, ""
	}
	guardOf := func(site *ssa.Call, v *types.Var) bool {
		f := site.Parent()
		if len(f.Params) == 0 {
			return false
		}
		recv := ssa.Value(f.Params[0])
		for _, b := range f.Blocks {
			ifi, ok := b.Instrs[len(b.Instrs)-1].(*ssa.If)
			if !ok {
				continue
			}
			cond, neg := ifi.Cond, false
			if u, ok := cond.(*ssa.UnOp); ok && u.Op == token.NOT {
				cond, neg = u.X, true
			}
			isFlag := func(x ssa.Value, rc ssa.Value) bool {
				ld, ok := x.(*ssa.UnOp)
				if !ok || ld.Op != token.MUL {
					return false
				}
				fa, ok := ld.X.(*ssa.FieldAddr)
				if !ok || core.FieldOfAddr(fa) != v {
					return false
				}
				fh, ok := fa.X.(*ssa.FieldAddr)
				return ok && core.FieldOfAddr(fh) == h && fh.X == rc
			}
			good := isFlag(cond, recv)
			if call, ok := cond.(*ssa.Call); ok && !good {
				// accessor of the same receiver that returns the flag
				if g := call.Call.StaticCallee(); g != nil && g.Blocks != nil && len(call.Call.Args) == 1 && call.Call.Args[0] == recv && len(g.Params) == 1 {
					rets := c19Returns(g)
					if len(rets) == 1 && len(rets[0].Results) == 1 && isFlag(rets[0].Results[0], g.Params[0]) && len(core.Writes(g)) == 0 {
						good = true
					}
				}
			}
			if !good {
				continue
			}
			invalid := b.Succs[1]
			if neg {
				invalid = b.Succs[0]
			}
			if len(invalid.Preds) == 1 && (invalid == site.Block() || invalid.Dominates(site.Block())) {
				return true
			}
		}
		return false
	}
	for _, v := range c09BoolFields(S) {
		n := 0
		for _, s := range sites {
			if guardOf(s, v) {
				n++
			}
		}
		if n == 0 {
			continue
		}
		if n < len(sites) {
			for _, s := range sites {
				if !guardOf(s, v) {
					return false, v, fmt.Sprintf("the refill %s in %s is not dominated by a test that %s.%s is false", c09CalleeName(s), core.FuncKey(s.Parent()), h.Name(), v.Name())
				}
			}
		}
		// every store of a non-true value to the flag is part of a full reset
		for _, g := range r.t.fns {
			for _, w := range core.Writes(g) {
				if w.Kind != "field" || w.Field != v {
					continue
				}
				if k, ok := w.Val.(*ssa.Const); ok && k.Value != nil && k.Value.ExactString() == "true" {
					continue
				}
				fa := w.Instr.(*ssa.Store).Addr.(*ssa.FieldAddr)
				if _, root, _ := c09AddrRoot(fa); c09IsLocal(root) {
					continue
				}
				if k, ok := w.Val.(*ssa.Const); !ok || k.Value == nil || k.Value.ExactString() != "false" {
					return false, v, "the flag is assigned a non-constant value in " + core.FuncKey(g)
				}
				if ok, why := r.clearsAll(g, fa.X, S); !ok {
					return false, v, fmt.Sprintf("%s invalidates a %s but %s: a stale slice of the decoder's buffer stays reachable", core.FuncKey(g), core.NamedOf(h.Type()).Obj().Name(), why)
				}
			}
		}
		return true, v, ""
	}
	return false, nil, ""
}

// c09copyInfo describes the copy-before-refill structure of one function.
type c09copyInfo struct {
	blocks map[*ssa.BasicBlock]bool    // blocks that replace the holder's last element by a make+copy of itself
	excuse map[[2]*ssa.BasicBlock]bool // edges on which the holder is empty or its last element is already copied
	flag   *types.Var
}

// copyInfo finds the verified copy blocks and excusing edges of f for holder h (a field of f's receiver).
func (r *c09rules) copyInfo(f *ssa.Function, h *types.Var, flag *types.Var) *c09copyInfo {
	ci := &c09copyInfo{blocks: map[*ssa.BasicBlock]bool{}, excuse: map[[2]*ssa.BasicBlock]bool{}, flag: flag}
	if f.Parent() != nil || len(f.Params) == 0 || f.Blocks == nil {
		return ci
	}
	recv := ssa.Value(f.Params[0])
	isHolderLoad := func(v ssa.Value) bool {
		u, ok := v.(*ssa.UnOp)
		if !ok || u.Op != token.MUL {
			return false
		}
		fa, ok := u.X.(*ssa.FieldAddr)
		return ok && core.FieldOfAddr(fa) == h && fa.X == recv
	}
	isLen := func(v ssa.Value) bool {
		call, ok := v.(*ssa.Call)
		if !ok {
			return false
		}
		bi, ok := call.Call.Value.(*ssa.Builtin)
		return ok && bi.Name() == "len" && isHolderLoad(call.Call.Args[0])
	}
	isLast := func(v ssa.Value) bool {
		bo, ok := v.(*ssa.BinOp)
		if !ok || bo.Op != token.SUB || !isLen(bo.X) {
			return false
		}
		k, ok := bo.Y.(*ssa.Const)
		return ok && k.Value != nil && k.Value.ExactString() == "1"
	}
	isLastElem := func(v ssa.Value) bool {
		ia, ok := v.(*ssa.IndexAddr)
		return ok && isHolderLoad(ia.X) && isLast(ia.Index)
	}
	for _, b := range f.Blocks {
		for _, in := range b.Instrs {
			st, ok := in.(*ssa.Store)
			if !ok {
				continue
			}
			fa, ok := st.Addr.(*ssa.FieldAddr)
			if !ok || !isLastElem(fa.X) {
				continue
			}
			mk, ok := st.Val.(*ssa.MakeSlice)
			if !ok {
				continue
			}
			isSelfLoad := func(v ssa.Value) bool {
				u, ok := v.(*ssa.UnOp)
				return ok && u.Op == token.MUL && c09Same(u.X, fa)
			}
			lenOK := false
			if lc, ok := mk.Len.(*ssa.Call); ok {
				if bi, ok := lc.Call.Value.(*ssa.Builtin); ok && bi.Name() == "len" && isSelfLoad(lc.Call.Args[0]) {
					lenOK = true
				}
			}
			copied := false
			for _, u := range core.Referrers(mk) {
				if call, ok := u.(*ssa.Call); ok {
					if bi, ok := call.Call.Value.(*ssa.Builtin); ok && bi.Name() == "copy" && call.Call.Args[0] == ssa.Value(mk) && isSelfLoad(call.Call.Args[1]) && core.Dominates(call, st) {
						copied = true
					}
				}
			}
			if !lenOK || !copied {
				continue
			}
			// the flag is set in the same block on the same element
			for _, in2 := range b.Instrs {
				st2, ok := in2.(*ssa.Store)
				if !ok {
					continue
				}
				fa2, ok := st2.Addr.(*ssa.FieldAddr)
				if !ok || !c09Same(fa2.X, fa.X) {
					continue
				}
				if k, ok := st2.Val.(*ssa.Const); ok && k.Value != nil && k.Value.ExactString() == "true" {
					fl := core.FieldOfAddr(fa2)
					if ci.flag == nil || ci.flag == fl {
						ci.flag = fl
						ci.blocks[b] = true
					}
				}
			}
		}
	}
	for _, b := range f.Blocks {
		ifi, ok := b.Instrs[len(b.Instrs)-1].(*ssa.If)
		if !ok {
			continue
		}
		cond, neg := ifi.Cond, false
		if u, ok := cond.(*ssa.UnOp); ok && u.Op == token.NOT {
			cond, neg = u.X, true
		}
		if bo, ok := cond.(*ssa.BinOp); ok {
			if _, emptySucc, okT := a5LenTest(bo, isLen); okT && emptySucc >= 0 {
				if neg {
					emptySucc = 1 - emptySucc
				}
				ci.excuse[[2]*ssa.BasicBlock{b, b.Succs[emptySucc]}] = true
			}
			continue
		}
		if ld, ok := cond.(*ssa.UnOp); ok && ld.Op == token.MUL && ci.flag != nil {
			if fa, ok := ld.X.(*ssa.FieldAddr); ok && core.FieldOfAddr(fa) == ci.flag && isLastElem(fa.X) {
				set := 0 // successor on which the flag is true
				if neg {
					set = 1
				}
				ci.excuse[[2]*ssa.BasicBlock{b, b.Succs[set]}] = true
			}
		}
	}
	return ci
}

// c09Unprotected: the blocks reachable from the entry without passing a copy block or an excusing edge.
func c09Unprotected(f *ssa.Function, ci *c09copyInfo, extra map[*ssa.BasicBlock]bool) map[*ssa.BasicBlock]bool {
	seen := map[*ssa.BasicBlock]bool{}
	var walk func(b *ssa.BasicBlock)
	walk = func(b *ssa.BasicBlock) {
		if seen[b] || ci.blocks[b] || extra[b] {
			return
		}
		seen[b] = true
		for _, s := range b.Succs {
			if !ci.excuse[[2]*ssa.BasicBlock{b, s}] {
				walk(s)
			}
		}
	}
	walk(f.Blocks[0])
	return seen
}

// protocolA: copy-before-refill on a slice-of-struct holder. results[i] is "" when site i is protected.
func (r *c09rules) protocolA(T *types.Named, h *types.Var, sites []*ssa.Call) (bool, []string, string) {
	sl, ok := h.Type().Underlying().(*types.Slice)
	if !ok {
		return false, nil, ""
	}
	if _, ok := sl.Elem().Underlying().(*types.Struct); !ok {
		return false, nil, ""
	}
	results := make([]string, len(sites))
	copyBlocks := map[*ssa.BasicBlock]bool{}
	var flag *types.Var
	// helpers of the same reader that establish "the last element is a copy" on every return
	ensures := map[*ssa.Function]bool{}
	for _, g := range r.t.fns {
		if rn := c09RecvNamed(g); rn == nil || !types.Identical(rn, T) || g.Parent() != nil {
			continue
		}
		ci := r.copyInfo(g, h, flag)
		if len(ci.blocks) == 0 {
			continue
		}
		if flag == nil {
			flag = ci.flag
		}
		for b := range ci.blocks {
			copyBlocks[b] = true
		}
		un := c09Unprotected(g, ci, nil)
		all := true
		for _, rt := range c19Returns(g) {
			if un[rt.Block()] {
				all = false
			}
		}
		ensures[g] = all
	}
	if len(copyBlocks) == 0 {
		return false, results, ""
	}
	for i, site := range sites {
		f := site.Parent()
		if f.Parent() != nil || len(f.Params) == 0 {
			results[i] = "refill inside a closure"
			continue
		}
		ci := r.copyInfo(f, h, flag)
		extra := map[*ssa.BasicBlock]bool{}
		sameBlockOK := false
		for _, cj := range core.Calls(f) {
			g := cj.Common().StaticCallee()
			if g == nil || !ensures[g] || len(cj.Common().Args) == 0 || cj.Common().Args[0] != ssa.Value(f.Params[0]) {
				continue
			}
			if cj.Block() == site.Block() {
				if core.Dominates(cj, site) {
					sameBlockOK = true
				}
				continue
			}
			extra[cj.Block()] = true
		}
		if sameBlockOK {
			continue
		}
		if len(ci.blocks) == 0 && len(extra) == 0 {
			results[i] = "no block that replaces the last element of " + h.Name() + " by a make+copy of itself precedes the refill " + c09CalleeName(site)
			continue
		}
		if c09Unprotected(f, ci, extra)[site.Block()] {
			results[i] = "the refill " + c09CalleeName(site) + " is reachable from the entry of " + core.FuncKey(f) + " on a path that neither copies the last borrowed element of " + h.Name() + " nor shows that it is absent or already copied"
		}
	}
	// the flag is set only inside verified copy blocks
	for _, g := range r.t.fns {
		for _, w := range core.Writes(g) {
			if w.Kind != "field" || w.Field != flag {
				continue
			}
			if k, ok := w.Val.(*ssa.Const); ok && k.Value != nil && k.Value.ExactString() == "false" {
				continue
			}
			if !copyBlocks[w.Instr.Block()] {
				return false, results, "the flag " + flag.Name() + " is set in " + core.FuncKey(g) + " outside a block that performs the copy"
			}
		}
	}
	return true, results, ""
}

// isResetFn: g clears, through its pointer parameter number pi, every borrow-holding field of S.
func (r *c09rules) isResetFn(g *ssa.Function, pi int, S *types.Struct) bool {
	if g == nil || g.Blocks == nil || pi >= len(g.Params) {
		return false
	}
	ok, _ := r.clearsAll(g, g.Params[pi], S)
	return ok
}

// fillThroughPointer: protocol C.
func (r *c09rules) fillThroughPointer(ev *c09Event, p *ssa.Parameter, key string) {
	c := r.c
	F := ev.Fn
	pos := core.InstrPos(ev.Instr)
	pt, ok := p.Type().Underlying().(*types.Pointer)
	var S *types.Struct
	if ok {
		S, _ = pt.Elem().Underlying().(*types.Struct)
	}
	if S == nil {
		c.Unknown("R09a", key, pos, "borrowed value stored through parameter "+p.Name()+" which is not a pointer to a struct")
		return
	}
	sname := types.TypeString(pt.Elem(), func(*types.Package) string { return "" })
	// (i) reset first - in the storing function, or in the function(s) that hand it their own pointer parameter
	pi := -1
	for i, fp := range F.Params {
		if fp == p {
			pi = i
		}
	}
	type root struct {
		fn *ssa.Function
		pi int
	}
	var roots []root
	var climb func(f *ssa.Function, i int, depth int) string
	climb = func(f *ssa.Function, i int, depth int) string {
		q := f.Params[i]
		var reset *ssa.Call
		for _, u := range core.Referrers(q) {
			call, ok := u.(*ssa.Call)
			if !ok {
				continue
			}
			g := call.Call.StaticCallee()
			for j, a := range call.Call.Args {
				if a == ssa.Value(q) && r.isResetFn(g, j, S) {
					reset = call
				}
			}
		}
		if reset != nil {
			for _, u := range core.Referrers(q) {
				if u == ssa.Instruction(reset) {
					continue
				}
				if _, ok := u.(*ssa.DebugRef); ok {
					continue
				}
				if !core.Dominates(reset, u) {
					return q.Name() + " is used in " + core.FuncKey(f) + " before it is reset"
				}
			}
			roots = append(roots, root{f, i})
			return ""
		}
		if depth >= 3 {
			return "the " + sname + " filled through " + p.Name() + " is not reset first: slices of the previous token stay mixed with the new one"
		}
		n := 0
		for _, M := range r.t.fns {
			for _, ci := range core.Calls(M) {
				if ci.Common().StaticCallee() != f || i >= len(ci.Common().Args) {
					continue
				}
				n++
				qq, ok := ci.Common().Args[i].(*ssa.Parameter)
				if !ok {
					return "the " + sname + " filled through " + p.Name() + " is not reset first: slices of the previous token stay mixed with the new one"
				}
				for j, mp := range M.Params {
					if mp == qq {
						if why := climb(M, j, depth+1); why != "" {
							return why
						}
					}
				}
			}
		}
		if n == 0 {
			return "the " + sname + " filled through " + p.Name() + " is not reset first: slices of the previous token stay mixed with the new one"
		}
		return ""
	}
	if why := climb(F, pi, 0); why != "" {
		c.Bad("R09a", key, pos, why)
		return
	}
	// (ii) callers: the filled object is a field of the caller's receiver, read only after a fill
	for _, rt := range roots {
		if !r.fillCallers(ev, rt.fn, rt.pi, S, key) {
			return
		}
	}
	c.OK("R09a", key, pos, "reset-on-fill: "+p.Name()+" is reset before use; callers read the filled "+sname+" only after a fill in the same activation")
}

// fillCallers: part (ii) of protocol C for the filler function F (parameter pi).
func (r *c09rules) fillCallers(ev *c09Event, F *ssa.Function, pi int, S *types.Struct, key string) bool {
	c := r.c
	pos := core.InstrPos(ev.Instr)
	ncall := 0
	for _, M := range r.t.fns {
		for _, ci := range core.Calls(M) {
			if ci.Common().StaticCallee() != F || pi >= len(ci.Common().Args) {
				continue
			}
			ncall++
			// the filled object: a struct-valued field of the caller's receiver (possibly inside embedded structs), or
			// the struct behind a pointer field that is set once, to a fresh object, outside the reader's methods
			chainOf := func(fn *ssa.Function, v ssa.Value) ([]*types.Var, bool) {
				if len(fn.Params) == 0 || fn.Signature.Recv() == nil {
					return nil, false
				}
				if _, isFA := v.(*ssa.FieldAddr); !isFA {
					return nil, false
				}
				fields, root, exact := c09AddrRoot(v)
				if !exact || root != ssa.Value(fn.Params[0]) || len(fields) == 0 {
					return nil, false
				}
				for cur := v; ; {
					fa, ok := cur.(*ssa.FieldAddr)
					if !ok {
						break
					}
					cur = fa.X
					if _, isIdx := cur.(*ssa.IndexAddr); isIdx {
						return nil, false
					}
				}
				return fields, true
			}
			sameChain := func(x, y []*types.Var) bool {
				if len(x) != len(y) {
					return false
				}
				for i := range x {
					if x[i] != y[i] {
						return false
					}
				}
				return true
			}
			arg := ci.Common().Args[pi]
			chain, ok := chainOf(M, arg)
			viaPtr := false
			if !ok {
				if ld, isLd := arg.(*ssa.UnOp); isLd && ld.Op == token.MUL {
					if chain, ok = chainOf(M, ld.X); ok {
						viaPtr = true
					}
				}
			}
			if !ok {
				if al, ok := arg.(*ssa.Alloc); ok && !al.Heap {
					continue // a local of the caller: dies with the activation unless it flows on (tracked)
				}
				c.Unknown("R09a", key, core.InstrPos(ci), "filled object is not a field of the caller's receiver")
				return false
			}
			g := chain[len(chain)-1]
			T := c09RecvNamed(M)
			if viaPtr {
				// pointer stability: the field is only ever assigned a fresh object, and never in a method of T
				for _, W := range r.t.fns {
					for _, w := range core.Writes(W) {
						if w.Kind != "field" || w.Field != g {
							continue
						}
						if rn := c09RecvNamed(W); rn != nil && types.Identical(rn, T) {
							c.Unknown("R09a", key, w.Pos, fmt.Sprintf("%s reassigns the pointer %s.%s through which the tokenizer fills its result: the holder is no longer one object", core.FuncKey(W), T.Obj().Name(), g.Name()))
							return false
						}
						if _, fresh := w.Val.(*ssa.Alloc); !fresh {
							c.Unknown("R09a", key, w.Pos, fmt.Sprintf("%s.%s is not assigned a freshly allocated object in %s", T.Obj().Name(), g.Name(), core.FuncKey(W)))
							return false
						}
					}
				}
			}
			for _, M2 := range r.t.fns {
				if rn := c09RecvNamed(M2); rn == nil || !types.Identical(rn, T) || M2.Parent() != nil {
					continue
				}
				var fills []ssa.Instruction
				var uses []ssa.Instruction
				for _, b := range M2.Blocks {
					for _, in := range b.Instrs {
						fa2, ok := in.(*ssa.FieldAddr)
						if !ok {
							continue
						}
						if ch2, ok := chainOf(M2, fa2); !ok || !sameChain(ch2, chain) {
							continue
						}
						// the values that denote the holder object in M2
						var refs []ssa.Value
						if !viaPtr {
							refs = []ssa.Value{fa2}
						} else {
							for _, u := range core.Referrers(fa2) {
								switch y := u.(type) {
								case *ssa.UnOp:
									if y.Op == token.MUL {
										refs = append(refs, y)
									}
								case *ssa.DebugRef:
								default:
									uses = append(uses, u)
								}
							}
						}
						for _, rv := range refs {
							for _, u := range core.Referrers(rv) {
								if call, ok := u.(ssa.CallInstruction); ok {
									cg := call.Common().StaticCallee()
									isFill := false
									for i, a := range call.Common().Args {
										if a != rv {
											continue
										}
										if (cg == F && i == pi) || r.isResetFn(cg, i, S) {
											isFill = true
										}
									}
									if isFill {
										fills = append(fills, call)
										continue
									}
								}
								if _, ok := u.(*ssa.DebugRef); ok {
									continue
								}
								uses = append(uses, u)
							}
						}
					}
				}
				for _, u := range uses {
					dom := false
					for _, fl := range fills {
						if core.Dominates(fl, u) {
							dom = true
						}
					}
					if st, ok := u.(*ssa.Store); ok && len(r.t.tok(st.Val)) == 0 {
						dom = true // overwritten with fresh data (constructor)
					}
					if !dom {
						c.Bad("R09a", key, core.InstrPos(u), fmt.Sprintf("%s reads %s.%s without filling it in the same activation: it may hold slices of a token the scanner has since overwritten", core.FuncKey(M2), T.Obj().Name(), g.Name()))
						return false
					}
				}
			}
		}
	}
	if ncall == 0 {
		c.Unknown("R09a", key, pos, "no static caller of "+core.FuncKey(F)+" found")
		return false
	}
	return true
}
