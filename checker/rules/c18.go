package rules

import (
	"fmt"
	"go/constant"
	"go/token"
	"go/types"
	"reflect"
	"sort"
	"strings"

	"golang.org/x/tools/go/ssa"

	"omnilint/core"
)

func init() {
	register(&RuleSet{
		Prop:  "C18",
		Title: "Declared input encodings and byte-order marks are handled transparently",
		Explanation: "R18a accepted set = implemented set: the `enum` of the `encoding` property in the JSON-schema constant that NewSchema hands to SchemaValidate (A7: constant evaluated with go/constant, parsed, queried by JSON pointer) equals the key set of the decoder table of package header (the package-level map[string]func(io.Reader) io.Reader, entries read from the SSA of the package initialiser); the table is written only by the initialiser and only ever indexed; the Go field read by WrapEncoding carries the json tag of that schema property; " +
			"R18b each key selects its namesake: the closure stored under `utf-8` returns its parameter, every other closure returns (*encoding.Decoder).Reader(G.NewDecoder(), r) on its own parameter where G is the x/text charmap variable whose identifier equals the key up to case and punctuation; WrapEncoding indexes the table with StrPtrOrElse(<encoding field>, <key of the identity entry>), falls back to the identity entry, and returns the selected function applied to its input parameter; " +
			"R18c order of the reader stack in NewTransform: StripBOM's argument is the result of WrapEncoding(input) on the schema's own parser settings, the reader handed to NewIngester is StripBOM's result, the raw input has no other use, and every built-in SchemaHandler.NewIngester passes its reader only to CreateFormatReader.",
		NotDecided: "per-byte equality of the decoders with the code pages (incl. the five bytes undefined in windows-1252) is delegated to golang.org/x/text; a BOM split across reads (bufio.ReadRune inside ios.StripBOM); delimiters/quotes/newlines produced by decoding; format readers registered by callers.",
		Trusted:    append([]string{"golang.org/x/text/encoding/charmap decoders implement their code pages", "ios.StripBOM removes exactly one leading U+FEFF of the stream it is given", "gojsonschema enforces `enum`"}, commonTrusted...),
		Run:        runC18,
	})
	control(Control{ID: "c18-enum-only-utf16", Prop: "C18", File: "validation/parserSettings.go",
		Old: `"enum": [ "utf-8", "iso-8859-1", "windows-1252" ]`, New: `"enum": [ "utf-8", "iso-8859-1", "windows-1252", "utf-16" ]`,
		Rule: "R18a", Substr: "utf-16", Why: "validation accepts an encoding the decoder table does not implement (silently read as UTF-8)"})
	control(Control{ID: "c18-table-entry-removed", Prop: "C18", File: "header/header.go",
		Old: "\tencodingWindows1252: func(r io.Reader) io.Reader { return charmap.Windows1252.NewDecoder().Reader(r) },\n", New: "",
		Rule: "R18a", Substr: "windows-1252", Why: "an accepted encoding lost its decoder"})
	control(Control{ID: "c18-wrong-charmap", Prop: "C18", File: "header/header.go",
		Old: "charmap.Windows1252.NewDecoder().Reader(r)", New: "charmap.ISO8859_1.NewDecoder().Reader(r)",
		Rule: "R18b", Substr: "windows-1252", Why: "windows-1252 decoded with the ISO-8859-1 table"})
	control(Control{ID: "c18-default-not-utf8", Prop: "C18", File: "header/header.go",
		Old: "strs.StrPtrOrElse(p.Encoding, encodingUTF8)", New: "strs.StrPtrOrElse(p.Encoding, encodingISO8859_1)",
		Rule: "R18b", Substr: "WrapEncoding", Why: "an absent encoding no longer means pass-through"})
	control(Control{ID: "c18-bom-before-decoding", Prop: "C18", File: "schema.go",
		Old:  "\tbr, err := ios.StripBOM(s.header.ParserSettings.WrapEncoding(input))\n\tif err != nil {\n\t\treturn nil, err\n\t}\n",
		New:  "\tbr, err := ios.StripBOM(input)\n\tif err != nil {\n\t\treturn nil, err\n\t}\n\tbr = s.header.ParserSettings.WrapEncoding(br)\n",
		Rule: "R18c", Substr: "StripBOM", Why: "BOM stripped from the raw bytes before decoding"})
	control(Control{ID: "c18-raw-input-to-handler", Prop: "C18", File: "schema.go",
		Old: "ingester, err := s.handler.NewIngester(ctx, br)", New: "_ = br\n\tingester, err := s.handler.NewIngester(ctx, input)",
		Rule: "R18c", Substr: "NewIngester", Why: "the handler reads the undecoded, BOM-carrying input"})
}

const (
	c18IosPkg      = "github.com/jf-tech/go-corelib/ios"
	c18StrsPkg     = "github.com/jf-tech/go-corelib/strs"
	c18EncodingPkg = "golang.org/x/text/encoding"
	c18IdentityKey = "utf-8" // public schema surface: declaring utf-8 means pass-through
)

func c18IsIOReader(t types.Type) bool {
	n, ok := types.Unalias(t).(*types.Named)
	return ok && n.Obj().Pkg() != nil && n.Obj().Pkg().Path() == "io" && n.Obj().Name() == "Reader"
}

// c18IsReaderMapper: func(io.Reader) io.Reader (possibly a named func type).
func c18IsReaderMapper(t types.Type) bool {
	sig, ok := t.Underlying().(*types.Signature)
	return ok && sig.Recv() == nil && sig.Params().Len() == 1 && sig.Results().Len() == 1 &&
		c18IsIOReader(sig.Params().At(0).Type()) && c18IsIOReader(sig.Results().At(0).Type())
}

func c18Norm(s string) string {
	var b strings.Builder
	for _, r := range strings.ToUpper(s) {
		if (r >= 'A' && r <= 'Z') || (r >= '0' && r <= '9') {
			b.WriteRune(r)
		}
	}
	return b.String()
}

func c18JSONTag(st *types.Struct, i int) string {
	tag := reflect.StructTag(st.Tag(i)).Get("json")
	if j := strings.IndexByte(tag, ','); j >= 0 {
		tag = tag[:j]
	}
	return tag
}

// c18FuncOf unwraps ChangeType / MakeClosure to the function stored as a table value.
func c18FuncOf(v ssa.Value) *ssa.Function {
	for {
		switch x := v.(type) {
		case *ssa.ChangeType:
			v = x.X
		case *ssa.MakeClosure:
			if len(x.Bindings) > 0 {
				return nil // captures state: not a pure mapping
			}
			f, _ := x.Fn.(*ssa.Function)
			return f
		case *ssa.Function:
			return x
		default:
			return nil
		}
	}
}

type c18entry struct {
	key string
	fn  *ssa.Function
	pos token.Pos
	env map[*ssa.FreeVar]ssa.Value // closure made by a factory: free variable -> the factory call's argument
	// classification
	identity bool
	charmap  *ssa.Global
	why      string
}

// c18Builder: v is the result of a call to a parameterless, straight-line repository function that returns a map it
// made itself, and that call is the function's only call site in the repository.
func c18Builder(c *core.Ctx, v ssa.Value) (*ssa.MakeMap, *ssa.Function) {
	call, ok := v.(*ssa.Call)
	if !ok {
		return nil, nil
	}
	g := call.Call.StaticCallee()
	if g == nil || g.Blocks == nil || len(g.Blocks) != 1 || len(g.Params) != 0 || !core.InRepo(core.FuncPkg(g)) {
		return nil, nil
	}
	rets := c19Returns(g)
	if len(rets) != 1 || len(rets[0].Results) != 1 {
		return nil, nil
	}
	mm, ok := rets[0].Results[0].(*ssa.MakeMap)
	if !ok {
		return nil, nil
	}
	sites := 0
	for _, f := range c.RepoFunctions() {
		for _, b := range f.Blocks {
			for _, in := range b.Instrs {
				for _, op := range in.Operands(nil) {
					if *op == ssa.Value(g) {
						sites++
					}
				}
			}
		}
	}
	if sites != 1 {
		return nil, nil
	}
	return mm, g
}

// c18Factory: the table value is the result of calling a repository function that returns a closure over (only) its
// own parameters; returns the closure body and, per free variable, the argument passed at this call.
func c18Factory(v ssa.Value) (*ssa.Function, map[*ssa.FreeVar]ssa.Value) {
	for {
		if ct, ok := v.(*ssa.ChangeType); ok {
			v = ct.X
			continue
		}
		break
	}
	call, ok := v.(*ssa.Call)
	if !ok {
		return nil, nil
	}
	g := call.Call.StaticCallee()
	if g == nil || g.Blocks == nil || !core.InRepo(core.FuncPkg(g)) || len(g.Params) != len(call.Call.Args) {
		return nil, nil
	}
	rets := c19Returns(g)
	if len(rets) != 1 || len(rets[0].Results) != 1 {
		return nil, nil
	}
	rv := rets[0].Results[0]
	if ct, ok := rv.(*ssa.ChangeType); ok {
		rv = ct.X
	}
	mc, ok := rv.(*ssa.MakeClosure)
	if !ok {
		return nil, nil
	}
	fn, _ := mc.Fn.(*ssa.Function)
	if fn == nil || len(fn.FreeVars) != len(mc.Bindings) {
		return nil, nil
	}
	env := map[*ssa.FreeVar]ssa.Value{}
	for i, b := range mc.Bindings {
		// a captured parameter lives in a cell that is stored exactly once, from the parameter
		al, ok := b.(*ssa.Alloc)
		if !ok {
			return nil, nil
		}
		var src ssa.Value
		n := 0
		for _, u := range core.Referrers(al) {
			if st, ok := u.(*ssa.Store); ok && st.Addr == ssa.Value(al) {
				n++
				src = st.Val
			}
		}
		p, ok := src.(*ssa.Parameter)
		if n != 1 || !ok {
			return nil, nil
		}
		for j, gp := range g.Params {
			if gp == p {
				env[fn.FreeVars[i]] = call.Call.Args[j]
			}
		}
	}
	// the cells must not be written inside the closure
	for _, fv := range fn.FreeVars {
		for _, u := range core.Referrers(fv) {
			if st, ok := u.(*ssa.Store); ok && st.Addr == ssa.Value(fv) {
				return nil, nil
			}
		}
	}
	return fn, env
}

// c18Classify decides what the closure of a table entry returns.
func c18Classify(e *c18entry) {
	fn := e.fn
	if fn == nil || len(fn.Params) != 1 || fn.Blocks == nil {
		e.why = "table value is not a closure-free function literal of one parameter"
		return
	}
	param := ssa.Value(fn.Params[0])
	nret := 0
	allIdentity, allCharmap := true, true
	var gl *ssa.Global
	for _, b := range fn.Blocks {
		for _, in := range b.Instrs {
			rt, ok := in.(*ssa.Return)
			if !ok {
				continue
			}
			nret++
			v := core.Unwrap(rt.Results[0], true)
			if v == param {
				allCharmap = false
				continue
			}
			allIdentity = false
			call, ok := v.(*ssa.Call)
			if !ok || !core.IsCallTo(call, c18EncodingPkg, "Decoder.Reader") || len(call.Call.Args) != 2 || call.Call.Args[1] != param {
				e.why = "returns something other than its parameter or (*encoding.Decoder).Reader(decoder, parameter)"
				return
			}
			dec, ok := call.Call.Args[0].(*ssa.Call)
			var o *types.Func
			if ok {
				o = core.CalleeObj(dec)
			}
			if o == nil || o.Name() != "NewDecoder" || len(dec.Call.Args) != 1 {
				e.why = "decoder is not the result of <charmap>.NewDecoder()"
				return
			}
			ld, ok := dec.Call.Args[0].(*ssa.UnOp)
			var g *ssa.Global
			if ok && ld.Op == token.MUL {
				g, _ = ld.X.(*ssa.Global)
				if fv, isFV := ld.X.(*ssa.FreeVar); isFV && e.env != nil {
					// captured factory parameter: the argument of the factory call at the table entry
					if al, ok := e.env[fv].(*ssa.UnOp); ok && al.Op == token.MUL {
						g, _ = al.X.(*ssa.Global)
					}
				}
			}
			if g == nil || g.Pkg == nil || !strings.HasPrefix(g.Pkg.Pkg.Path(), c18EncodingPkg+"/") {
				e.why = "NewDecoder is not called on a package-level encoding of golang.org/x/text/encoding/..."
				return
			}
			if gl != nil && gl != g {
				e.why = "different encodings on different paths"
				return
			}
			gl = g
		}
	}
	switch {
	case nret == 0:
		e.why = "no return"
	case allIdentity:
		e.identity = true
	case allCharmap && gl != nil:
		e.charmap = gl
	default:
		e.why = "mixes pass-through and decoding returns"
	}
}

func runC18(c *core.Ctx) {
	hp := c.Pkg("header")
	root := c.Pkg("")
	if hp == nil || root == nil {
		c.Unresolved("R18", "packages", "package header or the root package not found")
		return
	}
	c.SSA()
	hssa := c.SSAPkg("header")

	// ---------------- roles
	// ParserSettings + its encoding field + WrapEncoding (exported API, by name)
	psObj, _ := hp.Types.Scope().Lookup("ParserSettings").(*types.TypeName)
	var psSt *types.Struct
	if psObj != nil {
		psSt, _ = psObj.Type().Underlying().(*types.Struct)
	}
	wrap := c.Method("header", "ParserSettings", "WrapEncoding")
	if psSt == nil || wrap == nil || len(wrap.Params) != 2 {
		c.Unresolved("R18", "header.ParserSettings.WrapEncoding", "exported type/method not found")
		return
	}
	// decoder table: package-level map[string]func(io.Reader) io.Reader
	var tables []*ssa.Global
	var memberNames []string
	for n := range hssa.Members {
		memberNames = append(memberNames, n)
	}
	sort.Strings(memberNames)
	for _, n := range memberNames {
		g, ok := hssa.Members[n].(*ssa.Global)
		if !ok {
			continue
		}
		mt, ok := g.Type().(*types.Pointer).Elem().Underlying().(*types.Map)
		if !ok {
			continue
		}
		if b, ok := mt.Key().Underlying().(*types.Basic); ok && b.Kind() == types.String && c18IsReaderMapper(mt.Elem()) {
			tables = append(tables, g)
		}
	}
	if len(tables) != 1 {
		c.Unresolved("R18", "decoder table", fmt.Sprintf("expected exactly one package-level map[string]func(io.Reader) io.Reader in package header, found %d", len(tables)))
		return
	}
	table := tables[0]
	tkey := "header." + table.Name()

	// ---------------- table contents from the initialiser; table only written there, only indexed elsewhere
	entries := map[string]*c18entry{}
	var keys []string
	tableOK := true
	initStores := 0
	for _, f := range c.RepoFunctions() {
		for _, b := range f.Blocks {
			for _, in := range b.Instrs {
				uses := false
				for _, op := range in.Operands(nil) {
					if *op == ssa.Value(table) {
						uses = true
					}
				}
				if !uses {
					continue
				}
				key := core.FuncKey(f) + " uses " + tkey
				switch x := in.(type) {
				case *ssa.Store:
					isInit := f.Synthetic != "" && f.Name() == "init" && core.FuncPkg(f) == hp.Types && x.Addr == ssa.Value(table)
					mm, isMake := x.Val.(*ssa.MakeMap)
					viaBuilder := ""
					if !isMake && isInit {
						// a table built by a straight-line function that is called only from this initialiser is the
						// same as a literal
						if bm, g := c18Builder(c, x.Val); bm != nil {
							mm, isMake, viaBuilder = bm, true, " (built by "+core.FuncKey(g)+", called only from the initialiser)"
						}
					}
					if !isInit || !isMake {
						tableOK = false
						c.Bad("R18a", key, core.InstrPos(in), "the decoder table is assigned outside the package initialiser (or not from a map literal): its key set is no longer a static fact")
						continue
					}
					initStores++
					for _, u := range core.Referrers(mm) {
						switch y := u.(type) {
						case *ssa.MapUpdate:
							k, ok := y.Key.(*ssa.Const)
							if !ok || k.Value == nil || k.Value.Kind() != constant.String {
								tableOK = false
								c.Bad("R18a", key, core.InstrPos(y), "table key is not a string constant")
								continue
							}
							ks := constant.StringVal(k.Value)
							if entries[ks] != nil {
								tableOK = false
								c.Bad("R18a", key, core.InstrPos(y), "duplicate table key "+ks)
								continue
							}
							e := &c18entry{key: ks, fn: c18FuncOf(y.Value), pos: core.InstrPos(y)}
							if e.fn == nil {
								e.fn, e.env = c18Factory(y.Value)
							}
							entries[ks] = e
							keys = append(keys, ks)
						case *ssa.Store, *ssa.DebugRef:
						case *ssa.Return:
							if viaBuilder == "" {
								tableOK = false
								c.Bad("R18a", key, core.InstrPos(u), "the map literal of the decoder table is used by something other than its own initialisation")
							}
						default:
							tableOK = false
							c.Bad("R18a", key, core.InstrPos(u), "the map literal of the decoder table is used by something other than its own initialisation")
						}
					}
					c.OK("R18a", key, core.InstrPos(in), "package initialiser stores the map literal"+viaBuilder)
				case *ssa.UnOp:
					good := x.Op == token.MUL
					for _, u := range core.Referrers(x) {
						switch u.(type) {
						case *ssa.Lookup, *ssa.DebugRef:
						default:
							good = false
						}
					}
					if !good {
						tableOK = false
					}
					c.Check(good, "R18a", key, core.InstrPos(in), "table value is only indexed", "the decoder table is updated, ranged over or passed on after initialisation: its key set is no longer a static fact")
				default:
					tableOK = false
					c.Bad("R18a", key, core.InstrPos(in), "address of the decoder table escapes")
				}
			}
		}
	}
	if initStores != 1 {
		c.Unresolved("R18a", "decoder table initialiser", fmt.Sprintf("expected one map-literal store in header.init, found %d", initStores))
		return
	}
	sort.Strings(keys)

	// ---------------- A7: the schema constant that NewSchema validates parser_settings with
	schemas, names, missing := a7Load(c)
	for _, m := range missing {
		c.Unresolved("R18a", "validation package "+m, "package not loaded")
	}
	var used []*a7Schema
	for _, f := range c.RepoFunctions() {
		if core.FuncPkg(f) != root.Types {
			continue
		}
		for _, ci := range core.Calls(f) {
			if !core.IsCallTo(ci, core.Mod+"/validation", "SchemaValidate") || len(ci.Common().Args) != 3 {
				continue
			}
			k, ok := ci.Common().Args[2].(*ssa.Const)
			if !ok || k.Value == nil || k.Value.Kind() != constant.String {
				c.Unknown("R18a", core.FuncKey(f)+" SchemaValidate schema argument", core.InstrPos(ci), "the JSON schema handed to SchemaValidate is not a constant: the accepted encodings cannot be read statically")
				continue
			}
			s := a7ByText(schemas, names, constant.StringVal(k.Value))
			if s == nil {
				s = a7Parse("<inline>", "", nil, constant.StringVal(k.Value))
			}
			used = append(used, s)
		}
	}
	var enum []string
	enumOK := false
	var psSchema *a7Schema
	encProp := ""
	if len(used) != 1 {
		c.Unresolved("R18a", "parser_settings JSON schema", fmt.Sprintf("expected exactly one SchemaValidate call with a constant schema in the root package, found %d", len(used)))
	} else if used[0].Err != nil {
		c.Bad("R18a", "validation."+used[0].Name+" parses as JSON", token.NoPos, "schema constant is not valid JSON: "+used[0].Err.Error())
	} else {
		psSchema = used[0]
		// the Go field WrapEncoding reads <-> schema property of the same json name
		c.Note("A7: parser_settings schema constant %s (%d bytes), %d JSONSchema* constants loaded", psSchema.Name, len(psSchema.Text), len(names))
	}

	// encoding field = the field of ParserSettings loaded in WrapEncoding and passed to the table lookup
	// (the read may sit in a helper of package header that WrapEncoding calls: g2EncodingField follows static calls)
	encTag := ""
	encField, encAmbiguous := g2EncodingField(wrap, hp.Types, psObj)
	if encAmbiguous {
		encTag = "<ambiguous>"
	}
	if encField != nil {
		for i := 0; i < psSt.NumFields(); i++ {
			if psSt.Field(i) == encField {
				encTag = c18JSONTag(psSt, i)
			}
		}
	}
	if encField == nil || encTag == "" {
		c.Unresolved("R18a", "encoding field of ParserSettings", "WrapEncoding does not read exactly one json-tagged field of ParserSettings ("+encTag+")")
	}
	if psSchema != nil && encTag != "" && encTag != "<ambiguous>" {
		ptrs := psSchema.a7PropertyPointers(encTag)
		if len(ptrs) != 1 {
			c.Bad("R18a", "validation."+psSchema.Name+" property "+encTag, token.NoPos, fmt.Sprintf("the schema declares the json property %q (the tag of the field WrapEncoding reads) %d times, expected once", encTag, len(ptrs)))
		} else {
			encProp = ptrs[0]
			enum, enumOK = psSchema.Strings(encProp + "/enum")
			c.Check(enumOK && len(enum) > 0, "R18a", "validation."+psSchema.Name+" "+encProp+"/enum", token.NoPos,
				fmt.Sprintf("enum %v constrains json property %q = struct field header.ParserSettings.%s", enum, encTag, encField.Name()),
				"the encoding property has no string enum: any string is accepted, only the table's keys are implemented")
			if ty, ok := psSchema.Pointer(encProp + "/type"); !ok || ty != "string" {
				c.Bad("R18a", "validation."+psSchema.Name+" "+encProp+"/type", token.NoPos, "encoding property is not of type string")
			}
		}
	}
	if enumOK && tableOK {
		inEnum := map[string]bool{}
		for _, e := range enum {
			inEnum[e] = true
			c.Check(entries[e] != nil, "R18a", fmt.Sprintf("enum value %q has a decoder in %s", e, tkey), table.Pos(),
				"table entry present", "validation accepts this encoding but the decoder table has no entry: the input would silently be read as UTF-8")
		}
		for _, k := range keys {
			c.Check(inEnum[k], "R18a", fmt.Sprintf("%s key %q is accepted by the schema enum", tkey, k), entries[k].pos,
				"listed in enum", "decoder exists but validation rejects the encoding")
		}
	}
	c.Floor("R18a", 8, "3 enum values, 3 table keys, enum presence, table store/uses")

	// ---------------- R18b namesakes
	identityKeys := map[string]bool{}
	for _, k := range keys {
		e := entries[k]
		c18Classify(e)
		con := fmt.Sprintf("%s[%q]", tkey, k)
		switch {
		case e.why != "":
			c.Unknown("R18b", con, e.pos, e.why)
		case k == c18IdentityKey:
			identityKeys[k] = e.identity
			c.Check(e.identity, "R18b", con, e.pos, "returns its parameter unchanged", "the utf-8 entry does not pass its input through unchanged")
		case e.identity:
			c.Bad("R18b", con, e.pos, "a non-utf-8 encoding is passed through undecoded")
		default:
			g := e.charmap
			c.Check(c18Norm(g.Name()) == c18Norm(k), "R18b", con, e.pos,
				fmt.Sprintf("decodes with %s.%s", g.Pkg.Pkg.Name(), g.Name()),
				fmt.Sprintf("decodes with %s.%s, which is not the code page the key names", g.Pkg.Pkg.Name(), g.Name()))
		}
	}
	if _, ok := entries[c18IdentityKey]; !ok && tableOK {
		c.Bad("R18b", fmt.Sprintf("%s[%q]", tkey, c18IdentityKey), table.Pos(), "no utf-8 entry")
	}
	g2WrapEncoding(c, wrap, hp.Types, table, encField, identityKeys)
	c.Floor("R18b", 6, "3 table entries, lookup key, fallback, application to input")

	// ---------------- R18c reader stack
	c18ReaderStack(c, root.Types, wrap)
	c.Floor("R18c", 4, "StripBOM argument, NewIngester argument, uses of input, handler -> format reader")
}

// c18ReaderStack checks NewTransform and the built-in NewIngester implementations.
func c18ReaderStack(c *core.Ctx, rootPkg *types.Package, wrap *ssa.Function) {
	schemaIface, _ := rootPkg.Scope().Lookup("Schema").(*types.TypeName)
	var nts []*ssa.Function
	if schemaIface != nil {
		if it, ok := schemaIface.Type().Underlying().(*types.Interface); ok {
			for _, n := range rootPkg.Scope().Names() {
				tn, ok := rootPkg.Scope().Lookup(n).(*types.TypeName)
				if !ok || tn == schemaIface || types.IsInterface(tn.Type()) {
					continue
				}
				if types.Implements(types.NewPointer(tn.Type()), it) || types.Implements(tn.Type(), it) {
					if f := c.MethodOfPkg(rootPkg, n, "NewTransform"); f != nil {
						nts = append(nts, f)
					}
				}
			}
		}
	}
	if len(nts) == 0 {
		c.Unresolved("R18c", "Schema.NewTransform implementation", "no type of the root package implements Schema")
		return
	}
	for _, nt := range nts {
		fk := core.FuncKey(nt)
		var input *ssa.Parameter
		for _, p := range nt.Params[1:] {
			if c18IsIOReader(p.Type()) {
				if input != nil {
					input = nil
					break
				}
				input = p
			}
		}
		if input == nil {
			c.Unresolved("R18c", fk+" input parameter", "not exactly one io.Reader parameter")
			continue
		}
		var ingests []ssa.CallInstruction
		for _, ci := range core.Calls(nt) {
			if ci.Common().IsInvoke() && ci.Common().Method.Name() == "NewIngester" {
				ingests = append(ingests, ci)
			}
		}
		// the function that builds the reader stack: NewTransform itself, or a helper of the same receiver that is
		// handed the input and returns StripBOM's result
		stackFn, stackIn := nt, input
		var helperCall *ssa.Call
		if len(c18Strips(nt)) == 0 {
			for _, u := range core.Referrers(input) {
				call, ok := u.(*ssa.Call)
				if !ok {
					continue
				}
				h := call.Call.StaticCallee()
				if h == nil || h.Blocks == nil || core.FuncPkg(h) != rootPkg || len(c18Strips(h)) != 1 || len(h.Params) != len(call.Call.Args) {
					continue
				}
				if h.Signature.Recv() == nil || call.Call.Args[0] != ssa.Value(nt.Params[0]) {
					continue
				}
				for i, a := range call.Call.Args {
					if a == ssa.Value(input) && c18IsIOReader(h.Params[i].Type()) {
						stackFn, stackIn, helperCall = h, h.Params[i], call
					}
				}
			}
		}
		strips := c18Strips(stackFn)
		var wraps []*ssa.Call
		for _, ci := range core.Calls(stackFn) {
			if call, ok := ci.(*ssa.Call); ok && call.Call.StaticCallee() == wrap {
				wraps = append(wraps, call)
			}
		}
		if len(strips) != 1 || len(ingests) == 0 {
			c.Unresolved("R18c", fk+" reader stack", fmt.Sprintf("expected one StripBOM call and a NewIngester call, found %d and %d", len(strips), len(ingests)))
			continue
		}
		strip := strips[0]
		// the value that denotes the stripped reader inside NewTransform
		isStripped := func(v ssa.Value) bool {
			ex, ok := v.(*ssa.Extract)
			if !ok || ex.Index != 0 {
				return false
			}
			if helperCall == nil {
				return ex.Tuple == ssa.Value(strip)
			}
			return ex.Tuple == ssa.Value(helperCall)
		}
		if helperCall != nil {
			// the helper returns StripBOM's reader (or nil) as its first result
			for _, rt := range c19Returns(stackFn) {
				v := rt.Results[0]
				ex, ok := v.(*ssa.Extract)
				if !(core.IsNilConst(v) || (ok && ex.Tuple == ssa.Value(strip) && ex.Index == 0)) {
					c.Bad("R18c", fk+" StripBOM argument", core.InstrPos(rt), "the helper "+core.FuncKey(stackFn)+" returns a reader other than StripBOM's result")
				}
			}
		}
		// (1) StripBOM(WrapEncoding(input)) on the schema's own settings
		good, why := false, "StripBOM is applied to something other than the result of WrapEncoding: a BOM would be looked for in undecoded bytes"
		if w, ok := strip.Call.Args[0].(*ssa.Call); ok && w.Call.StaticCallee() == wrap {
			switch {
			case w.Call.Args[1] != ssa.Value(stackIn):
				why = "WrapEncoding is not applied to the input parameter"
			case !c18SettingsOfReceiver(w.Call.Args[0], stackFn):
				why = "WrapEncoding is not called on the parser settings stored in the schema"
			default:
				good = true
			}
		}
		c.Check(good, "R18c", fk+" StripBOM argument", core.InstrPos(strip), "StripBOM(s.<header>.<settings>.WrapEncoding(input))", why)
		// (2) NewIngester gets StripBOM's reader
		for _, ci := range ingests {
			var rd ssa.Value
			n := 0
			for _, a := range ci.Common().Args {
				if c18IsIOReader(a.Type()) {
					rd = a
					n++
				}
			}
			c.Check(n == 1 && isStripped(rd), "R18c", fk+" NewIngester reader argument", core.InstrPos(ci),
				"the handler reads the decoded, BOM-stripped reader", "the reader handed to the schema handler is not the result of StripBOM")
		}
		// (3) the raw input has no other use
		other := 0
		pos := nt.Pos()
		count := func(p *ssa.Parameter, allowed func(call *ssa.Call) bool) {
			for _, u := range core.Referrers(p) {
				switch x := u.(type) {
				case *ssa.DebugRef:
				case *ssa.Call:
					if allowed(x) {
						continue
					}
					other++
					pos = core.InstrPos(u)
				default:
					other++
					pos = core.InstrPos(u)
				}
			}
		}
		isWrapOf := func(p *ssa.Parameter) func(*ssa.Call) bool {
			return func(x *ssa.Call) bool { return x.Call.StaticCallee() == wrap && x.Call.Args[1] == ssa.Value(p) }
		}
		if helperCall == nil {
			count(input, isWrapOf(input))
		} else {
			count(input, func(x *ssa.Call) bool { return x == helperCall })
			count(stackIn, isWrapOf(stackIn))
		}
		c.Check(other == 0 && len(wraps) == 1, "R18c", fk+" uses of the raw input", pos, "only use: argument of WrapEncoding",
			fmt.Sprintf("the raw input reader has %d use(s) besides the single WrapEncoding call (%d WrapEncoding calls): undecoded bytes can reach the handler", other, len(wraps)))
	}

	// (4) every built-in SchemaHandler.NewIngester hands its reader to CreateFormatReader only
	n := 0
	for _, f := range c.RepoFunctions() {
		if f.Name() != "NewIngester" || f.Signature.Recv() == nil || f.Synthetic != "" || core.IsCLIOrSample(core.FuncPkg(f)) {
			continue
		}
		var rd *ssa.Parameter
		for _, p := range f.Params[1:] {
			if c18IsIOReader(p.Type()) {
				rd = p
			}
		}
		if rd == nil {
			continue
		}
		n++
		good := true
		uses := 0
		pos := f.Pos()
		for _, u := range core.Referrers(rd) {
			switch x := u.(type) {
			case *ssa.DebugRef:
			case ssa.CallInstruction:
				if x.Common().IsInvoke() && x.Common().Method.Name() == "CreateFormatReader" {
					uses++
					continue
				}
				good, pos = false, core.InstrPos(u)
			default:
				good, pos = false, core.InstrPos(u)
			}
		}
		c.Check(good && uses == 1, "R18c", core.FuncKey(f)+" reader parameter", pos, "passed to FileFormat.CreateFormatReader only",
			"the handler uses the reader it is given other than by passing it once to CreateFormatReader")
	}
	if n == 0 {
		c.Unresolved("R18c", "SchemaHandler.NewIngester implementations", "none found in the library packages")
	}
}

// c18Strips: the ios.StripBOM calls of a function.
func c18Strips(f *ssa.Function) []*ssa.Call {
	var out []*ssa.Call
	for _, ci := range core.Calls(f) {
		if call, ok := ci.(*ssa.Call); ok && core.IsCallTo(ci, c18IosPkg, "StripBOM") {
			out = append(out, call)
		}
	}
	return out
}

// c18SettingsOfReceiver: v is loaded from a field path rooted at the method's receiver.
func c18SettingsOfReceiver(v ssa.Value, fn *ssa.Function) bool {
	steps, rootv := core.TraceAddr(v)
	if rootv != ssa.Value(fn.Params[0]) {
		return false
	}
	nf := 0
	for _, s := range steps {
		switch s.Kind {
		case "field":
			nf++
		case "load":
		default:
			return false
		}
	}
	return nf >= 1
}
