package rules

import (
	"fmt"
	"go/constant"
	"go/token"
	"go/types"
	"sort"
	"strings"

	"golang.org/x/tools/go/ssa"

	"omnilint/core"
)

func init() {
	register(&RuleSet{
		Prop:  "C07",
		Title: "EDI segments are tokenized exactly at unescaped delimiters",
		Explanation: "R07a one delimiter table: every delimiter and escape argument of the five cooperating sites of package edi - the segment scanner (ios.NewScannerByDelim*), the three strs.ByteSplitWithEsc levels (ordered by data flow: the split whose input comes from the token is the element level, the split fed by it the repetition level, the split fed by both the component level) and strs.ByteUnescape - is resolved backwards (A5: through reader struct fields, constructors, composite literals and newStrPtrByte-style helpers, call-site sensitive) to the json-tagged field of FileDecl it originates from and must be exactly segment_/element_/repetition_/component_delimiter resp. release_character; the optional levels are guarded by a len()!=0 test of the same delimiter (a dominating branch in the function or at every one of its call sites; the test itself may be hoisted into a local, a field, a bool parameter or a helper of the package); the bytes stripped from the token end (followed through helpers of the package that prepare the token) are len() of the segment delimiter, the scanner is configured to include the delimiter, and the strip is only applied to tokens known to end with it (constant scanner flags without EofAsDelim, or a dominating bytes.HasSuffix test against the segment delimiter); " +
			"R07b unescape exactly once: no ByteUnescape on any derivation path of a value stored into RawSegElem.Data (the stores are the tokenizer's output: the pieces of each of the three split levels reach RawSegElem.Data, whatever the number of stores and helpers), and exactly one on every derivation path from a load of RawSegElem.Data to the data of a text node (idr.CreateNode(TextNode, …)); " +
			"R07f ignore_crlf: in the function that builds the segment scanner the scanner's source is followed back through ios.NewBytesReplacingReader layers: on the alternative selected by the ignore_crlf field being set both the CR and the LF byte are replaced by nothing, on the other alternative nothing is removed; " +
			"R07c missing element: in the segment-to-node function every return with a non-nil error carries the reader's fatal type (the type asserted by IsContinuableError's predicate) and a nil node; the block reached when the element is missing, not empty_if_missing and without default ends in such a return without creating a node; text nodes not derived from raw data carry \"\" or *Elem.Default, and no text node mixes the two origins (the default never replaces a value present in the segment).",
		NotDecided: "where the bytes are actually split: correctness of ByteIndexWithEsc/ByteSplitWithEsc/ByteUnescape and of the scanner's buffer growth (go-corelib, trusted), multi-byte delimiters, correctness of BytesReplacingReader itself, the other CR/LF rules (CR-only tokens skipped, CR before an LF delimiter), that `found` is computed from the right index comparison; consumers of the exported NonValidatingReader outside the repository.",
		Trusted:    append([]string{"go-corelib strs.ByteSplitWithEsc / ByteIndexWithEsc / ByteUnescape and ios.NewScannerByDelim3 behave as documented for the (delimiter, escape) they are given", "encoding/json fills FileDecl fields according to their json tags"}, commonTrusted...),
		Run:        runC07,
	})
	const rd2 = "extensions/omniv21/fileformat/edi/reader2.go"
	const rd = "extensions/omniv21/fileformat/edi/reader.go"
	control(Control{ID: "c07-comp-split-nil-escape", Prop: "C07", File: rd2,
		Old: "strs.ByteSplitWithEsc(elemVal, r.compDelim.b, r.releaseChar.b, defaultCompsPerElem)", New: "strs.ByteSplitWithEsc(elemVal, r.compDelim.b, nil, defaultCompsPerElem)",
		Rule: "R07a", Substr: "component", Why: "component split ignores the release character"})
	control(Control{ID: "c07-rep-comp-swapped", Prop: "C07", File: rd2,
		Old: "\t\tcompDelim:   compDelim,\n\t\trepDelim:    repDelim,", New: "\t\tcompDelim:   repDelim,\n\t\trepDelim:    compDelim,",
		Rule: "R07a", Substr: "repetition", Why: "repetition and component delimiters swapped"})
	control(Control{ID: "c07-scanner-no-escape", Prop: "C07", File: rd2,
		Old: "ios.NewScannerByDelim3(r, segDelim.b, releaseChar.b, scannerFlags,", New: "ios.NewScannerByDelim3(r, segDelim.b, nil, scannerFlags,",
		Rule: "R07a", Substr: "scanner escape", Why: "segment scanner splits at escaped segment delimiters"})
	control(Control{ID: "c07-strip-elem-delim-len", Prop: "C07", File: rd2,
		Old: "noSegDelim := token[:len(token)-len(r.segDelim.b)]", New: "noSegDelim := token[:len(token)-len(r.elemDelim.b)]",
		Rule: "R07a", Substr: "strip", Why: "wrong number of bytes stripped from the token end"})
	control(Control{ID: "c07-eof-as-delim-unconditional-strip", Prop: "C07", File: rd,
		Old: "scannerFlags = ios.ScannerByDelimFlagEofNotAsDelim | ios.ScannerByDelimFlagIncludeDelimInReturn", New: "scannerFlags = ios.ScannerByDelimFlagEofAsDelim | ios.ScannerByDelimFlagIncludeDelimInReturn",
		Rule: "R07a", Substr: "strip is applied only to terminated tokens", Why: "an unterminated final segment is returned as a token but still loses len(delimiter) bytes"})
	control(Control{ID: "c07-ignore-crlf-not-applied", Prop: "C07", File: rd2,
		Old: "\tif decl.IgnoreCRLF {\n\t\tr = ios.NewBytesReplacingReader(r, crBytes, nil)\n\t\tr = ios.NewBytesReplacingReader(r, lfBytes, nil)\n\t}\n", New: "",
		Rule: "R07f", Substr: "ignore_crlf", Why: "CR/LF inside segments reach element values"})
	control(Control{ID: "c07-ignore-crlf-only-cr", Prop: "C07", File: rd2,
		Old: "\t\tr = ios.NewBytesReplacingReader(r, lfBytes, nil)\n", New: "",
		Rule: "R07f", Substr: "ignore_crlf", Why: "LF bytes are no longer removed"})
	control(Control{ID: "c07-crlf-always-removed", Prop: "C07", File: rd2,
		Old:  "\tif decl.IgnoreCRLF {\n\t\tr = ios.NewBytesReplacingReader(r, crBytes, nil)\n\t\tr = ios.NewBytesReplacingReader(r, lfBytes, nil)\n\t}\n",
		New:  "\tif decl.IgnoreCRLF {\n\t\tr = ios.NewBytesReplacingReader(r, crBytes, nil)\n\t}\n\tr = ios.NewBytesReplacingReader(r, lfBytes, nil)\n",
		Rule: "R07f", Substr: "ignore_crlf", Why: "LF dropped from values although ignore_crlf is not set"})
	control(Control{ID: "c07-unescape-twice", Prop: "C07", File: rd,
		Old: "string(strs.ByteUnescape(rawElem.Data, r.releaseChar.b, true))", New: "string(strs.ByteUnescape(strs.ByteUnescape(rawElem.Data, r.releaseChar.b, true), r.releaseChar.b, true))",
		Rule: "R07b", Substr: "rawSegToNode", Why: "data containing the release character is corrupted"})
	control(Control{ID: "c07-unescape-in-tokenizer", Prop: "C07", File: rd2,
		Old: "\t\t\t\t\t\tCompIndex: j + 1,\n\t\t\t\t\t\tData:      comp,", New: "\t\t\t\t\t\tCompIndex: j + 1,\n\t\t\t\t\t\tData:      strs.ByteUnescape(comp, r.releaseChar.b, false),",
		Rule: "R07b", Substr: "readToken", Why: "unescaped in the tokenizer and again on node creation"})
	control(Control{ID: "c07-no-unescape", Prop: "C07", File: rd,
		Old: "data := string(strs.ByteUnescape(rawElem.Data, r.releaseChar.b, true))", New: "data := string(rawElem.Data)",
		Rule: "R07b", Substr: "rawSegToNode", Why: "release characters leak into values"})
	control(Control{ID: "c07-missing-element-plain-error", Prop: "C07", File: rd,
		Old:  "\t\treturn nil, ErrInvalidEDI(\n\t\t\tr.fmtErrStr(\"unable to find element '%s' on segment '%s'\", elemDecl.Name, segDecl.fqdn))",
		New:  "\t\treturn nil, errors.New(\n\t\t\tr.fmtErrStr(\"unable to find element '%s' on segment '%s'\", elemDecl.Name, segDecl.fqdn))",
		Rule: "R07c", Substr: "rawSegToNode", Why: "a missing element becomes a continuable error"})
	control(Control{ID: "c07-missing-element-skipped", Prop: "C07", File: rd,
		Old:  "\t\treturn nil, ErrInvalidEDI(\n\t\t\tr.fmtErrStr(\"unable to find element '%s' on segment '%s'\", elemDecl.Name, segDecl.fqdn))",
		New:  "\t\t_ = r.fmtErrStr(\"unable to find element '%s' on segment '%s'\", elemDecl.Name, segDecl.fqdn)",
		Rule: "R07c", Substr: "rawSegToNode", Why: "a missing element is silently skipped"})
}

const (
	c07EdiRel  = "extensions/omniv21/fileformat/edi"
	c07StrsPkg = "github.com/jf-tech/go-corelib/strs"
	c07IosPkg  = "github.com/jf-tech/go-corelib/ios"
)

type c07roles struct {
	edi        *types.Package
	declOwner  *types.TypeName
	declTag    map[*types.Var]string // FileDecl field -> json tag
	dataFld    *types.Var            // RawSegElem.Data
	defFld     *types.Var            // Elem.Default
	emptyFld   *types.Var            // Elem.EmptyIfMissing
	fatal      map[*types.Named]bool
	createNode *ssa.Function
	textNode   string // exact constant value of idr.TextNode
}

func c07FieldsByTag(tn *types.TypeName) map[string]*types.Var {
	out := map[string]*types.Var{}
	st, ok := tn.Type().Underlying().(*types.Struct)
	if !ok {
		return out
	}
	for i := 0; i < st.NumFields(); i++ {
		if tag := c18JSONTag(st, i); tag != "" {
			out[tag] = st.Field(i)
		}
	}
	return out
}

func resolveC07(c *core.Ctx) *c07roles {
	p := c.Pkg(c07EdiRel)
	ip := c.Pkg("idr")
	if p == nil || ip == nil {
		c.Unresolved("R07", "packages", "package edi or idr not loaded")
		return nil
	}
	c.SSA()
	r := &c07roles{edi: p.Types, declTag: map[*types.Var]string{}, fatal: map[*types.Named]bool{}}
	want := []string{"segment_delimiter", "element_delimiter", "repetition_delimiter", "component_delimiter", "release_character"}
	// the declaration struct: the struct of package edi whose json tags include all five names
	sc := p.Types.Scope()
	for _, n := range sc.Names() {
		tn, ok := sc.Lookup(n).(*types.TypeName)
		if !ok {
			continue
		}
		byTag := c07FieldsByTag(tn)
		all := true
		for _, w := range want {
			if byTag[w] == nil {
				all = false
			}
		}
		if all {
			if r.declOwner != nil {
				c.Unresolved("R07a", "EDI file declaration struct", "more than one struct of package edi carries the five delimiter json tags")
				return nil
			}
			r.declOwner = tn
			for tag, f := range byTag {
				r.declTag[f] = tag
			}
		}
		if byTag["default"] != nil && byTag["empty_if_missing"] != nil {
			r.defFld, r.emptyFld = byTag["default"], byTag["empty_if_missing"]
		}
	}
	if r.declOwner == nil {
		c.Unresolved("R07a", "EDI file declaration struct", "no struct of package edi carries the json tags "+strings.Join(want, ", "))
		return nil
	}
	if r.defFld == nil {
		c.Unresolved("R07c", "EDI element declaration struct", "no struct with json tags default and empty_if_missing")
	}
	if tn, ok := sc.Lookup("RawSegElem").(*types.TypeName); ok {
		if st, ok := tn.Type().Underlying().(*types.Struct); ok {
			for i := 0; i < st.NumFields(); i++ {
				if st.Field(i).Name() == "Data" {
					r.dataFld = st.Field(i)
				}
			}
		}
	}
	if r.dataFld == nil {
		c.Unresolved("R07b", "edi.RawSegElem.Data", "exported field not found")
	}
	r.createNode = c.Func("idr", "CreateNode")
	if k, ok := ip.Types.Scope().Lookup("TextNode").(*types.Const); ok {
		r.textNode = k.Val().ExactString()
	}
	if r.createNode == nil || r.textNode == "" {
		c.Unresolved("R07b", "idr.CreateNode / idr.TextNode", "exported node API not found")
	}
	// fatal type(s): named types asserted in the predicates called from IsContinuableError methods of package edi
	for _, f := range c.RepoFunctions() {
		if core.FuncPkg(f) != p.Types || f.Name() != "IsContinuableError" || f.Signature.Recv() == nil || f.Synthetic != "" {
			continue
		}
		var scan func(g *ssa.Function, depth int)
		scan = func(g *ssa.Function, depth int) {
			if depth > 2 || g == nil || g.Blocks == nil {
				return
			}
			for _, b := range g.Blocks {
				for _, in := range b.Instrs {
					switch x := in.(type) {
					case *ssa.TypeAssert:
						if n, ok := types.Unalias(x.AssertedType).(*types.Named); ok && core.InRepo(n.Obj().Pkg()) {
							r.fatal[n] = true
						}
					case ssa.CallInstruction:
						if cf := x.Common().StaticCallee(); cf != nil && core.FuncPkg(cf) == p.Types {
							scan(cf, depth+1)
						}
					}
				}
			}
		}
		scan(f, 0)
	}
	if len(r.fatal) == 0 {
		c.Unresolved("R07c", "fatal error type of the EDI reader", "IsContinuableError of package edi asserts no repository type")
	}
	return r
}

func c07IsStrs(ci ssa.CallInstruction, name string) bool { return core.IsCallTo(ci, c07StrsPkg, name) }

func c07IsUnescape(ci ssa.CallInstruction) bool {
	o := core.CalleeObj(ci)
	return o != nil && o.Pkg() != nil && o.Pkg().Path() == c07StrsPkg && strings.Contains(o.Name(), "Unescape")
}

// c07DataArgs: the operands a call result's bytes are taken from (delimiter/escape arguments are not data).
func c07DataArgs(call *ssa.Call) []ssa.Value {
	o := core.CalleeObj(call)
	if o != nil && o.Pkg() != nil && o.Pkg().Path() == c07StrsPkg && len(call.Call.Args) > 0 {
		return call.Call.Args[:1]
	}
	return nil
}

func runC07(c *core.Ctx) {
	r := resolveC07(c)
	if r == nil {
		return
	}
	res := a5NewResolver(c,
		func(f *types.Var) bool { _, ok := r.declTag[f]; return ok },
		func(f *types.Var) string { return r.declTag[f] })
	var fns []*ssa.Function
	for _, f := range c.RepoFunctions() {
		if core.FuncPkg(f) == r.edi {
			fns = append(fns, f)
		}
	}

	// origin obligation: exactly the wanted declaration field (nil = optional setting absent is fine)
	origin := func(rule, key string, pos token.Pos, v ssa.Value, want string) bool {
		o := res.Resolve(v)
		fl := o.Fields()
		switch {
		case len(o.Others()) > 0:
			c.Unknown(rule, key, pos, fmt.Sprintf("origin of the argument could not be resolved to declaration fields only: %s", o))
			return false
		case len(fl) == 1 && fl[0] == want:
			c.OK(rule, key, pos, "originates from FileDecl "+want)
			return true
		case len(fl) == 0:
			c.Bad(rule, key, pos, fmt.Sprintf("argument is %s: it must be the declared %s", o, want))
		default:
			c.Bad(rule, key, pos, fmt.Sprintf("argument originates from %s, expected exactly %s", strings.Join(fl, ", "), want))
		}
		return false
	}

	// ---------------- R07a scanner
	nScan := 0
	eofAsDelim, flagsKnown := false, true
	var scanners []ssa.CallInstruction
	for _, f := range fns {
		for _, ci := range core.Calls(f) {
			o := core.CalleeObj(ci)
			if o == nil || o.Pkg() == nil || o.Pkg().Path() != c07IosPkg || !strings.HasPrefix(o.Name(), "NewScannerByDelim") {
				continue
			}
			nScan++
			scanners = append(scanners, ci)
			fk := core.FuncKey(f)
			args := ci.Common().Args
			sig := o.Type().(*types.Signature)
			di, ei, fi := -1, -1, -1
			for i := 0; i < sig.Params().Len(); i++ {
				switch sig.Params().At(i).Name() {
				case "delim":
					di = i
				case "escape":
					ei = i
				case "flags":
					fi = i
				}
			}
			if di < 0 {
				c.Unknown("R07a", fk+" scanner", core.InstrPos(ci), "scanner constructor has no parameter named delim")
				continue
			}
			origin("R07a", fk+" scanner delimiter", core.InstrPos(ci), args[di], "segment_delimiter")
			if ei < 0 {
				c.Bad("R07a", fk+" scanner escape", core.InstrPos(ci), "scanner constructed without an escape sequence: escaped segment delimiters split the segment")
			} else {
				origin("R07a", fk+" scanner escape", core.InstrPos(ci), args[ei], "release_character")
			}
			// the delimiter is part of the token (so that readToken may strip it)
			incl := false
			if fi >= 0 {
				if k, ok := args[fi].(*ssa.Const); ok && k.Value != nil {
					if ip := c.AnyPkg(c07IosPkg); ip != nil {
						if bit, ok := ip.Types.Scope().Lookup("ScannerByDelimFlagDropDelimInReturn").(*types.Const); ok {
							fv, ok1 := constant.Uint64Val(constant.ToInt(k.Value))
							bv, ok2 := constant.Uint64Val(constant.ToInt(bit.Val()))
							incl = ok1 && ok2 && bv != 0 && fv&bv == 0
						}
					}
				}
			}
			c.Check(incl, "R07a", fk+" scanner includes delimiter", core.InstrPos(ci), "tokens end with the segment delimiter", "scanner flags drop the delimiter from the token (or are not constant), but the tokenizer strips len(segment delimiter) bytes from every token")
			// does the scanner hand out the unterminated rest of the input as a token?
			known := false
			if fi >= 0 {
				if k, ok := args[fi].(*ssa.Const); ok && k.Value != nil {
					if ip := c.AnyPkg(c07IosPkg); ip != nil {
						if bit, ok := ip.Types.Scope().Lookup("ScannerByDelimFlagEofAsDelim").(*types.Const); ok {
							fv, ok1 := constant.Uint64Val(constant.ToInt(k.Value))
							bv, ok2 := constant.Uint64Val(constant.ToInt(bit.Val()))
							if ok1 && ok2 && bv != 0 {
								known = true
								if fv&bv != 0 {
									eofAsDelim = true
								}
							}
						}
					}
				}
			}
			if !known {
				flagsKnown = false
			}
		}
	}
	if nScan == 0 {
		c.Unresolved("R07a", "segment scanner", "no ios.NewScannerByDelim* call in package edi")
	}
	c07IgnoreCRLF(c, r, res, fns, scanners)

	// ---------------- R07a split levels
	levelName := []string{"element", "repetition", "component"}
	levelWant := []string{"element_delimiter", "repetition_delimiter", "component_delimiter"}
	intoEdi := func(f *ssa.Function) bool { return core.FuncPkg(f) == r.edi }
	callersIn := func(f *ssa.Function) []*ssa.Call {
		var out []*ssa.Call
		for _, call := range res.callers[f] {
			if core.FuncPkg(call.Parent()) == r.edi {
				out = append(out, call)
			}
		}
		return out
	}
	var levels []*ssa.Call // the three split calls in level order, once they are known to form the chain
	{
		var splits []*ssa.Call
		for _, f := range fns {
			for _, ci := range core.Calls(f) {
				if call, ok := ci.(*ssa.Call); ok && c07IsStrs(ci, "ByteSplitWithEsc") && len(call.Call.Args) >= 3 {
					splits = append(splits, call)
				}
			}
		}
		isSplit := map[*ssa.Call]bool{}
		for _, s := range splits {
			isSplit[s] = true
		}
		anc := map[*ssa.Call]map[*ssa.Call]bool{}
		for _, s := range splits {
			a := &a5Ancestry{DataArgs: c07DataArgs, Callers: callersIn, Into: intoEdi}
			a.Count(s.Call.Args[0])
			anc[s] = map[*ssa.Call]bool{}
			for k := range a.Calls {
				if isSplit[k] && k != s {
					anc[s][k] = true
				}
			}
		}
		sort.SliceStable(splits, func(i, j int) bool { return len(anc[splits[i]]) < len(anc[splits[j]]) })
		chain := len(splits) == 3
		for i, s := range splits {
			if len(anc[s]) != i {
				chain = false
			}
			for j := 0; j < i; j++ {
				if !anc[s][splits[j]] {
					chain = false
				}
			}
		}
		if !chain {
			pos := token.NoPos
			if len(splits) > 0 {
				pos = core.InstrPos(splits[0])
			}
			c.Unknown("R07a", "edi split levels", pos, fmt.Sprintf("the %d ByteSplitWithEsc calls of package edi do not form the chain element -> repetition -> component by data flow", len(splits)))
		} else {
			levels = splits
			for i, s := range splits {
				key := fmt.Sprintf("%s %s split", core.FuncKey(s.Parent()), levelName[i])
				origin("R07a", key+" delimiter", core.InstrPos(s), s.Call.Args[1], levelWant[i])
				origin("R07a", key+" escape", core.InstrPos(s), s.Call.Args[2], "release_character")
				if i == 0 {
					continue
				}
				// optional level: guarded by len(<same delimiter>) != 0: in the function (the test may be hoisted into a
				// local, a parameter or a helper of the package), or at every call site of the function
				lt := &f1LenTests{res: res, callersIn: callersIn, into: intoEdi}
				guard := lt.guardOf(s.Block(), 0)
				switch {
				case guard == "":
					c.Bad("R07a", key+" guard", core.InstrPos(s), "optional split level is not guarded by a len(delimiter) test: an absent delimiter would split between every byte")
				case guard != levelWant[i]:
					c.Bad("R07a", key+" guard", core.InstrPos(s), "the split is guarded by the length of "+guard+" but splits at "+levelWant[i])
				default:
					c.OK("R07a", key+" guard", core.InstrPos(s), "guarded by len("+guard+") != 0")
				}
			}
			// strip of the segment delimiter on the way from the token to the element split
			c07Strip(c, splits[0], callersIn, intoEdi, origin, res, eofAsDelim, flagsKnown)
		}
	}

	// ---------------- R07a unescape escape argument; R07b counts
	for _, f := range fns {
		for _, ci := range core.Calls(f) {
			if c07IsUnescape(ci) && len(ci.Common().Args) >= 2 {
				origin("R07a", core.FuncKey(f)+" unescape escape", core.InstrPos(ci), ci.Common().Args[1], "release_character")
			}
		}
	}
	c.Floor("R07a", 13, "scanner 3, splits 6 + 2 guards, strip + its soundness, unescape")

	if r.dataFld != nil && r.createNode != nil {
		c07Unescape(c, r, callersIn, levels, levelName)
	}
	c.Floor("R07b", 5, "at least 1 store of RawSegElem.Data, the 3 split levels feeding it, 1 text node from raw data")
	if r.defFld != nil && len(r.fatal) > 0 && r.createNode != nil && r.dataFld != nil {
		c07Missing(c, r, fns, callersIn)
	}
	c.Floor("R07c", 3, "error return, missing-element exit, default node")
	c07NoSharedBuffers(c)
}

// c07Strip checks the slice that drops the segment delimiter from the token.
func c07Strip(c *core.Ctx, elemSplit *ssa.Call, callersIn func(*ssa.Function) []*ssa.Call, into func(*ssa.Function) bool, origin func(rule, key string, pos token.Pos, v ssa.Value, want string) bool, res *a5Resolver, eofAsDelim, flagsKnown bool) {
	key := core.FuncKey(elemSplit.Parent()) + " segment delimiter strip"
	var strips []*ssa.Slice
	seen := map[ssa.Value]bool{}
	var walk func(v ssa.Value)
	var results func(call *ssa.Call, idx int)
	walk = func(v ssa.Value) {
		if seen[v] {
			return
		}
		seen[v] = true
		switch x := v.(type) {
		case *ssa.Phi:
			for _, e := range x.Edges {
				walk(e)
			}
		case *ssa.Slice:
			if bo, ok := x.High.(*ssa.BinOp); ok && bo.Op == token.SUB && x.Low == nil {
				if l1, ok := bo.X.(*ssa.Call); ok {
					if l2, ok := bo.Y.(*ssa.Call); ok {
						b1, ok1 := l1.Call.Value.(*ssa.Builtin)
						b2, ok2 := l2.Call.Value.(*ssa.Builtin)
						if ok1 && ok2 && b1.Name() == "len" && b2.Name() == "len" && l1.Call.Args[0] == x.X {
							strips = append(strips, x)
						}
					}
				}
			}
			walk(x.X)
		case *ssa.Convert:
			walk(x.X)
		case *ssa.ChangeType:
			walk(x.X)
		case *ssa.Parameter:
			fn := x.Parent()
			for i, fp := range fn.Params {
				if fp == x {
					for _, call := range callersIn(fn) {
						if i < len(call.Call.Args) {
							walk(call.Call.Args[i])
						}
					}
				}
			}
		case *ssa.Call:
			// the token is prepared by a helper of the package: what the helper returns
			results(x, 0)
		case *ssa.Extract:
			if call, ok := x.Tuple.(*ssa.Call); ok {
				results(call, x.Index)
			}
		}
	}
	results = func(call *ssa.Call, idx int) {
		cf := call.Call.StaticCallee()
		if cf == nil || cf.Blocks == nil || into == nil || !into(cf) {
			return
		}
		for _, b := range cf.Blocks {
			if rt, ok := b.Instrs[len(b.Instrs)-1].(*ssa.Return); ok && idx < len(rt.Results) {
				walk(rt.Results[idx])
			}
		}
	}
	walk(elemSplit.Call.Args[0])
	if len(strips) != 1 {
		c.Bad("R07a", key, core.InstrPos(elemSplit), fmt.Sprintf("expected exactly one token[:len(token)-len(delimiter)] on the way from the token to the element split, found %d", len(strips)))
		return
	}
	strip := strips[0]
	l2 := strip.High.(*ssa.BinOp).Y.(*ssa.Call)
	origin("R07a", key, core.InstrPos(strip), l2.Call.Args[0], "segment_delimiter")

	// the strip is only sound when the token is known to end with the delimiter: either the scanner never hands out
	// the unterminated rest of the input (no EofAsDelim), or the strip is dominated by a HasSuffix test of the token
	// against the same delimiter
	key2 := key + " is applied only to terminated tokens"
	guarded := false
	for x := strip.Block(); x != nil && x.Idom() != nil && !guarded; x = x.Idom() {
		p := x.Idom()
		ifi, ok := p.Instrs[len(p.Instrs)-1].(*ssa.If)
		if !ok {
			continue
		}
		cond, neg := ifi.Cond, false
		if u, ok := cond.(*ssa.UnOp); ok && u.Op == token.NOT {
			cond, neg = u.X, true
		}
		call, ok := cond.(*ssa.Call)
		if !ok || !core.IsCallTo(call, "bytes", "HasSuffix") || len(call.Call.Args) != 2 || call.Call.Args[0] != strip.X {
			continue
		}
		if fl := res.Resolve(call.Call.Args[1]).Fields(); len(fl) != 1 || fl[0] != "segment_delimiter" {
			continue
		}
		side := p.Succs[0]
		if neg {
			side = p.Succs[1]
		}
		if len(side.Preds) == 1 && (side == strip.Block() || side.Dominates(strip.Block())) {
			guarded = true
		}
	}
	switch {
	case guarded:
		c.OK("R07a", key2, core.InstrPos(strip), "dominated by bytes.HasSuffix(token, segment delimiter)")
	case !flagsKnown:
		c.Unknown("R07a", key2, core.InstrPos(strip), "the scanner flags are not constant and the strip is not guarded by a suffix test")
	case eofAsDelim:
		c.Bad("R07a", key2, core.InstrPos(strip), "the scanner is configured with EofAsDelim, so the last token of an input without final terminator does not end with the segment delimiter, but len(segment delimiter) bytes are stripped from every token unconditionally: the last element of that segment loses its tail")
	default:
		c.OK("R07a", key2, core.InstrPos(strip), "the scanner only returns tokens that end with the delimiter (no EofAsDelim, delimiter included)")
	}
}

// c07BytesOfGlobal: the constant content of a package-level []byte that is assigned exactly once, in the package
// initialiser, from a string constant.
func c07BytesOfGlobal(g *ssa.Global, fns []*ssa.Function) (string, bool) {
	n := 0
	val, ok := "", false
	for _, f := range fns {
		for _, w := range core.Writes(f) {
			if w.Global != g {
				continue
			}
			n++
			if w.Kind != "global" || !(f.Synthetic != "" && f.Name() == "init") {
				return "", false
			}
			if cv, isCv := w.Val.(*ssa.Convert); isCv {
				if k, isK := cv.X.(*ssa.Const); isK && k.Value != nil && k.Value.Kind() == constant.String {
					val, ok = constant.StringVal(k.Value), true
				}
			}
		}
	}
	return val, ok && n == 1
}

type c07leaf struct {
	removed map[string]bool
	base    ssa.Value
	why     string
	pred    *ssa.BasicBlock // block the value arrives from (for Phi edges), nil otherwise
	phiBlk  *ssa.BasicBlock
}

// c07ReaderChain follows a reader value back through interface conversions, Phi and ios.NewBytesReplacingReader layers
// (and repository helpers that wrap their only reader parameter unconditionally) and reports, per alternative, which
// byte sequences are removed from the stream.
func c07ReaderChain(v ssa.Value, fns []*ssa.Function, depth int) []c07leaf {
	removed := map[string]bool{}
	for i := 0; i < 16; i++ {
		switch x := v.(type) {
		case *ssa.MakeInterface:
			v = x.X
			continue
		case *ssa.ChangeInterface:
			v = x.X
			continue
		case *ssa.Phi:
			var out []c07leaf
			for j, e := range x.Edges {
				for _, l := range c07ReaderChain(e, fns, depth+1) {
					m := map[string]bool{}
					for k := range removed {
						m[k] = true
					}
					for k := range l.removed {
						m[k] = true
					}
					l.removed = m
					if l.pred == nil {
						l.pred, l.phiBlk = x.Block().Preds[j], x.Block()
					}
					out = append(out, l)
				}
			}
			return out
		case *ssa.Call:
			if core.IsCallTo(x, c07IosPkg, "NewBytesReplacingReader") && len(x.Call.Args) == 3 {
				search, known := "", false
				switch a := x.Call.Args[1].(type) {
				case *ssa.UnOp:
					if g, ok := a.X.(*ssa.Global); ok && a.Op == token.MUL {
						search, known = c07BytesOfGlobal(g, fns)
					}
				case *ssa.Convert:
					if k, ok := a.X.(*ssa.Const); ok && k.Value != nil && k.Value.Kind() == constant.String {
						search, known = constant.StringVal(k.Value), true
					}
				}
				if !known {
					return []c07leaf{{removed: removed, why: "the byte sequence a replacing reader searches for is not a constant"}}
				}
				if core.IsNilConst(x.Call.Args[2]) {
					removed[search] = true
				}
				v = x.Call.Args[0]
				continue
			}
			// helper that wraps its only reader parameter
			if h := x.Call.StaticCallee(); h != nil && h.Blocks != nil && core.InRepo(core.FuncPkg(h)) && depth < 3 {
				pi := -1
				for i, hp := range h.Params {
					if c18IsIOReader(hp.Type()) {
						if pi >= 0 {
							pi = -2
						}
						if pi == -1 {
							pi = i
						}
					}
				}
				rets := c19Returns(h)
				if pi >= 0 && len(rets) == 1 && len(rets[0].Results) >= 1 {
					ls := c07ReaderChain(rets[0].Results[0], fns, depth+1)
					if len(ls) == 1 && ls[0].why == "" && ls[0].base == ssa.Value(h.Params[pi]) {
						for k := range ls[0].removed {
							removed[k] = true
						}
						v = x.Call.Args[pi]
						continue
					}
				}
			}
			return []c07leaf{{removed: removed, why: "reader produced by " + x.Call.String()}}
		default:
			return []c07leaf{{removed: removed, base: v}}
		}
	}
	return []c07leaf{{removed: removed, why: "reader chain too long"}}
}

// c07IgnoreCRLF: R07f. The scanner's source is followed back - through replacing-reader layers, Phi alternatives,
// helpers of the repository that compute the reader (every return is an alternative) and parameters of helpers whose
// callers are all visible - to the reader the constructing function is given. Every alternative must be decided by a
// test of the ignore_crlf declaration field (in whichever of these functions the test is made): on the alternatives
// with ignore_crlf set both CR and LF are removed, on the others nothing is removed.
func c07IgnoreCRLF(c *core.Ctx, r *c07roles, res *a5Resolver, fns []*ssa.Function, scanners []ssa.CallInstruction) {
	callers := h4CallersIndex(c)
	x := &c07crlf{res: res, fns: fns, callers: callers, tests: map[*ssa.Function][]c07crlfTest{}}
	for _, ci := range scanners {
		f := ci.Parent()
		owners := h4Owners(ci, callers)
		key := core.FuncKey(f) + " ignore_crlf removes CR and LF before the scanner"
		if len(owners) == 1 {
			key = core.FuncKey(owners[0]) + " ignore_crlf removes CR and LF before the scanner"
		}
		var rd ssa.Value
		for _, a := range ci.Common().Args {
			if c18IsIOReader(a.Type()) {
				rd = a
			}
		}
		if rd == nil {
			c.Unknown("R07f", key, core.InstrPos(ci), "scanner call without an io.Reader argument")
			continue
		}
		on0, off0 := x.atBlock(f, ci.Block())
		bad, nOn, nAlt := "", 0, 0
		for _, l := range x.sources(rd, true, 0) {
			l.on, l.off = l.on || on0, l.off || off0
			if l.on && l.off {
				continue // contradictory tests: not a path
			}
			nAlt++
			prm, isParam := l.base.(*ssa.Parameter)
			switch {
			case l.why != "":
				bad = "source of the scanner not understood: " + l.why
			case !isParam || !c18IsIOReader(prm.Type()):
				bad = "the scanner does not read (a wrapping of) the reader the function is given"
			case !l.on && !l.off:
				bad = "an alternative source of the scanner is not decided by a test of the ignore_crlf setting: CR/LF are not removed from the scanner's input as ignore_crlf says"
			case l.on:
				nOn++
				if !l.removed["\r"] || !l.removed["\n"] {
					bad = "with ignore_crlf set the scanner's input does not remove both CR and LF bytes: line breaks end up inside element values"
				}
			default:
				if l.removed["\r"] || l.removed["\n"] {
					bad = "CR/LF are removed from the input although ignore_crlf is not set"
				}
			}
			if bad != "" {
				break
			}
		}
		if bad == "" && nAlt == 0 {
			bad = "no feasible source of the scanner found"
		}
		if bad == "" && nOn == 0 && !off0 {
			bad = "no source of the scanner is selected by ignore_crlf being set"
		}
		if bad != "" {
			c.Bad("R07f", key, core.InstrPos(ci), bad)
		} else {
			c.OK("R07f", key, core.InstrPos(ci), "on the ignore_crlf edge the input passes through BytesReplacingReader(CR -> nothing) and (LF -> nothing); untouched otherwise")
		}
	}
	c.Floor("R07f", 1, "NewNonValidatingReader")
}

type c07crlfTest struct{ blk, on, off *ssa.BasicBlock }

type c07crlf struct {
	res     *a5Resolver
	fns     []*ssa.Function
	callers func(*ssa.Function) []*ssa.Call
	tests   map[*ssa.Function][]c07crlfTest
}

type c07alt struct {
	removed map[string]bool
	base    ssa.Value
	why     string
	on, off bool // established by tests of ignore_crlf on the way
}

// testsOf: the branches of g on the ignore_crlf declaration field.
func (x *c07crlf) testsOf(g *ssa.Function) []c07crlfTest {
	if ts, ok := x.tests[g]; ok {
		return ts
	}
	var tests []c07crlfTest
	for _, b := range g.Blocks {
		if len(b.Instrs) == 0 {
			continue
		}
		ifi, ok := b.Instrs[len(b.Instrs)-1].(*ssa.If)
		if !ok {
			continue
		}
		cond, neg := ifi.Cond, false
		if u, ok := cond.(*ssa.UnOp); ok && u.Op == token.NOT {
			cond, neg = u.X, true
		}
		if _, isBool := cond.Type().Underlying().(*types.Basic); !isBool {
			continue
		}
		switch cond.(type) {
		case *ssa.UnOp, *ssa.Parameter, *ssa.Field:
		default:
			continue
		}
		o := x.res.Resolve(cond)
		if fl := o.Fields(); len(fl) != 1 || fl[0] != "ignore_crlf" || len(o.Others()) > 0 {
			continue
		}
		t := c07crlfTest{b, b.Succs[0], b.Succs[1]}
		if neg {
			t.on, t.off = t.off, t.on
		}
		tests = append(tests, t)
	}
	x.tests[g] = tests
	return tests
}

// atBlock: what the ignore_crlf tests of g that dominate b establish.
func (x *c07crlf) atBlock(g *ssa.Function, b *ssa.BasicBlock) (on, off bool) {
	for _, t := range x.testsOf(g) {
		if t.on != t.off {
			if len(t.on.Preds) == 1 && (t.on == b || t.on.Dominates(b)) {
				on = true
			}
			if len(t.off.Preds) == 1 && (t.off == b || t.off.Dominates(b)) {
				off = true
			}
		}
	}
	return
}

// atEdge: the same for the control-flow edge pred -> to.
func (x *c07crlf) atEdge(g *ssa.Function, pred, to *ssa.BasicBlock) (on, off bool) {
	on, off = x.atBlock(g, pred)
	for _, t := range x.testsOf(g) {
		if t.blk == pred && t.on != t.off {
			if t.on == to {
				on = true
			}
			if t.off == to {
				off = true
			}
		}
	}
	return
}

func c07CopySet(a, b map[string]bool) map[string]bool {
	m := map[string]bool{}
	for k := range a {
		m[k] = true
	}
	for k := range b {
		m[k] = true
	}
	return m
}

// sources: the alternatives of the reader value v. up: a parameter of a helper whose callers are all visible is
// followed to the arguments of its call sites (not when v is looked at on behalf of one particular call).
func (x *c07crlf) sources(v ssa.Value, up bool, depth int) []c07alt {
	removed := map[string]bool{}
	if depth > 8 {
		return []c07alt{{removed: removed, why: "reader chain too deep"}}
	}
	for i := 0; i < 16; i++ {
		switch y := v.(type) {
		case *ssa.MakeInterface:
			v = y.X
			continue
		case *ssa.ChangeInterface:
			v = y.X
			continue
		case *ssa.ChangeType:
			v = y.X
			continue
		case *ssa.Phi:
			var out []c07alt
			for j, e := range y.Edges {
				on, off := x.atEdge(y.Parent(), y.Block().Preds[j], y.Block())
				for _, l := range x.sources(e, up, depth+1) {
					l.removed = c07CopySet(removed, l.removed)
					l.on, l.off = l.on || on, l.off || off
					out = append(out, l)
				}
			}
			return out
		case *ssa.Parameter:
			g := y.Parent()
			cs := x.callers(g)
			if !up || len(cs) == 0 || !h4AllCallersVisible(g) {
				return []c07alt{{removed: removed, base: v}}
			}
			pi := -1
			for k, p := range g.Params {
				if p == y {
					pi = k
				}
			}
			var out []c07alt
			for _, call := range cs {
				if pi < 0 || pi >= len(call.Call.Args) {
					return []c07alt{{removed: removed, why: "call site of " + core.FuncKey(g) + " without the reader argument"}}
				}
				on, off := x.atBlock(call.Parent(), call.Block())
				for _, l := range x.sources(call.Call.Args[pi], true, depth+1) {
					l.removed = c07CopySet(removed, l.removed)
					l.on, l.off = l.on || on, l.off || off
					out = append(out, l)
				}
			}
			return out
		case *ssa.Extract:
			if call, ok := y.Tuple.(*ssa.Call); ok {
				return x.throughHelper(call, y.Index, removed, up, depth)
			}
			return []c07alt{{removed: removed, base: v}}
		case *ssa.Call:
			if core.IsCallTo(y, c07IosPkg, "NewBytesReplacingReader") && len(y.Call.Args) == 3 {
				search, known := "", false
				switch a := y.Call.Args[1].(type) {
				case *ssa.UnOp:
					if g, ok := a.X.(*ssa.Global); ok && a.Op == token.MUL {
						search, known = c07BytesOfGlobal(g, x.fns)
					}
				case *ssa.Convert:
					if k, ok := a.X.(*ssa.Const); ok && k.Value != nil && k.Value.Kind() == constant.String {
						search, known = constant.StringVal(k.Value), true
					}
				}
				if !known {
					return []c07alt{{removed: removed, why: "the byte sequence a replacing reader searches for is not a constant"}}
				}
				if core.IsNilConst(y.Call.Args[2]) {
					removed[search] = true
				}
				v = y.Call.Args[0]
				continue
			}
			return x.throughHelper(y, 0, removed, up, depth)
		default:
			return []c07alt{{removed: removed, base: v}}
		}
	}
	return []c07alt{{removed: removed, why: "reader chain too long"}}
}

// throughHelper: result idx of a call to a repository helper: every return of the helper is an alternative, decided by
// the helper's own tests; an alternative that ends at a parameter of the helper continues at the call's argument.
func (x *c07crlf) throughHelper(call *ssa.Call, idx int, removed map[string]bool, up bool, depth int) []c07alt {
	h := call.Call.StaticCallee()
	if call.Call.IsInvoke() || h == nil || h.Blocks == nil || !core.InRepo(core.FuncPkg(h)) {
		return []c07alt{{removed: removed, why: "reader produced by " + call.Call.String()}}
	}
	var out []c07alt
	for _, rt := range c19Returns(h) {
		if idx >= len(rt.Results) {
			continue
		}
		on, off := x.atBlock(h, rt.Block())
		for _, l := range x.sources(rt.Results[idx], false, depth+1) {
			l.removed = c07CopySet(removed, l.removed)
			l.on, l.off = l.on || on, l.off || off
			prm, isParam := l.base.(*ssa.Parameter)
			if l.why != "" || !isParam || prm.Parent() != h {
				out = append(out, l)
				continue
			}
			pi := -1
			for k, p := range h.Params {
				if p == prm {
					pi = k
				}
			}
			if pi < 0 || pi >= len(call.Call.Args) {
				l.base, l.why = nil, "parameter of "+core.FuncKey(h)+" not bound at the call"
				out = append(out, l)
				continue
			}
			for _, m := range x.sources(call.Call.Args[pi], up, depth+1) {
				m.removed = c07CopySet(l.removed, m.removed)
				m.on, m.off = m.on || l.on, m.off || l.off
				out = append(out, m)
			}
		}
	}
	if len(out) == 0 {
		return []c07alt{{removed: removed, why: "reader produced by " + call.Call.String()}}
	}
	return out
}

// c07Unescape: R07b.
func c07Unescape(c *core.Ctx, r *c07roles, callersIn func(*ssa.Function) []*ssa.Call, levels []*ssa.Call, levelName []string) {
	intoEdi := func(f *ssa.Function) bool { return core.FuncPkg(f) == r.edi }
	isData := func(f *types.Var) bool { return f == r.dataFld }
	marked := func(call *ssa.Call) bool { return c07IsUnescape(call) }
	// (i') role coverage of the stores found under (i): they are the tokenizer's output. The pieces of every split level
	// reach RawSegElem.Data as they are (not passing through a deeper split: the deeper levels are optional), through
	// whichever store(s) and helpers the tokenizer uses. This is what makes the number of stores irrelevant.
	isLevel := map[*ssa.Call]bool{}
	for _, l := range levels {
		isLevel[l] = true
	}
	fed := map[*ssa.Call]bool{}
	var fedPos token.Pos
	defer func() {
		for i, l := range levels {
			key := "edi " + levelName[i] + " split feeds RawSegElem.Data"
			if fed[l] {
				c.OK("R07b", key, fedPos, "the pieces of this split level are stored into RawSegElem.Data (directly when the deeper levels are not configured)")
			} else {
				c.Unknown("R07b", key, core.InstrPos(l), "no store of RawSegElem.Data takes its bytes from the pieces of this split level: the stores this rule judges are not the tokenizer's output")
			}
		}
	}()
	for _, f := range c.RepoFunctions() {
		if core.IsCLIOrSample(core.FuncPkg(f)) {
			continue
		}
		fk := core.FuncKey(f)
		// (i) values stored into RawSegElem.Data
		for _, w := range core.Writes(f) {
			if w.Kind != "field" || w.Field != r.dataFld {
				continue
			}
			a := &a5Ancestry{IsMarked: marked, DataArgs: c07DataArgs, ParamReach: true, Callers: callersIn, Into: intoEdi}
			cnt := a.Count(w.Val)
			key := fk + " stores RawSegElem.Data"
			unesc := false
			for call := range a.Calls {
				if marked(call) {
					unesc = true
				}
			}
			switch {
			case cnt.Opaque != "":
				c.Unknown("R07b", key, w.Pos, "derivation of the stored bytes not understood: "+cnt.Opaque)
			case unesc:
				c.Bad("R07b", key, w.Pos, "raw element data is unescaped in the tokenizer; it is unescaped again when the node is created")
			default:
				c.OK("R07b", key, w.Pos, "raw (escaped) bytes of the token, no unescape on any derivation path")
			}
			for _, l := range levels {
				l := l
				al := &a5Ancestry{DataArgs: func(call *ssa.Call) []ssa.Value {
					if isLevel[call] && call != l {
						return []ssa.Value{} // do not look through another split level
					}
					return c07DataArgs(call)
				}, ParamReach: true, Callers: callersIn, Into: intoEdi}
				al.Count(w.Val)
				if al.Calls[l] && !fed[l] {
					fed[l] = true
					if !fedPos.IsValid() {
						fedPos = w.Pos
					}
				}
			}
		}
		// (ii) text nodes
		if core.FuncPkg(f) != r.edi {
			continue
		}
		for _, ci := range core.Calls(f) {
			call, ok := ci.(*ssa.Call)
			if !ok || call.Call.StaticCallee() != r.createNode || len(call.Call.Args) != 2 {
				continue
			}
			k, ok := call.Call.Args[0].(*ssa.Const)
			if !ok || k.Value == nil || k.Value.ExactString() != r.textNode {
				continue
			}
			a := &a5Ancestry{IsBoundary: isData, IsMarked: marked, DataArgs: c07DataArgs, Callers: callersIn, Into: intoEdi}
			cnt := a.Count(call.Call.Args[1])
			if !cnt.Reach {
				continue // not raw element data (R07c looks at those)
			}
			key := fk + " text node from RawSegElem.Data"
			switch {
			case cnt.Opaque != "":
				c.Unknown("R07b", key, core.InstrPos(call), "derivation of the node data not understood: "+cnt.Opaque)
			case cnt.Min == 1 && cnt.Max == 1:
				c.OK("R07b", key, core.InstrPos(call), "exactly one ByteUnescape between the raw element and the node data")
			case cnt.Min == 0:
				c.Bad("R07b", key, core.InstrPos(call), "raw element data reaches a node without ByteUnescape: release characters leak into the value")
			default:
				c.Bad("R07b", key, core.InstrPos(call), fmt.Sprintf("raw element data is unescaped %d times on a path to the node: data containing the release character is corrupted", cnt.Max))
			}
		}
	}
}

// c07Creates: g creates IDR nodes, itself or through helpers of package edi.
func c07Creates(g *ssa.Function, r *c07roles, d int) bool {
	if g == nil || g.Blocks == nil || d > 3 {
		return false
	}
	for _, ci := range core.Calls(g) {
		h := ci.Common().StaticCallee()
		if h == r.createNode {
			return true
		}
		if h != nil && h != g && core.FuncPkg(h) == r.edi && c07Creates(h, r, d+1) {
			return true
		}
	}
	return false
}

// c07LoadsData: g (or a helper of the package it calls) reads RawSegElem.Data.
func c07LoadsData(g *ssa.Function, r *c07roles, d int, seen map[*ssa.Function]bool) bool {
	if g == nil || g.Blocks == nil || d > 3 || seen[g] {
		return false
	}
	seen[g] = true
	for _, b := range g.Blocks {
		for _, in := range b.Instrs {
			switch x := in.(type) {
			case *ssa.FieldAddr:
				if core.FieldOfAddr(x) == r.dataFld {
					for _, u := range core.Referrers(x) {
						if _, ok := u.(*ssa.UnOp); ok {
							return true
						}
					}
				}
			case *ssa.Field:
				if core.FieldOfField(x) == r.dataFld {
					return true
				}
			}
		}
	}
	for _, ci := range core.Calls(g) {
		if h := ci.Common().StaticCallee(); h != nil && h != g && core.FuncPkg(h) == r.edi && c07LoadsData(h, r, d+1, seen) {
			return true
		}
	}
	return false
}

// c07IsSegToNode: (node, error) function of the package that reads raw element data and creates nodes.
func c07IsSegToNode(f *ssa.Function, r *c07roles) bool {
	if f == nil || f.Blocks == nil {
		return false
	}
	res := f.Signature.Results()
	if res.Len() != 2 || !c19IsError(res.At(1).Type()) {
		return false
	}
	return c07Creates(f, r, 0) && c07LoadsData(f, r, 0, map[*ssa.Function]bool{})
}

func c07FieldOfLoad(v ssa.Value) *types.Var {
	u, ok := v.(*ssa.UnOp)
	if !ok || u.Op != token.MUL {
		if fv, ok := v.(*ssa.Field); ok {
			return core.FieldOfField(fv)
		}
		return nil
	}
	if fa, ok := u.X.(*ssa.FieldAddr); ok {
		return core.FieldOfAddr(fa)
	}
	return nil
}

// c07BoolHelperResult: v is a bool result of a call to a helper of package edi (with a body).
func c07BoolHelperResult(v ssa.Value, r *c07roles) (*ssa.Function, int) {
	idx := 0
	if ex, ok := v.(*ssa.Extract); ok {
		v, idx = ex.Tuple, ex.Index
	}
	call, ok := v.(*ssa.Call)
	if !ok || call.Call.IsInvoke() {
		return nil, 0
	}
	h := call.Call.StaticCallee()
	if h == nil || h.Blocks == nil || core.FuncPkg(h) != r.edi || idx >= h.Signature.Results().Len() {
		return nil, 0
	}
	if b, ok := h.Signature.Results().At(idx).Type().Underlying().(*types.Basic); !ok || b.Kind() != types.Bool {
		return nil, 0
	}
	return h, idx
}

// c07ElemTest: what the truth value pol of the boolean v says about the element declaration: noE = empty_if_missing
// is false, noD = default is nil.
func c07ElemTest(v ssa.Value, pol bool, r *c07roles) (noE, noD bool) {
	if u, ok := v.(*ssa.UnOp); ok && u.Op == token.NOT {
		v, pol = u.X, !pol
	}
	if c07FieldOfLoad(v) == r.emptyFld {
		return !pol, false
	}
	if bo, ok := v.(*ssa.BinOp); ok && (bo.Op == token.NEQ || bo.Op == token.EQL) {
		var other ssa.Value
		switch {
		case c07FieldOfLoad(bo.X) == r.defFld:
			other = bo.Y
		case c07FieldOfLoad(bo.Y) == r.defFld:
			other = bo.X
		}
		if other != nil && core.IsNilConst(other) {
			return false, (bo.Op == token.EQL) == pol
		}
	}
	return false, false
}

// c07FactsAtEdge: facts about the element declaration established by the branches of h that dominate the edge
// from -> to (to == nil: the block from itself).
func c07FactsAtEdge(h *ssa.Function, from, to *ssa.BasicBlock, r *c07roles) (noE, noD bool) {
	for _, t := range h.Blocks {
		ifi, ok := t.Instrs[len(t.Instrs)-1].(*ssa.If)
		if !ok {
			continue
		}
		for k, pol := range []bool{true, false} {
			succ := t.Succs[k]
			holds := len(succ.Preds) == 1 && (succ == from || succ.Dominates(from))
			if !holds && to != nil && t == from && succ == to && t.Succs[1-k] != to {
				holds = true
			}
			if holds {
				e, d := c07ElemTest(ifi.Cond, pol, r)
				noE, noD = noE || e, noD || d
			}
		}
	}
	return
}

// c07OutcomeFacts: the facts about the element declaration that hold whenever result idx of the predicate helper h
// is pol, over all returns (and all alternatives of a short-circuit value).
func c07OutcomeFacts(h *ssa.Function, idx int, pol bool, r *c07roles) (noE, noD bool) {
	noE, noD = true, true
	n := 0
	var visit func(v ssa.Value, from, to *ssa.BasicBlock, depth int)
	visit = func(v ssa.Value, from, to *ssa.BasicBlock, depth int) {
		if k, ok := v.(*ssa.Const); ok && k.Value != nil && k.Value.Kind() == constant.Bool {
			if constant.BoolVal(k.Value) != pol {
				return // this alternative never yields pol
			}
		}
		if phi, ok := v.(*ssa.Phi); ok && depth < 4 {
			for j, e := range phi.Edges {
				visit(e, phi.Block().Preds[j], phi.Block(), depth+1)
			}
			return
		}
		n++
		e1, d1 := c07FactsAtEdge(h, from, to, r)
		e2, d2 := c07ElemTest(v, pol, r)
		noE, noD = noE && (e1 || e2), noD && (d1 || d2)
	}
	for _, rt := range c19Returns(h) {
		if idx < len(rt.Results) {
			visit(rt.Results[idx], rt.Block(), nil, 0)
		}
	}
	if n == 0 {
		return false, false
	}
	return
}

// c07Missing: R07c.
func c07Missing(c *core.Ctx, r *c07roles, fns []*ssa.Function, callersIn func(*ssa.Function) []*ssa.Call) {
	for _, f := range fns {
		// the segment -> node function: loads RawSegElem.Data and creates nodes (itself or through helpers of the
		// package) and returns (node, error); of a call chain of such functions the innermost one is meant
		if !c07IsSegToNode(f, r) {
			continue
		}
		inner := false
		seenG := map[*ssa.Function]bool{f: true}
		var below func(g *ssa.Function, d int)
		below = func(g *ssa.Function, d int) {
			if d > 3 || inner {
				return
			}
			for _, ci := range core.Calls(g) {
				h := ci.Common().StaticCallee()
				if h == nil || h.Blocks == nil || seenG[h] || core.FuncPkg(h) != r.edi {
					continue
				}
				seenG[h] = true
				if c07IsSegToNode(h, r) {
					inner = true
					return
				}
				below(h, d+1)
			}
		}
		below(f, 0)
		if inner {
			continue
		}
		fk := core.FuncKey(f)
		isFatal := func(v ssa.Value) bool {
			mi, ok := v.(*ssa.MakeInterface)
			if !ok {
				return false
			}
			n, ok := types.Unalias(mi.X.Type()).(*types.Named)
			return ok && r.fatal[n]
		}
		// (1) error returns
		for _, rt := range c19Returns(f) {
			if core.IsNilConst(rt.Results[1]) {
				continue
			}
			good := isFatal(rt.Results[1]) && core.IsNilConst(rt.Results[0])
			c.Check(good, "R07c", fk+" error return", core.InstrPos(rt), "fatal type, nil node",
				"an error of the segment-to-node function does not carry the reader's fatal type (or comes with a node): the transform would continue after a malformed segment")
		}
		// (2) the missing-element block
		type edge struct{ no *ssa.BasicBlock }
		var noE, noD, both []*ssa.BasicBlock
		fieldOfLoad := c07FieldOfLoad
		for _, b := range f.Blocks {
			ifi, ok := b.Instrs[len(b.Instrs)-1].(*ssa.If)
			if !ok {
				continue
			}
			cond := ifi.Cond
			neg := false
			if u, ok := cond.(*ssa.UnOp); ok && u.Op == token.NOT {
				cond, neg = u.X, true
			}
			if fieldOfLoad(cond) == r.emptyFld {
				if neg {
					noE = append(noE, b.Succs[0])
				} else {
					noE = append(noE, b.Succs[1])
				}
				continue
			}
			// the decision is delegated to a predicate helper of the package: what each outcome says about
			// empty_if_missing / default is derived from the helper's returns
			if h, idx := c07BoolHelperResult(cond, r); h != nil {
				for _, pol := range []bool{true, false} {
					e, d := c07OutcomeFacts(h, idx, pol, r)
					succ := b.Succs[1]
					if pol != neg {
						succ = b.Succs[0]
					}
					switch {
					case e && d:
						both = append(both, succ)
					case e:
						noE = append(noE, succ)
					case d:
						noD = append(noD, succ)
					}
				}
				continue
			}
			if bo, ok := cond.(*ssa.BinOp); ok && (bo.Op == token.NEQ || bo.Op == token.EQL) {
				var other ssa.Value
				switch {
				case fieldOfLoad(bo.X) == r.defFld:
					other = bo.Y
				case fieldOfLoad(bo.Y) == r.defFld:
					other = bo.X
				}
				if other != nil && core.IsNilConst(other) {
					isNilSucc := 1
					if bo.Op == token.EQL {
						isNilSucc = 0
					}
					if neg {
						isNilSucc = 1 - isNilSucc
					}
					noD = append(noD, b.Succs[isNilSucc])
				}
			}
		}
		var miss []*ssa.BasicBlock
		add := func(b *ssa.BasicBlock, others []*ssa.BasicBlock) {
			if len(b.Preds) != 1 {
				return
			}
			for _, o := range others {
				if o != b && o.Dominates(b) && len(o.Preds) == 1 {
					miss = append(miss, b)
					return
				}
			}
		}
		for _, b := range noD {
			add(b, noE)
		}
		for _, b := range noE {
			add(b, noD)
		}
		for _, b := range both {
			if len(b.Preds) == 1 {
				miss = append(miss, b)
			}
		}
		key := fk + " missing element without default"
		if len(miss) != 1 {
			c.Unknown("R07c", key, f.Pos(), fmt.Sprintf("could not identify the block reached when empty_if_missing is false and default is nil (%d candidates; %d/%d tests found)", len(miss), len(noE), len(noD)))
		} else {
			m := miss[0]
			bad, badPos := "", token.NoPos
			nret := 0
			for blk := range core.ReachableBlocks(m, nil) {
				if blk != m && blk.Dominates(m) && bad == "" {
					bad, badPos = "processing continues with the next element: a declared element that is absent is silently skipped", core.InstrPos(m.Instrs[0])
				}
				for _, in := range blk.Instrs {
					switch x := in.(type) {
					case *ssa.Return:
						nret++
						if !(isFatal(x.Results[1]) && core.IsNilConst(x.Results[0])) && bad == "" {
							bad, badPos = "the missing-element exit does not return (nil, fatal error)", core.InstrPos(x)
						}
					case ssa.CallInstruction:
						if h := x.Common().StaticCallee(); (h == r.createNode || (h != nil && core.FuncPkg(h) == r.edi && c07Creates(h, r, 0))) && bad == "" {
							bad, badPos = "a node is created for an element that is missing and has no default", core.InstrPos(x)
						}
					}
				}
			}
			if nret == 0 && bad == "" {
				bad, badPos = "no return reachable", core.InstrPos(m.Instrs[0])
			}
			if bad != "" {
				c.Bad("R07c", key, badPos, bad)
			} else {
				c.OK("R07c", key, core.InstrPos(m.Instrs[0]), "returns (nil, fatal error) without creating a node")
			}
		}
		// (3) text nodes that are not raw data: "" or *Default. Node creation may be delegated to helpers of the
		// package; their data parameter is followed back to the call sites inside f's call tree.
		tree := map[*ssa.Function]bool{f: true}
		var grow func(g *ssa.Function, d int)
		grow = func(g *ssa.Function, d int) {
			if d > 2 {
				return
			}
			for _, ci := range core.Calls(g) {
				if h := ci.Common().StaticCallee(); h != nil && h.Blocks != nil && core.FuncPkg(h) == r.edi && !tree[h] && c07Creates(h, r, 0) {
					tree[h] = true
					grow(h, d+1)
				}
			}
		}
		grow(f, 0)
		var members []*ssa.Function
		for g := range tree {
			members = append(members, g)
		}
		sort.Slice(members, func(i, j int) bool { return core.FuncKey(members[i]) < core.FuncKey(members[j]) })
		isRaw := func(v ssa.Value) bool {
			a := &a5Ancestry{IsBoundary: func(fl *types.Var) bool { return fl == r.dataFld }, DataArgs: c07DataArgs}
			return a.Count(v).Reach
		}
		for _, g := range members {
			for _, ci := range core.Calls(g) {
				call, ok := ci.(*ssa.Call)
				if !ok || call.Call.StaticCallee() != r.createNode || len(call.Call.Args) != 2 {
					continue
				}
				k, ok := call.Call.Args[0].(*ssa.Const)
				if !ok || k.Value == nil || k.Value.ExactString() != r.textNode {
					continue
				}
				usesDefault, good, nonRaw, raw := false, true, 0, 0
				seen := map[ssa.Value]bool{}
				var leaves func(v ssa.Value)
				leaves = func(v ssa.Value) {
					if seen[v] {
						return
					}
					seen[v] = true
					// the value is computed by a helper of the package: its returned values are the alternatives
					{
						cv, idx := v, 0
						if ex, ok := cv.(*ssa.Extract); ok {
							cv, idx = ex.Tuple, ex.Index
						}
						if hc, ok := cv.(*ssa.Call); ok && !hc.Call.IsInvoke() {
							if h := hc.Call.StaticCallee(); h != nil && h.Blocks != nil && core.FuncPkg(h) == r.edi && len(seen) < 64 {
								rets := c19Returns(h)
								for _, rt := range rets {
									if idx < len(rt.Results) {
										leaves(rt.Results[idx])
									}
								}
								if len(rets) > 0 {
									return
								}
							}
						}
					}
					switch x := v.(type) {
					case *ssa.Phi:
						for _, e := range x.Edges {
							leaves(e)
						}
						return
					case *ssa.Parameter:
						fn := x.Parent()
						followed := false
						for i, fp := range fn.Params {
							if fp != x {
								continue
							}
							for _, cs := range callersIn(fn) {
								if tree[cs.Parent()] && i < len(cs.Call.Args) {
									followed = true
									leaves(cs.Call.Args[i])
								}
							}
						}
						if followed {
							return
						}
					}
					if isRaw(v) {
						raw++
						return // raw element data: R07b
					}
					nonRaw++
					switch x := v.(type) {
					case *ssa.Const:
						if x.Value == nil || x.Value.Kind() != constant.String || constant.StringVal(x.Value) != "" {
							good = false
						}
					case *ssa.UnOp:
						if x.Op == token.MUL && fieldOfLoad(x.X) == r.defFld {
							usesDefault = true
						} else {
							good = false
						}
					default:
						good = false
					}
				}
				leaves(call.Call.Args[1])
				if nonRaw == 0 {
					continue
				}
				if raw > 0 {
					// mixing is judged per creation context: when the data is a parameter of a node-making helper, each
					// call site of the helper is one context (benign 9: addElemNode(n, name, data) called once with raw
					// data and once with the default)
					mixed := true
					if prm, ok := call.Call.Args[1].(*ssa.Parameter); ok {
						fn := prm.Parent()
						var sites []ssa.Value
						for i, fp := range fn.Params {
							if fp != prm {
								continue
							}
							for _, cs := range callersIn(fn) {
								if tree[cs.Parent()] && i < len(cs.Call.Args) {
									sites = append(sites, cs.Call.Args[i])
								}
							}
						}
						if len(sites) > 0 {
							mixed = false
							for _, sv := range sites {
								raw, nonRaw = 0, 0
								seen = map[ssa.Value]bool{}
								leaves(sv)
								if raw > 0 && nonRaw > 0 {
									mixed = true
								}
							}
						}
					}
					if mixed {
						// one text node whose data is the element's raw data on some paths and something else on others: an
						// element that IS present in the segment is replaced (seed C07-19: the default stands in for an empty value)
						c.Bad("R07c", fk+" text node of a present element", core.InstrPos(call), "the data of a text node created for an element found in the segment is, on some path, not the element's (unescaped) raw data but a default/constant: values present in the segment are tokenized as they are, the default applies only to a missing element")
						continue
					}
				}
				c.Check(good && usesDefault, "R07c", fk+" text node for a missing element", core.InstrPos(call), "data is \"\" or the declared default",
					"the node created for a missing element does not carry the declared default (or the empty string)")
			}
		}
	}
}
