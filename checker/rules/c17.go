package rules

import (
	"go/token"
	"go/types"
	"sort"
	"strings"

	"golang.org/x/tools/go/ssa"

	"omnilint/core"
)

func init() {
	register(&RuleSet{
		Prop:  "C17",
		Title: "Memory retained while streaming does not grow with records delivered",
		Explanation: "Retention has one cause here: a node that stays attached to the long-lived tree. " +
			"R17a for every reader type whose methods hand out a *Node held in a field (holder: stream / target; resolved by role), every path of Read from the entry to the first input-consuming call either knows the holder to be nil or has passed RemoveAndReleaseTree(holder) and a nil store into it; " +
			"R17b every method Release(n *Node) of the repository reaches, on every path where n is not known to be nil, RemoveAndReleaseTree(n) or a delegation Release(n) to another reader; " +
			"R17c in the Read of every schemahandler.Ingester implementation, on every path to the call of FormatReader.Read the raw-record holder (the location the read node is stored into) is known nil or has been passed to FormatReader.Release; " +
			"R17d for every branch in a built-in reader that depends on an xpath query and separates a side that delivers a node (returns it / stores it into the holder) from a side that does not, the non-delivering side passes that node to RemoveAndReleaseTree on every path before it returns or consumes input - unless the node was never attached (a free-standing root built by a node-building function); " +
			"R17e separators: every unit fetched by a line/token fetch of the library (ios.ReadLine, ios.ByteReadLine, bufio.Scanner.Bytes/Text) escapes (is returned, stored, passed on) only under a branch whose condition depends on the unit's content; every attachment made under a type case encoding/xml.CharData must be guarded by a condition depending on the token's content or on the candidate holder, or the reader must remove non-candidate nodes somewhere.",
		NotDecided: "the actual size bound; growth through legitimately retained non-target siblings and ancestors; the buffers (records, linesBuf) whose boundedness is arithmetic on runtime lengths; that the content guard of R17e really rejects exactly the blank units (only its presence and position are checked); blank-line handling of encoding/csv and whitespace handling of encoding/json are library contracts.",
		Trusted: append([]string{"encoding/csv skips empty lines; encoding/json produces no token for insignificant whitespace; encoding/xml delivers inter-element whitespace as CharData tokens",
			"input-consuming library entry points are the methods of bufio/encoding/{xml,json,csv}/go-corelib ios reader types and ios.ReadLine/ByteReadLine"}, commonTrusted...),
		Run: runC17,
	})
	control(Control{ID: "c17-read-no-just-in-case", Prop: "C17", File: "extensions/omniv21/fileformat/fixedlength/reader.go",
		Old: "\tif r.target != nil {\n\t\t// This is just in case Release() isn't called by ingester.\n\t\tidr.RemoveAndReleaseTree(r.target)\n\t\tr.target = nil\n\t}\n", New: "",
		Rule: "R17a", Substr: "fileformat/fixedlength.reader).Read", Why: "a caller that does not Release keeps every delivered envelope attached to the root"})
	control(Control{ID: "c17-xml-read-no-just-in-case", Prop: "C17", File: "idr/xmlreader.go",
		Old: "\tif sp.stream != nil {\n\t\tRemoveAndReleaseTree(sp.stream)\n\t\tsp.stream = nil\n\t}\n\tn, sp.err = sp.parse()", New: "\tn, sp.err = sp.parse()",
		Rule: "R17a", Substr: "XMLStreamReader).Read", Why: "a caller that does not Release keeps every delivered record attached"})
	control(Control{ID: "c17-hier-read-no-just-in-case", Prop: "C17", File: "extensions/omniv21/fileformat/flatfile/hierarchyReader.go",
		Old: "\tif r.target != nil {\n\t\t// This is just in case Release() isn't called by ingester.\n\t\tidr.RemoveAndReleaseTree(r.target)\n\t\tr.target = nil\n\t}\n", New: "\tr.target = nil\n",
		Rule: "R17a", Substr: "HierarchyReader).Read", Why: "holder cleared without detaching the delivered record"})
	control(Control{ID: "c17-release-only-clears", Prop: "C17", File: "extensions/omniv21/fileformat/fixedlength/reader.go",
		Old: "\tif r.target == n {\n\t\tr.target = nil\n\t}\n\tidr.RemoveAndReleaseTree(n)", New: "\tif r.target == n {\n\t\tr.target = nil\n\t}",
		Rule: "R17b", Substr: "fileformat/fixedlength.reader).Release", Why: "Release forgets the node but leaves it attached to the root"})
	control(Control{ID: "c17-release-stream-only-clears", Prop: "C17", File: "idr/xmlreader.go",
		Old: "\tif n == sp.stream {\n\t\tsp.stream = nil\n\t}\n\tRemoveAndReleaseTree(n)", New: "\tif n == sp.stream {\n\t\tsp.stream = nil\n\t}",
		Rule: "R17b", Substr: "XMLStreamReader).Release", Why: "delivered record never detached"})
	control(Control{ID: "c17-ingester-no-release", Prop: "C17", File: "extensions/omniv21/ingester.go",
		Old: "\t\tg.reader.Release(g.rawRecord.node)\n", New: "",
		Rule: "R17c", Substr: "ingester).Read", Why: "ingester drops its reference without releasing the record"})
	control(Control{ID: "c17-hier-filtered-stays", Prop: "C17", File: "extensions/omniv21/fileformat/flatfile/hierarchyReader.go",
		Old: "\t\t\tidr.RemoveAndReleaseTree(cur.recNode)\n\t\t\tcur.recNode = nil\n", New: "\t\t\tcur.recNode = nil\n",
		Rule: "R17d", Substr: "HierarchyReader).recDone", Why: "filtered-out record stays attached to its parent"})
	control(Control{ID: "c17-fixedlength-filtered-stays", Prop: "C17", File: "extensions/omniv21/fileformat/fixedlength/reader.go",
		Old: "\t\tidr.RemoveAndReleaseTree(node)\n\t\tgoto readEnvelope", New: "\t\tgoto readEnvelope",
		Rule: "R17d", Substr: "fileformat/fixedlength.reader).Read", Why: "filtered-out envelope stays under the root"})
	control(Control{ID: "c17-blank-line-kept", Prop: "C17", File: "extensions/omniv21/fileformat/fixedlength/reader.go",
		Old: "\t\tif len(line) == 0 {\n\t\t\tcontinue\n\t\t}\n", New: "",
		Rule: "R17e", Substr: "fileformat/fixedlength.reader).readLine", Why: "blank lines are handed on and become (empty) envelopes"})
	control(Control{ID: "c17-blank-line-kept-flatfile", Prop: "C17", File: "extensions/omniv21/fileformat/flatfile/fixedlength/reader.go",
		Old: "\t\tif len(b) > 0 {\n\t\t\tr.linesBuf = append(r.linesBuf, line{lineNum: r.linesRead, b: b})\n\t\t\treturn nil\n\t\t}", New: "\t\tr.linesBuf = append(r.linesBuf, line{lineNum: r.linesRead, b: b})\n\t\treturn nil",
		Rule: "R17e", Substr: "flatfile/fixedlength.reader).readLine", Why: "blank lines enter the line buffer and are matched as envelopes"})
	control(Control{ID: "c17-edi-crlf-token-kept", Prop: "C17", File: "extensions/omniv21/fileformat/edi/reader2.go",
		Old: "\t\tif onlyCRLF {\n\t\t\tcontinue\n\t\t}\n", New: "\t\t_ = onlyCRLF\n",
		Rule: "R17e", Substr: "NonValidatingReader).Read", Why: "CR/LF-only tokens become segments"})
}

func runC17(c *core.Ctx) {
	e := c04NewEnv(c, "R17")
	if e == nil || !e.resolveReaders("R17") {
		return
	}
	cursor := map[*types.TypeName]*c04Reader{}
	for _, r := range e.readers {
		cursor[r.tn] = r
	}
	rts := e.readerTypes()

	// ---------------- R17a
	for _, tn := range rts {
		if strings.Contains(tn.Pkg().Path(), "/samples") {
			continue
		}
		var h *types.Var
		var amb bool
		if r := cursor[tn]; r != nil {
			h = r.holder
		} else {
			h, amb = e.holderOf(tn, nil)
		}
		if amb {
			c.Unresolved("R17a", "holder of "+c04TypeKey(tn), "more than one *Node field is handed out by methods")
			continue
		}
		if h == nil {
			continue // no node kept in a field (free-standing records, or a wrapper around another reader)
		}
		c04ReadCleans(e, "R17a", e.readMethod(tn), h, " detaches previously delivered ")
	}
	c.Floor("R17a", 5, "XML, JSON, hierarchy, EDI, old fixed-length")

	c17RuleB(e)
	c17RuleC(e)
	c17RuleD(e, rts, cursor)
	c17RuleE(e)
}

// ---------------------------------------------------------------- R17b

func c17RuleB(e *c04Env) {
	c := e.c
	var rel []*ssa.Function
	for _, f := range e.fns {
		if f.Name() != "Release" || f.Parent() != nil || f.Signature.Recv() == nil || len(f.Params) != 2 || !c04IsPtrTo(f.Params[1].Type(), e.node) {
			continue
		}
		if p := core.FuncPkg(f); p == nil || strings.HasPrefix(p.Path(), core.Mod+"/cli") {
			continue
		}
		rel = append(rel, f)
	}
	isRel := map[*ssa.Function]bool{}
	for _, f := range rel {
		isRel[f] = true
	}
	for _, f := range rel {
		n := f.Params[1]
		key := core.FuncKey(f) + " detaches " + n.Name()
		how := ""
		helper := e.helperPred(func(in ssa.Instruction) bool {
			ci, ok := in.(ssa.CallInstruction)
			if !ok {
				return false
			}
			if c04Callee(ci) == e.remove {
				return true
			}
			return ci.Common().IsInvoke() && ci.Common().Method.Name() == "Release"
		})
		fail, _ := c04WalkInl(f.Blocks[0], 0, 0, func(w *c04Walker, in ssa.Instruction, st int) (int, int) {
			isN := func(v ssa.Value) bool { return w.resolve(v) == ssa.Value(n) }
			switch x := in.(type) {
			case ssa.CallInstruction:
				cc := x.Common()
				if c04Callee(x) == e.remove && isN(cc.Args[0]) {
					how = "RemoveAndReleaseTree(" + n.Name() + ")"
					return st, c04Stop
				}
				if cc.IsInvoke() && c04Callee(x) == nil && cc.Method.Name() == "Release" && len(cc.Args) == 1 && isN(cc.Args[0]) {
					how = "delegates to " + core.ObjKey(cc.Method)
					return st, c04Stop
				}
				if cf := c04Callee(x); cf != nil && cf != f && isRel[cf] && len(c04CallArgs(x)) == 2 && isN(c04CallArgs(x)[1]) {
					how = "delegates to " + core.FuncKey(cf)
					return st, c04Stop
				}
				if helper(x) && w.canDescend(x) {
					return st, c04Descend
				}
			case *ssa.Return:
				if st&1 != 0 {
					return st, c04Stop
				}
				return st, c04Fail
			}
			return st, c04Cont
		}, func(w *c04Walker, from *ssa.BasicBlock, succ int, st int) int {
			if k := c04NilTestEdge(from, func(v ssa.Value) bool { return w.resolve(v) == ssa.Value(n) }); k >= 0 && k == succ {
				return st | 1
			}
			return st
		})
		if fail != nil {
			c.Bad("R17b", key, core.InstrPos(fail), "Release returns on a path where "+n.Name()+" may be non-nil without RemoveAndReleaseTree("+n.Name()+") or a delegating Release: the released record stays attached to the reader's tree")
		} else {
			c.OK("R17b", key, f.Pos(), "every non-nil path reaches the detach ("+how+")")
		}
	}
	c.Floor("R17b", 11, "7 format readers, 2 stream readers, hierarchy reader, jsonlog sample")
}

// ---------------------------------------------------------------- R17c

func c17RuleC(e *c04Env) {
	c := e.c
	shp := c.Pkg("schemahandler")
	var iface *types.Named
	if shp != nil {
		if tn, ok := shp.Types.Scope().Lookup("Ingester").(*types.TypeName); ok {
			iface, _ = tn.Type().(*types.Named)
		}
	}
	if iface == nil {
		c.Unresolved("R17c", "schemahandler.Ingester", "interface not found")
		return
	}
	var reads []*ssa.Function
	for _, f := range e.implementers(iface, "Read") {
		if p := core.FuncPkg(f); p != nil && !core.IsCLIOrSample(p) {
			reads = append(reads, f)
		}
	}
	sort.Slice(reads, func(i, j int) bool { return core.FuncKey(reads[i]) < core.FuncKey(reads[j]) })
	if len(reads) == 0 {
		c.Unresolved("R17c", "Ingester implementations", "no implementation of schemahandler.Ingester in the library")
		return
	}
	for _, f := range reads {
		key := core.FuncKey(f) + " releases previous record before reading"
		// the reader's Read: an interface call named Read whose first result is a *Node
		var readCalls []ssa.CallInstruction
		for _, ci := range core.Calls(f) {
			cc := ci.Common()
			if cc.IsInvoke() && cc.Method.Name() == "Read" {
				if sig, ok := cc.Method.Type().(*types.Signature); ok && sig.Results().Len() >= 1 && c04IsPtrTo(sig.Results().At(0).Type(), e.node) {
					readCalls = append(readCalls, ci)
				}
			}
		}
		if len(readCalls) == 0 {
			c.Unknown("R17c", key, f.Pos(), "no call of a reader's Read() (*Node, error) through an interface found")
			continue
		}
		// holder: the field the read node is stored into
		var holder *types.Var
		for _, rc := range readCalls {
			v := rc.Value()
			if v == nil {
				continue
			}
			for _, u := range core.Referrers(v) {
				ex, ok := u.(*ssa.Extract)
				if !ok || ex.Index != 0 {
					continue
				}
				for _, u2 := range core.Referrers(ex) {
					if fld, sv, ok := c04StoreEvent(u2); ok && sv == ssa.Value(ex) {
						holder = fld
					}
				}
			}
		}
		if holder == nil {
			c.Unknown("R17c", key, f.Pos(), "the node returned by the reader is not kept in a field: cannot identify the raw-record holder")
			continue
		}
		isReadCall := map[ssa.CallInstruction]bool{}
		for _, rc := range readCalls {
			isReadCall[rc] = true
		}
		why := ""
		const knownNil, released, cleared = 1, 2, 4
		isHLoad := func(v ssa.Value) bool { return c04IsLoadOf(v, holder) }
		helper := e.helperPred(func(in ssa.Instruction) bool {
			if _, ok := c04StoreTo(in, holder); ok {
				return true
			}
			ci, ok := in.(ssa.CallInstruction)
			return ok && ci.Common().IsInvoke() && ci.Common().Method.Name() == "Release"
		})
		fail, _ := c04WalkInl(f.Blocks[0], 0, 0, func(w *c04Walker, in ssa.Instruction, st int) (int, int) {
			if v, ok := c04StoreTo(in, holder); ok {
				if core.IsNilConst(w.resolve(v)) {
					return st | cleared, c04Cont
				}
				return st &^ (knownNil | released | cleared), c04Cont
			}
			switch x := in.(type) {
			case ssa.CallInstruction:
				cc := x.Common()
				if cc.IsInvoke() && cc.Method.Name() == "Release" && len(cc.Args) == 1 && isHLoad(w.resolve(cc.Args[0])) {
					return st | released, c04Cont
				}
				if isReadCall[x] {
					if st&(knownNil|released) != 0 {
						return st, c04Stop
					}
					why = "the reader's Read is called on a path where the previous record (" + holder.Name() + ") may be non-nil and was not passed to the reader's Release: the ingester forgets the record while it stays attached to the reader's tree"
					return st, c04Fail
				}
				if helper(x) && w.canDescend(x) {
					return st, c04Descend
				}
			case *ssa.Return, *ssa.Panic:
				return st, c04Stop
			}
			return st, c04Cont
		}, func(w *c04Walker, from *ssa.BasicBlock, succ int, st int) int {
			if st&cleared != 0 && st&released == 0 {
				return st
			}
			if k := c04NilTestEdge(from, func(v ssa.Value) bool { return isHLoad(w.resolve(v)) }); k >= 0 && k == succ {
				return st | knownNil
			}
			return st
		})
		if fail != nil {
			c.Bad("R17c", key, core.InstrPos(fail), why)
		} else {
			c.OK("R17c", key, f.Pos(), "holder "+holder.Name()+" nil or released on every path to the reader's Read")
		}
	}
	c.Floor("R17c", 1, "omniv21 ingester")
}

// ---------------------------------------------------------------- R17d

// c17NeverAttached: v is the result of a node-building function whose returned node is never used as the
// child operand of AddChild — neither there nor in fn (a free-standing root).
func c17NeverAttached(e *c04Env, fn *ssa.Function, v ssa.Value) bool {
	call, ok := v.(*ssa.Call)
	if !ok {
		return false
	}
	usedAsChild := func(f *ssa.Function, val ssa.Value) bool {
		for _, ci := range core.Calls(f) {
			if c04Callee(ci) == e.addChild && ci.Common().Args[1] == val {
				return true
			}
		}
		return false
	}
	if usedAsChild(fn, v) {
		return false
	}
	cf := c04Callee(call)
	if cf == nil || cf.Blocks == nil || !core.InRepo(core.FuncPkg(cf)) {
		return false
	}
	ri := e.nodeResult(cf.Signature)
	if ri < 0 {
		return false
	}
	for _, b := range cf.Blocks {
		for _, in := range b.Instrs {
			rt, ok := in.(*ssa.Return)
			if !ok || ri >= len(rt.Results) || core.IsNilConst(rt.Results[ri]) {
				continue
			}
			rv := rt.Results[ri]
			if !e.isCreation(rv) || usedAsChild(cf, rv) {
				return false
			}
		}
	}
	return true
}

func c17RuleD(e *c04Env, rts []*types.TypeName, cursor map[*types.TypeName]*c04Reader) {
	c := e.c
	for _, tn := range rts {
		if core.IsCLIOrSample(tn.Pkg()) {
			continue
		}
		rd := cursor[tn]
		var holder *types.Var
		if rd != nil {
			holder = rd.holder
		} else {
			holder, _ = e.holderOf(tn, nil)
		}
		for _, m := range e.byType[tn] {
			ri := e.nodeResult(m.Signature)
			// deliveries of this function
			type deliv struct {
				in  ssa.Instruction
				val ssa.Value
			}
			var ds []deliv
			for _, b := range m.Blocks {
				for _, in := range b.Instrs {
					if rt, ok := in.(*ssa.Return); ok && ri >= 0 && ri < len(rt.Results) && !core.IsNilConst(rt.Results[ri]) {
						ds = append(ds, deliv{in, rt.Results[ri]})
					}
					if rd == nil && holder != nil {
						if v, ok := c04StoreTo(in, holder); ok && !core.IsNilConst(v) {
							ds = append(ds, deliv{in, v})
						}
					}
				}
			}
			for _, b := range m.Blocks {
				if len(b.Instrs) == 0 {
					continue
				}
				ifi, ok := b.Instrs[len(b.Instrs)-1].(*ssa.If)
				if !ok {
					continue
				}
				qs := e.condQueries(ifi.Cond)
				if len(qs) == 0 {
					continue
				}
				qname := c04CalleeKey(qs[0])
				key := core.FuncKey(m) + " filter by " + qname
				// marking decisions of stream readers are not filter decisions
				if rd != nil {
					isMark := false
					for _, d := range rd.marks {
						if d.fn == m {
							for _, ed := range e.cd(m).controlling(d.instr.Block()) {
								if ed.from == b {
									isMark = true
								}
							}
						}
					}
					if isMark {
						continue
					}
				}
				// which successors can deliver without consuming input first?
				delivers := func(start *ssa.BasicBlock) []ssa.Value {
					var vals []ssa.Value
					c04Walk(start, 0, 0, func(in ssa.Instruction, st int) (int, int) {
						for _, d := range ds {
							if d.in == in {
								vals = append(vals, d.val)
							}
						}
						if ci, ok := in.(ssa.CallInstruction); ok && e.consumes(ci) {
							return st, c04Stop
						}
						return st, c04Cont
					}, nil)
					return vals
				}
				v0, v1 := delivers(b.Succs[0]), delivers(b.Succs[1])
				switch {
				case len(v0) > 0 && len(v1) > 0:
					c.Note("R17d: %s: both sides of the query branch deliver; nothing is filtered out here", key)
					continue
				case len(v0) == 0 && len(v1) == 0:
					c.Unknown("R17d", key, core.InstrPos(ifi), "a reader branches on an xpath query but neither side delivers a node in this function: cannot identify the candidate that must be detached when the filter fails")
					continue
				}
				cands, rej := v0, b.Succs[1]
				if len(v0) == 0 {
					cands, rej = v1, b.Succs[0]
				}
				free := true
				for _, cv := range cands {
					if !c17NeverAttached(e, m, cv) {
						free = false
					}
				}
				if free {
					c.OK("R17d", key, core.InstrPos(ifi), "the candidate is a free-standing root that is never attached to a persistent tree")
					continue
				}
				why := ""
				helper := e.helperPred(func(in ssa.Instruction) bool {
					ci, ok := in.(ssa.CallInstruction)
					return ok && c04Callee(ci) == e.remove
				})
				fail, _ := c04WalkInl(rej, 0, 0, func(w *c04Walker, in ssa.Instruction, st int) (int, int) {
					switch x := in.(type) {
					case ssa.CallInstruction:
						if c04Callee(x) == e.remove {
							for _, cv := range cands {
								if w.same(x.Common().Args[0], cv) {
									return st, c04Stop
								}
							}
						}
						if helper(x) && w.canDescend(x) {
							return st, c04Descend
						}
						if e.consumes(x) {
							why = "input is consumed (" + c04CalleeKey(x) + ")"
							return st, c04Fail
						}
					case *ssa.Return:
						why = "the function returns"
						return st, c04Fail
					}
					return st, c04Cont
				}, nil)
				if fail != nil {
					c.Bad("R17d", key, core.InstrPos(fail), "on the side of the filter branch that does not deliver the candidate, "+why+" without RemoveAndReleaseTree(candidate): the filtered-out node stays attached")
				} else {
					c.OK("R17d", key, core.InstrPos(ifi), "filtered-out candidate detached on every path before return / next input")
				}
			}
		}
	}
	c.Floor("R17d", 6, "xml, json, hierarchy, edi, old fixed-length, old csv")
}

// ---------------------------------------------------------------- R17e

// c17Predicate: results of the callee are all of basic type (a predicate / measure of its arguments).
func c17PredicateLike(ci ssa.CallInstruction) bool {
	if _, ok := ci.Common().Value.(*ssa.Builtin); ok {
		return true
	}
	sig := ci.Common().Signature()
	if sig == nil || sig.Results().Len() == 0 {
		return false
	}
	for i := 0; i < sig.Results().Len(); i++ {
		if _, ok := sig.Results().At(i).Type().Underlying().(*types.Basic); !ok {
			return false
		}
	}
	return true
}

// c17ContentConds computes, for a unit value u, (1) the aliases of u (conversions, slices, phis), (2) the
// set of values computed from u's content through predicate-like calls and operators.
func c17ContentDerived(u ssa.Value) (alias, derived map[ssa.Value]bool) {
	alias = map[ssa.Value]bool{u: true}
	derived = map[ssa.Value]bool{}
	work := []ssa.Value{u}
	push := func(m map[ssa.Value]bool, v ssa.Value) {
		if !m[v] {
			m[v] = true
			work = append(work, v)
		}
	}
	for len(work) > 0 {
		v := work[len(work)-1]
		work = work[:len(work)-1]
		for _, r := range core.Referrers(v) {
			switch x := r.(type) {
			case *ssa.Convert:
				if alias[v] {
					push(alias, x)
				} else {
					push(derived, x)
				}
			case *ssa.ChangeType:
				if alias[v] {
					push(alias, x)
				} else {
					push(derived, x)
				}
			case *ssa.Slice:
				if alias[v] && x.X == v {
					push(alias, x)
				}
			case *ssa.BinOp:
				if core.IsNilConst(x.X) || core.IsNilConst(x.Y) {
					continue // a nil test says nothing about the content
				}
				push(derived, x)
			case *ssa.UnOp:
				if x.Op != token.MUL {
					push(derived, x)
				}
			case *ssa.Extract:
				if derived[v] {
					push(derived, x)
				}
			case *ssa.Call:
				if c17PredicateLike(x) {
					push(derived, x)
				}
			case *ssa.Phi:
				if derived[v] && !alias[v] {
					push(derived, x)
				}
			}
		}
	}
	return
}

func c17RuleE(e *c04Env) {
	c := e.c
	// (1) unit fetches
	for _, f := range e.fns {
		if p := core.FuncPkg(f); p == nil || strings.HasPrefix(p.Path(), core.Mod+"/cli") {
			continue
		}
		for _, ci := range core.Calls(f) {
			o := core.CalleeObj(ci)
			if o == nil || o.Pkg() == nil || ci.Value() == nil {
				continue
			}
			var unit ssa.Value
			switch {
			case o.Pkg().Path() == "github.com/jf-tech/go-corelib/ios" && (o.Name() == "ReadLine" || o.Name() == "ByteReadLine"):
				for _, r := range core.Referrers(ci.Value()) {
					if ex, ok := r.(*ssa.Extract); ok && ex.Index == 0 {
						unit = ex
					}
				}
			case o.Pkg().Path() == "bufio" && (core.FuncName(o) == "Scanner.Bytes" || core.FuncName(o) == "Scanner.Text"):
				unit = ci.Value()
			default:
				continue
			}
			key := core.FuncKey(f) + " hands on unit fetched by " + core.ObjKey(o)
			if unit == nil {
				c.OK("R17e", key, core.InstrPos(ci), "fetched unit is not used")
				continue
			}
			alias, derived := c17ContentDerived(unit)
			cd := e.cd(f)
			guarded := func(b *ssa.BasicBlock) bool {
				for _, ed := range cd.controlling(b) {
					if ifi := ed.ifInstr(); ifi != nil && derived[ifi.Cond] {
						return true
					}
				}
				return false
			}
			var bad ssa.Instruction
			var vals []ssa.Value
			for v := range alias {
				vals = append(vals, v)
			}
			sort.Slice(vals, func(i, j int) bool { return vals[i].Pos() < vals[j].Pos() })
			done := map[ssa.Value]bool{}
			for len(vals) > 0 {
				v := vals[0]
				vals = vals[1:]
				if done[v] {
					continue
				}
				done[v] = true
				for _, r := range core.Referrers(v) {
					if bad != nil {
						break
					}
					switch x := r.(type) {
					case *ssa.DebugRef:
					case *ssa.Convert, *ssa.ChangeType, *ssa.Slice, *ssa.BinOp, *ssa.Index, *ssa.IndexAddr, *ssa.Lookup:
						// aliases (examined themselves) and content computations
					case *ssa.UnOp:
					case *ssa.Phi:
						// the unit flows into a loop / merge variable: fine if the edge it arrives on is guarded; otherwise the
						// variable carries the (possibly blank) unit and its own uses must be guarded by conditions on it
						// (`for len(b) == 0 { b = read() }; use(b)`)
						for i, ed := range x.Edges {
							if ed == v && i < len(x.Block().Preds) && !guarded(x.Block().Preds[i]) && !done[x] {
								a2, d2 := c17ContentDerived(x)
								for k := range d2 {
									derived[k] = true
								}
								var more []ssa.Value
								for k := range a2 {
									if !alias[k] {
										alias[k] = true
										more = append(more, k)
									}
								}
								sort.Slice(more, func(i, j int) bool { return more[i].Name() < more[j].Name() })
								vals = append(vals, more...)
							}
						}
					case *ssa.Call:
						if c17PredicateLike(x) && c17FeedsCond(x, derived) {
							continue // guard computation
						}
						if !guarded(x.Block()) {
							bad = x
						}
					default:
						if !guarded(r.Block()) {
							bad = r
						}
					}
				}
			}
			if bad != nil {
				c.Bad("R17e", key, core.InstrPos(bad), "the fetched line/token is handed on ("+c04Describe(bad)+") on a path that is not controlled by any condition on its content: blank separator units become records/nodes")
			} else {
				c.OK("R17e", key, core.InstrPos(ci), "every escaping use of the fetched unit is control dependent on a condition over its content")
			}
		}
	}
	// (2) XML character data
	for _, r := range e.readers {
		for _, m := range r.methods {
			for _, b := range m.Blocks {
				for _, in := range b.Instrs {
					ta, ok := in.(*ssa.TypeAssert)
					if !ok {
						continue
					}
					if pkg, name := c04NamedPath(ta.AssertedType); pkg != "encoding/xml" || name != "CharData" {
						continue
					}
					c17CharData(e, r, m, ta)
				}
			}
		}
	}
	c.Floor("R17e", 5, "4 unit fetches (old fixed-length, fixed-length, EDI, jsonlog) + XML CharData attach")
}

func c17FeedsCond(call *ssa.Call, derived map[ssa.Value]bool) bool {
	if !derived[call] {
		return false
	}
	seen := map[ssa.Value]bool{}
	var walk func(v ssa.Value) bool
	walk = func(v ssa.Value) bool {
		if seen[v] {
			return false
		}
		seen[v] = true
		for _, r := range core.Referrers(v) {
			if _, ok := r.(*ssa.If); ok {
				return true
			}
			if rv, ok := r.(ssa.Value); ok && derived[rv] && walk(rv) {
				return true
			}
		}
		return false
	}
	return walk(call)
}

// c17CharData: attachments under `case xml.CharData`.
func c17CharData(e *c04Env, r *c04Reader, m *ssa.Function, ta *ssa.TypeAssert) {
	c := e.c
	entry := c04TypeCaseEntry(ta)
	if entry == nil {
		c.Unknown("R17e", core.FuncKey(m)+" case encoding/xml.CharData", core.InstrPos(ta), "cannot find the branch on the type test")
		return
	}
	var tokVal ssa.Value = ta
	for _, u := range core.Referrers(ta) {
		if ex, ok := u.(*ssa.Extract); ok && ex.Index == 0 {
			tokVal = ex
		}
	}
	// does the reader remove non-candidate nodes anywhere?
	sweeps := false
	for _, f := range r.methods {
		for _, ci := range core.Calls(f) {
			if c04Callee(ci) != e.remove {
				continue
			}
			a := ci.Common().Args[0]
			if _, isParam := a.(*ssa.Parameter); isParam || c04IsLoadOf(a, r.holder) {
				continue
			}
			sweeps = true
		}
	}
	// The case body is walked with helper methods seen through. guarded: the path passed a branch whose condition
	// depends on the token's content or on the candidate holder.
	const guarded = 1
	via := func(w *c04Walker, in ssa.Instruction) string {
		if len(w.stack) > 0 {
			return c04CalleeKey(w.stack[0])
		}
		if ci, ok := in.(ssa.CallInstruction); ok {
			return c04CalleeKey(ci)
		}
		return "store"
	}
	okSites := map[string]token.Pos{}
	okHow := map[string]string{}
	failVia := ""
	judge := func(w *c04Walker, in ssa.Instruction, st int) (int, int) {
		v := via(w, in)
		switch {
		case st&guarded != 0:
			if _, dup := okSites[v]; !dup {
				okSites[v], okHow[v] = core.InstrPos(in), "attachment guarded by a condition on the token's content or on the candidate holder "+r.holder.Name()
			}
			return st, c04Stop
		case sweeps:
			if _, dup := okSites[v]; !dup {
				okSites[v], okHow[v] = core.InstrPos(in), "the reader removes non-candidate nodes elsewhere"
			}
			return st, c04Stop
		}
		failVia = v
		return st, c04Fail
	}
	fail, _ := c04WalkInl(entry, 0, 0, func(w *c04Walker, in ssa.Instruction, st int) (int, int) {
		switch x := in.(type) {
		case ssa.CallInstruction:
			cf := c04Callee(x)
			if cf == e.addChild && c04IsLoadOf(x.Common().Args[0], r.cur) {
				return judge(w, in, st)
			}
			if cf != nil && e.isMethodOf(r, cf) && w.canDescend(x) {
				return st, c04Descend
			}
			if e.attachSite(r, in) || e.advanceSite(r, in) {
				return judge(w, in, st)
			}
			if e.consumes(x) {
				return st, c04Stop
			}
		case *ssa.Return, *ssa.Panic:
			return st, c04Stop
		}
		return st, c04Cont
	}, func(w *c04Walker, from *ssa.BasicBlock, succ int, st int) int {
		if len(from.Instrs) == 0 {
			return st
		}
		ifi, ok := from.Instrs[len(from.Instrs)-1].(*ssa.If)
		if !ok {
			return st
		}
		var isTok func(v ssa.Value) bool
		isTok = func(v ssa.Value) bool {
			if v == tokVal {
				return true
			}
			if rv := w.resolve(v); rv != v {
				return rv == tokVal || c04DependsOn(rv, isTok)
			}
			return false
		}
		if c04DependsOn(ifi.Cond, isTok) || c04DependsOn(ifi.Cond, func(x ssa.Value) bool { return c04IsLoadOf(x, r.holder) }) {
			return st | guarded
		}
		return st
	})
	base := core.FuncKey(m) + " attaches encoding/xml.CharData text via "
	if fail != nil {
		c.Bad("R17e", base+failVia, core.InstrPos(fail), "character data is attached to the cursor unconditionally (no condition on the text or on the candidate holder, and the reader never removes non-candidate nodes): whitespace between records accumulates as text children of their parent")
		return
	}
	var keys []string
	for k := range okSites {
		keys = append(keys, k)
	}
	sort.Strings(keys)
	for _, k := range keys {
		c.OK("R17e", base+k, okSites[k], okHow[k])
	}
	if len(keys) == 0 {
		c.OK("R17e", core.FuncKey(m)+" case encoding/xml.CharData attaches nothing", core.InstrPos(ta), "no node is created for character data on any path")
	}
}
