package rules

// R09j: a borrowed value kept in function locals does not survive a later refill in the same activation.
//
// R09a covers borrowed slices that are stored outside the storing function's locals. A borrowed slice can also be kept
// in locals (an SSA register, a loop-carried Phi, an append chain, a local composite) while the same function refills
// the decoder that lent it, and be read afterwards. This is a forward may-dataflow over the SSA control-flow graph of
// every library function with two bits per value: `holds` (may reference bytes lent by a decoder) and `stale` (a refill
// may have executed since those bytes were lent).
//   - a borrow-producing call (a borrow source, or a repository function that reaches a source/refill and returns
//     borrowed data per the A5 taint) defines a fresh value; a borrowed parameter is fresh at entry;
//   - slicing, Phi, Extract, struct/slice construction, append, loads/stores of local variables derive the bits;
//     x[:0] drops them; string(b) and copy are reads;
//   - a refill call (a refill primitive or a repository function that reaches one) makes every value that holds stale;
//   - reading a stale value (call argument, element load, copying conversion, copy, store to non-local memory, return,
//     closure capture) violates the obligation of the borrow definitions in the function.
// The loop shapes `line := next(); use(line)`, `for { use(line); line = next() }` and accumulate-then-read are decided by
// the dataflow itself: a Phi is as stale as the value arriving over each edge, and an accumulator that is fed from itself
// stays stale once a refill has happened.

import (
	"fmt"
	"go/token"
	"go/types"
	"sort"

	"golang.org/x/tools/go/ssa"

	"omnilint/core"
)

func init() {
	control(Control{ID: "c09-fixedlength-rows-kept-across-readline", Prop: "C09", File: "extensions/omniv21/fileformat/fixedlength/reader.go",
		Old:  "\tcolumnsDone := make([]bool, len(envelopeDecl.Columns))\n\tfor i := 0; i < envelopeDecl.byRows(); i++ {\n\t\tline, err := r.readLine()\n",
		New:  "\tcolumnsDone := make([]bool, len(envelopeDecl.Columns))\n\tvar rows [][]byte\n\tfor i := 0; i < envelopeDecl.byRows(); i++ {\n\t\tline, err := r.readLine()\n\t\tif rows = append(rows, line); err == nil {\n\t\t\tline = rows[0]\n\t\t}\n",
		Rule: "R09j", Substr: "readByRowsEnvelope", Why: "rows of earlier iterations are read after readLine refilled bufio's buffer"})
	control(Control{ID: "c09-csv-header-read-after-jump", Prop: "C09", File: "extensions/omniv21/fileformat/csv/reader.go",
		Old:  "skipToDataRow:\n\tif err = r.jumpTo(r.decl.DataRowIndex - 1); err != nil {\n\t\treturn err\n\t}\n",
		New:  "skipToDataRow:\n\tif err = r.jumpTo(r.decl.DataRowIndex - 1); err != nil {\n\t\treturn err\n\t}\n\tif len(header) > 0 && header[0] == \"\" {\n\t\treturn nil\n\t}\n",
		Rule: "R09j", Substr: "checkHeader", Why: "the reused csv record is read after further csv reads"})
}

const (
	c09gHolds = 1
	c09gStale = 2
)

// low two bits: flags; higher bits: set of borrow definitions (by index) the value may stem from
type c09gState map[ssa.Value]uint64

func (s c09gState) clone() c09gState {
	o := make(c09gState, len(s))
	for k, v := range s {
		o[k] = v
	}
	return o
}

// union merges o into s; reports whether s changed.
func (s c09gState) union(o c09gState) bool {
	ch := false
	for k, v := range o {
		if s[k]|v != s[k] {
			s[k] |= v
			ch = true
		}
	}
	return ch
}

type c09gAnalysis struct {
	c        *core.Ctx
	t        *c09Taint
	refillFn map[*ssa.Function]bool // repository functions that (transitively) execute a refill primitive
	srcFn    map[*ssa.Function]bool // ... or a borrow source
}

// c09gRefillPrim: the call invalidates slices previously lent by the decoder it is called on.
func c09gRefillPrim(ci ssa.CallInstruction) bool {
	o := core.CalleeObj(ci)
	if o == nil || o.Pkg() == nil {
		return false
	}
	switch o.Pkg().Path() + "." + core.FuncName(o) {
	case "github.com/jf-tech/go-corelib/ios.ByteReadLine",
		"bufio.Reader.ReadLine", "bufio.Reader.ReadSlice", "bufio.Reader.ReadBytes", "bufio.Reader.ReadString", "bufio.Reader.ReadRune",
		"bufio.Reader.ReadByte", "bufio.Reader.Read", "bufio.Reader.Peek", "bufio.Reader.Discard", "bufio.Reader.WriteTo", "bufio.Reader.Reset",
		"bufio.Scanner.Scan",
		"encoding/csv.Reader.Read", "encoding/csv.Reader.ReadAll":
		return true
	}
	return false
}

func (a *c09gAnalysis) callees(ci ssa.CallInstruction) []*ssa.Function {
	cc := ci.Common()
	if g := cc.StaticCallee(); g != nil {
		return []*ssa.Function{g}
	}
	if cc.IsInvoke() {
		return a.t.methodImpls(cc.Method, cc.Value.Type())
	}
	if mc, ok := cc.Value.(*ssa.MakeClosure); ok {
		if fn, ok := mc.Fn.(*ssa.Function); ok {
			return []*ssa.Function{fn}
		}
	}
	return nil
}

func (a *c09gAnalysis) summarise() {
	a.refillFn, a.srcFn = map[*ssa.Function]bool{}, map[*ssa.Function]bool{}
	for changed := true; changed; {
		changed = false
		for _, f := range a.t.fns {
			for _, ci := range core.Calls(f) {
				refill, src := c09gRefillPrim(ci), false
				if call, ok := ci.(*ssa.Call); ok && a.t.sources[call] != nil {
					src = true
				}
				for _, g := range a.callees(ci) {
					refill = refill || a.refillFn[g]
					src = src || a.srcFn[g]
				}
				if refill && !a.refillFn[f] {
					a.refillFn[f] = true
					changed = true
				}
				if src && !a.srcFn[f] {
					a.srcFn[f] = true
					changed = true
				}
			}
		}
	}
}

func (a *c09gAnalysis) isRefill(ci ssa.CallInstruction) bool {
	if c09gRefillPrim(ci) {
		return true
	}
	for _, g := range a.callees(ci) {
		if a.refillFn[g] {
			return true
		}
	}
	return false
}

func c09gHasSrc(tk c09toks) bool {
	for k := range tk {
		if len(k) > 4 && k[:4] == "src:" {
			return true
		}
	}
	return false
}

// producerIndexes: the result indexes of the call that are freshly borrowed from a decoder (nil if the call is not a
// borrow producer).
func (a *c09gAnalysis) isProducer(call *ssa.Call) bool {
	if a.t.sources[call] != nil {
		return true
	}
	for _, g := range a.callees(call) {
		if a.refillFn[g] || a.srcFn[g] {
			return true
		}
	}
	return false
}

type c09gViolation struct {
	pos  token.Pos
	what string
}

// c09Locals runs R09j.
func c09Locals(c *core.Ctx, t *c09Taint) {
	a := &c09gAnalysis{c: c, t: t}
	a.summarise()
	for _, f := range t.fns {
		a.function(f)
	}
	c.Floor("R09j", 7, "borrow definitions held in locals: 7 source calls and the calls/parameters that hand their results on")
}

func (a *c09gAnalysis) function(f *ssa.Function) {
	if f.Blocks == nil {
		return
	}
	t := a.t
	// borrow definitions of this function
	type def struct {
		v    ssa.Value
		name string
		pos  token.Pos
	}
	var defs []def
	defVals := map[ssa.Value]bool{}
	for _, p := range f.Params {
		if c09gHasSrc(t.tok(p)) {
			defs = append(defs, def{p, "parameter " + p.Name(), f.Pos()})
			defVals[p] = true
		}
	}
	for _, fv := range f.FreeVars {
		if c09gHasSrc(t.tok(fv)) {
			defs = append(defs, def{fv, "captured " + fv.Name(), f.Pos()})
			defVals[fv] = true
		}
	}
	for _, ci := range core.Calls(f) {
		call, ok := ci.(*ssa.Call)
		if !ok || !a.isProducer(call) {
			continue
		}
		borrowed := c09gHasSrc(t.tok(call))
		for _, u := range core.Referrers(call) {
			if ex, ok := u.(*ssa.Extract); ok && c09gHasSrc(t.tok(ex)) {
				borrowed = true
			}
		}
		if !borrowed {
			continue
		}
		defs = append(defs, def{call, "result of " + c09CalleeName(call), core.InstrPos(call)})
		defVals[call] = true
	}
	if len(defs) == 0 {
		return
	}

	viol := map[ssa.Instruction]string{}
	violMask := map[ssa.Instruction]uint64{}
	report := func(in ssa.Instruction, what string, mask uint64) {
		if _, ok := viol[in]; !ok {
			viol[in] = what
		}
		violMask[in] |= mask
	}
	defIdx := map[ssa.Value]uint{}
	for i, d := range defs {
		if i < 60 {
			defIdx[d.v] = uint(i)
		} else {
			defIdx[d.v] = 59
		}
	}
	fresh := func(v ssa.Value) uint64 { return c09gHolds | 1<<(2+defIdx[v]) }
	localRoot := func(addr ssa.Value) *ssa.Alloc {
		for i := 0; i < 32; i++ {
			switch x := addr.(type) {
			case *ssa.FieldAddr:
				addr = x.X
			case *ssa.IndexAddr:
				if _, isPtr := x.X.Type().Underlying().(*types.Pointer); !isPtr {
					return nil
				}
				addr = x.X
			case *ssa.Alloc:
				return x
			default:
				return nil
			}
		}
		return nil
	}
	elemOf := func(v ssa.Value) types.Type {
		if p, ok := v.Type().Underlying().(*types.Pointer); ok {
			return p.Elem()
		}
		return v.Type()
	}

	// transfer of one instruction on state s (Phis are handled on the edges)
	transfer := func(in ssa.Instruction, s c09gState, record bool) {
		stale := func(v ssa.Value) bool { return s[v]&c09gStale != 0 }
		use := func(v ssa.Value, what string) {
			if record && stale(v) {
				report(in, what, s[v]>>2)
			}
		}
		set := func(v ssa.Value, b uint64) {
			if b == 0 {
				delete(s, v)
			} else {
				s[v] = b
			}
		}
		switch x := in.(type) {
		case *ssa.Phi:
		case *ssa.Alloc:
			set(x, 0) // a fresh object every time the allocation executes
		case *ssa.Slice:
			if k, ok := x.High.(*ssa.Const); ok && k.Value != nil && k.Value.ExactString() == "0" {
				set(x, 0)
			} else {
				set(x, s[x.X])
			}
		case *ssa.ChangeType:
			set(x, s[x.X])
		case *ssa.ChangeInterface:
			set(x, s[x.X])
		case *ssa.MakeInterface:
			set(x, s[x.X])
		case *ssa.TypeAssert:
			if c09CanRef(x.Type()) {
				set(x, s[x.X])
			}
		case *ssa.Extract:
			if c09CanRef(x.Type()) {
				if call, ok := x.Tuple.(*ssa.Call); ok && defVals[call] {
					if c09gHasSrc(t.tok(x)) {
						set(x, s[x.Tuple])
					} else {
						set(x, 0)
					}
				} else {
					set(x, s[x.Tuple])
				}
			}
		case *ssa.Field:
			if c09CanRef(x.Type()) {
				set(x, s[x.X])
			}
		case *ssa.Index:
			if c09CanRef(x.Type()) {
				set(x, s[x.X])
			} else {
				use(x.X, "an element of a borrowed array is read")
			}
		case *ssa.Lookup:
			if c09CanRef(x.Type()) {
				set(x, s[x.X])
			}
		case *ssa.Range:
			set(x, s[x.X])
		case *ssa.Next:
			set(x, s[x.Iter])
		case *ssa.FieldAddr:
			if c09CanRef(elemOf(x)) {
				set(x, s[x.X])
			} else {
				set(x, 0)
			}
		case *ssa.IndexAddr:
			set(x, s[x.X])
		case *ssa.UnOp:
			if x.Op != token.MUL {
				return
			}
			if c09CanRef(x.Type()) {
				set(x, s[x.X])
			} else if _, isAlloc := x.X.(*ssa.Alloc); !isAlloc {
				use(x.X, "an element of the borrowed slice is read")
			}
		case *ssa.Convert:
			if c09CanRef(x.Type()) {
				if _, fromString := x.X.Type().Underlying().(*types.Basic); !fromString {
					set(x, s[x.X])
				}
			} else {
				use(x.X, "the borrowed bytes are converted (copied)")
			}
		case *ssa.Store:
			use(x.Addr, "borrowed memory is written")
			if al := localRoot(x.Addr); al != nil {
				if x.Addr == ssa.Value(al) {
					set(al, s[x.Val])
				} else if s[x.Val] != 0 {
					s[al] |= s[x.Val]
				}
			} else {
				use(x.Val, "the borrowed value is stored outside the function's locals")
			}
		case *ssa.MapUpdate:
			use(x.Value, "the borrowed value is put into a map")
			use(x.Key, "the borrowed value is used as a map key")
		case *ssa.Send:
			use(x.X, "the borrowed value is sent on a channel")
		case *ssa.Return:
			for _, r := range x.Results {
				use(r, "the borrowed value is returned")
			}
		case *ssa.MakeClosure:
			for _, b := range x.Bindings {
				use(b, "the borrowed value is captured by a closure")
			}
		case ssa.CallInstruction:
			cc := x.Common()
			var res uint64
			if bi, ok := cc.Value.(*ssa.Builtin); ok {
				switch bi.Name() {
				case "append":
					res = s[cc.Args[0]]
					if len(cc.Args) > 1 {
						if sl, ok := cc.Args[1].Type().Underlying().(*types.Slice); ok && c09CanRef(sl.Elem()) {
							res |= s[cc.Args[1]]
						} else {
							use(cc.Args[1], "the borrowed elements are copied by append")
						}
					}
				case "copy":
					use(cc.Args[1], "the borrowed elements are copied")
					use(cc.Args[0], "borrowed memory is written")
				}
				if v, ok := in.(*ssa.Call); ok {
					set(v, res)
				}
				return
			}
			for _, ar := range cc.Args {
				use(ar, "the borrowed value is passed to "+c09gCallName(x))
			}
			if cc.IsInvoke() {
				use(cc.Value, "a method is invoked on the borrowed value")
			}
			if a.isRefill(x) {
				for v, b := range s {
					if b&c09gHolds != 0 {
						s[v] = b | c09gStale
					}
				}
			}
			v, ok := in.(*ssa.Call)
			if !ok {
				return
			}
			switch {
			case defVals[v]:
				set(v, fresh(v))
			case len(t.tok(v)) > 0 || c09CanRef(v.Type()):
				// a view of the arguments (bytes.TrimSpace(line), a repository helper that returns its argument)
				for _, ar := range cc.Args {
					res |= s[ar]
				}
				if len(t.tok(v)) == 0 {
					// not borrowed per the taint: only tuples carry on (their Extracts decide)
					if _, isTuple := v.Type().(*types.Tuple); !isTuple {
						res = 0
					}
				}
				set(v, res)
			default:
				set(v, 0)
			}
		}
	}

	// fixpoint over blocks
	entry := map[*ssa.BasicBlock]c09gState{}
	exit := map[*ssa.BasicBlock]c09gState{}
	init := c09gState{}
	for v := range defVals {
		switch v.(type) {
		case *ssa.Parameter, *ssa.FreeVar:
			init[v] = fresh(v)
		}
	}
	entry[f.Blocks[0]] = init
	work := []*ssa.BasicBlock{f.Blocks[0]}
	inWork := map[*ssa.BasicBlock]bool{f.Blocks[0]: true}
	edgeState := func(p, b *ssa.BasicBlock) c09gState {
		// state arriving in b over the edge from p: p's exit state plus the Phis of b evaluated on that edge
		st := exit[p].clone()
		idx := -1
		for i, q := range b.Preds {
			if q == p {
				idx = i
			}
		}
		for _, in := range b.Instrs {
			phi, ok := in.(*ssa.Phi)
			if !ok {
				break
			}
			if idx >= 0 {
				if bits := exit[p][phi.Edges[idx]]; bits != 0 {
					st[phi] = bits
				} else {
					delete(st, phi)
				}
			}
		}
		return st
	}
	run := func(b *ssa.BasicBlock, record bool) c09gState {
		s := entry[b].clone()
		for _, in := range b.Instrs {
			transfer(in, s, record)
		}
		return s
	}
	for iter := 0; len(work) > 0 && iter < 20000; iter++ {
		b := work[0]
		work = work[1:]
		inWork[b] = false
		exit[b] = run(b, false)
		for _, sc := range b.Succs {
			st := edgeState(b, sc)
			if entry[sc] == nil {
				entry[sc] = c09gState{}
				entry[sc].union(st)
				if !inWork[sc] {
					work, inWork[sc] = append(work, sc), true
				}
				continue
			}
			if entry[sc].union(st) && !inWork[sc] {
				work, inWork[sc] = append(work, sc), true
			}
		}
	}
	for _, b := range f.Blocks {
		if entry[b] != nil {
			run(b, true)
		}
	}

	// one obligation per borrow definition
	var bad []ssa.Instruction
	for in := range viol {
		bad = append(bad, in)
	}
	sort.Slice(bad, func(i, j int) bool { return core.InstrPos(bad[i]) < core.InstrPos(bad[j]) })
	fk := core.FuncKey(f)
	for _, d := range defs {
		key := fk + " keeps the borrowed " + d.name + " only until the next refill"
		var mine []ssa.Instruction
		for _, in := range bad {
			if violMask[in]&(1<<defIdx[d.v]) != 0 {
				mine = append(mine, in)
			}
		}
		if len(mine) == 0 {
			a.c.OK("R09j", key, d.pos, "no read of the value (or of anything sliced, appended or built from it) is reachable after a later refill of the decoder")
			continue
		}
		in := mine[0]
		a.c.Bad("R09j", key, core.InstrPos(in), fmt.Sprintf("%s after a later read of the decoder may have overwritten the buffer it points into (%d such use(s) in %s): a borrowed slice is only valid until the next refill - copy it first", viol[in], len(mine), fk))
	}
}

func c09gCallName(ci ssa.CallInstruction) string {
	if o := core.CalleeObj(ci); o != nil {
		return core.ObjKey(o)
	}
	return "a function value"
}
