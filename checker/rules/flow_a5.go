package rules

// Shared analysis A5 (the parts the C07/C09/C18/C19 rules need).
//
//  * a5Resolver: BACKWARD value flow with access paths. Answers "which declaration field does this value originate
//    from" for values that travel declaration -> constructor -> struct field of a reader -> use site, through
//    conversions, Phi, Extract, composite literals, struct-valued locals, stores to struct fields (field based, by
//    types.Var identity), and calls to repository functions (results followed into the callee's returns, parameters
//    followed back to the call site that is on the resolution stack, or to every call site).
//  * a5Ancestry: backward walk over the values a byte slice is computed from inside one function (Phi, slicing,
//    conversions, element loads, local arrays/structs, call arguments), used to count calls of a given kind on every
//    derivation path.

import (
	"fmt"
	"go/constant"
	"go/token"
	"go/types"
	"sort"
	"strings"

	"golang.org/x/tools/go/ssa"

	"omnilint/core"
)

// a5Origins is a set of origin descriptions: "field:<owner>.<name>", "nil", "const:<v>", "opaque:<why>".
type a5Origins map[string]bool

func (o a5Origins) List() []string {
	var out []string
	for k := range o {
		out = append(out, k)
	}
	sort.Strings(out)
	return out
}

func (o a5Origins) String() string { return "{" + strings.Join(o.List(), ", ") + "}" }

// Fields returns the field origins only.
func (o a5Origins) Fields() []string {
	var out []string
	for _, k := range o.List() {
		if strings.HasPrefix(k, "field:") {
			out = append(out, strings.TrimPrefix(k, "field:"))
		}
	}
	return out
}

// Others returns the origins that are neither fields nor nil.
func (o a5Origins) Others() []string {
	var out []string
	for _, k := range o.List() {
		if !strings.HasPrefix(k, "field:") && k != "nil" {
			out = append(out, k)
		}
	}
	return out
}

type a5store struct {
	chain []*types.Var // fields from the root outwards-in: root.f1.f2 ... (index/load steps dropped)
	val   ssa.Value
	fn    *ssa.Function
}

type a5Resolver struct {
	c       *core.Ctx
	isLeaf  func(*types.Var) bool
	leafKey func(*types.Var) string
	stores  []a5store
	byField map[*types.Var][]int          // store indices whose chain contains the field
	byType  map[string][]int              // whole-value stores by the stored struct type (types.TypeString)
	callers map[*ssa.Function][]*ssa.Call // static call sites per repository function
	budget  int
}

// a5NewResolver indexes the stores and call sites of the repository.
func a5NewResolver(c *core.Ctx, isLeaf func(*types.Var) bool, leafKey func(*types.Var) string) *a5Resolver {
	r := &a5Resolver{c: c, isLeaf: isLeaf, leafKey: leafKey, byField: map[*types.Var][]int{}, byType: map[string][]int{}, callers: map[*ssa.Function][]*ssa.Call{}}
	for _, f := range c.RepoFunctions() {
		for _, w := range core.Writes(f) {
			if w.Val == nil {
				continue
			}
			var chain []*types.Var
			for i := len(w.Chain) - 1; i >= 0; i-- {
				if w.Chain[i].Kind == "field" && w.Chain[i].Field != nil {
					chain = append(chain, w.Chain[i].Field)
				}
			}
			idx := len(r.stores)
			r.stores = append(r.stores, a5store{chain, w.Val, f})
			for _, fl := range chain {
				r.byField[fl] = append(r.byField[fl], idx)
			}
			if _, ok := w.Val.Type().Underlying().(*types.Struct); ok {
				k := types.TypeString(w.Val.Type(), nil)
				r.byType[k] = append(r.byType[k], idx)
			}
		}
		for _, ci := range core.Calls(f) {
			if call, ok := ci.(*ssa.Call); ok {
				if cf := call.Call.StaticCallee(); cf != nil && cf.Blocks != nil {
					r.callers[cf] = append(r.callers[cf], call)
				}
			}
		}
	}
	return r
}

type a5state struct {
	out  a5Origins
	seen map[string]bool
}

// Resolve returns the origins of value v.
func (r *a5Resolver) Resolve(v ssa.Value) a5Origins {
	st := &a5state{out: a5Origins{}, seen: map[string]bool{}}
	r.budget = 20000
	r.val(st, v, nil, nil, 0)
	return st.out
}

func a5pathKey(p []*types.Var) string {
	var b strings.Builder
	for _, f := range p {
		fmt.Fprintf(&b, "/%p", f)
	}
	return b.String()
}

func (r *a5Resolver) enter(st *a5state, kind string, v ssa.Value, path []*types.Var, ctx []*ssa.Call, depth int) bool {
	r.budget--
	if r.budget < 0 || depth > 60 {
		st.out["opaque:resolution budget exceeded"] = true
		return false
	}
	top := ""
	if len(ctx) > 0 {
		top = fmt.Sprintf("%p", ctx[len(ctx)-1])
	}
	k := fmt.Sprintf("%s|%p|%s|%d|%s", kind, v, a5pathKey(path), len(ctx), top)
	if st.seen[k] {
		return false
	}
	st.seen[k] = true
	return true
}

func a5prepend(f *types.Var, p []*types.Var) []*types.Var {
	out := make([]*types.Var, 0, len(p)+1)
	out = append(out, f)
	return append(out, p...)
}

// val resolves the sub-value `path` of value v.
func (r *a5Resolver) val(st *a5state, v ssa.Value, path []*types.Var, ctx []*ssa.Call, depth int) {
	if !r.enter(st, "v", v, path, ctx, depth) {
		return
	}
	switch x := v.(type) {
	case *ssa.Const:
		if x.IsNil() {
			st.out["nil"] = true
		} else if x.Value == nil {
			st.out["const:zero"] = true
		} else {
			st.out["const:"+x.Value.ExactString()] = true
		}
	case *ssa.UnOp:
		if x.Op == token.MUL {
			r.mem(st, x.X, path, ctx, depth+1)
			return
		}
		st.out["opaque:"+x.Op.String()] = true
	case *ssa.Field:
		r.val(st, x.X, a5prepend(core.FieldOfField(x), path), ctx, depth+1)
	case *ssa.Extract:
		if call, ok := x.Tuple.(*ssa.Call); ok {
			r.callResult(st, call, x.Index, path, ctx, depth+1)
			return
		}
		st.out["opaque:extract"] = true
	case *ssa.Call:
		r.callResult(st, x, 0, path, ctx, depth+1)
	case *ssa.Phi:
		for _, e := range x.Edges {
			r.val(st, e, path, ctx, depth+1)
		}
	case *ssa.Convert:
		r.val(st, x.X, path, ctx, depth+1)
	case *ssa.ChangeType:
		r.val(st, x.X, path, ctx, depth+1)
	case *ssa.Slice:
		if _, isPtr := x.X.Type().Underlying().(*types.Pointer); isPtr {
			r.mem(st, x.X, path, ctx, depth+1)
		} else {
			r.val(st, x.X, path, ctx, depth+1)
		}
	case *ssa.Parameter:
		r.param(st, x, path, ctx, depth, false)
	case *ssa.Alloc, *ssa.FieldAddr, *ssa.IndexAddr, *ssa.Global:
		// a pointer used as a value: what it points to
		r.mem(st, v, path, ctx, depth+1)
	default:
		st.out[fmt.Sprintf("opaque:%T", v)] = true
	}
}

func (r *a5Resolver) param(st *a5state, p *ssa.Parameter, path []*types.Var, ctx []*ssa.Call, depth int, asMem bool) {
	fn := p.Parent()
	idx := -1
	for i, fp := range fn.Params {
		if fp == p {
			idx = i
		}
	}
	follow := func(arg ssa.Value, c2 []*ssa.Call) {
		if asMem {
			r.mem(st, arg, path, c2, depth+1)
		} else {
			r.val(st, arg, path, c2, depth+1)
		}
	}
	if n := len(ctx); n > 0 && ctx[n-1].Call.StaticCallee() == fn && idx >= 0 && idx < len(ctx[n-1].Call.Args) {
		follow(ctx[n-1].Call.Args[idx], ctx[:n-1])
		return
	}
	cs := r.callers[fn]
	if len(cs) == 0 || idx < 0 {
		st.out["opaque:parameter "+p.Name()+" of "+core.FuncKey(fn)] = true
		return
	}
	for _, call := range cs {
		if idx < len(call.Call.Args) {
			follow(call.Call.Args[idx], nil)
		}
	}
}

func (r *a5Resolver) callResult(st *a5state, call *ssa.Call, idx int, path []*types.Var, ctx []*ssa.Call, depth int) {
	cf := call.Call.StaticCallee()
	if cf == nil || cf.Blocks == nil || !core.InRepo(core.FuncPkg(cf)) {
		st.out["opaque:result of "+call.Call.String()] = true
		return
	}
	if len(ctx) > 8 {
		st.out["opaque:call depth"] = true
		return
	}
	n := 0
	for _, b := range cf.Blocks {
		for _, in := range b.Instrs {
			if rt, ok := in.(*ssa.Return); ok && idx < len(rt.Results) {
				n++
				c2 := append(append([]*ssa.Call{}, ctx...), call)
				r.val(st, rt.Results[idx], path, c2, depth+1)
			}
		}
	}
	if n == 0 {
		st.out["opaque:no return in "+core.FuncKey(cf)] = true
	}
}

// mem resolves the sub-object `path` of the memory that pointer value addr points to.
func (r *a5Resolver) mem(st *a5state, addr ssa.Value, path []*types.Var, ctx []*ssa.Call, depth int) {
	if !r.enter(st, "m", addr, path, ctx, depth) {
		return
	}
	switch x := addr.(type) {
	case *ssa.FieldAddr:
		f := core.FieldOfAddr(x)
		if f != nil && r.isLeaf(f) {
			st.out["field:"+r.leafKey(f)] = true
			return
		}
		r.mem(st, x.X, a5prepend(f, path), ctx, depth+1)
	case *ssa.IndexAddr:
		if _, isPtr := x.X.Type().Underlying().(*types.Pointer); isPtr {
			r.mem(st, x.X, path, ctx, depth+1)
		} else {
			r.val(st, x.X, path, ctx, depth+1)
		}
	case *ssa.Alloc:
		r.alloc(st, x, path, ctx, depth)
	case *ssa.Phi:
		for _, e := range x.Edges {
			r.mem(st, e, path, ctx, depth+1)
		}
	case *ssa.ChangeType:
		r.mem(st, x.X, path, ctx, depth+1)
	case *ssa.UnOp:
		if x.Op == token.MUL && len(path) == 0 {
			// pointee of a pointer that is itself stored somewhere: same origin as the pointer
			r.mem(st, x.X, path, ctx, depth+1)
			return
		}
		r.fieldBased(st, path, depth)
	case *ssa.Parameter:
		if len(path) == 0 {
			r.param(st, x, path, ctx, depth, true)
			return
		}
		r.fieldBased(st, path, depth)
	default:
		if len(path) > 0 {
			r.fieldBased(st, path, depth)
			return
		}
		st.out[fmt.Sprintf("opaque:memory behind %T", addr)] = true
	}
}

// alloc: a local (or fresh heap) object: its content is what the function stored into it.
func (r *a5Resolver) alloc(st *a5state, al *ssa.Alloc, path []*types.Var, ctx []*ssa.Call, depth int) {
	found := false
	var visit func(a ssa.Value, p []*types.Var)
	visit = func(a ssa.Value, p []*types.Var) {
		for _, u := range core.Referrers(a) {
			switch y := u.(type) {
			case *ssa.Store:
				if y.Addr == a {
					found = true
					r.val(st, y.Val, p, ctx, depth+1)
				}
			case *ssa.FieldAddr:
				if y.X == a && len(p) > 0 && core.FieldOfAddr(y) == p[0] {
					visit(y, p[1:])
				}
			case *ssa.IndexAddr:
				if y.X == a {
					visit(y, p)
				}
			}
		}
	}
	visit(al, path)
	if !found {
		// never stored: zero value
		st.out["nil"] = true
	}
}

// fieldBased: the object is reached through a pointer of unknown provenance; use every store in the repository whose
// address chain contains path[0] (same struct type by types.Var identity) and agrees with path from there on.
func (r *a5Resolver) fieldBased(st *a5state, path []*types.Var, depth int) {
	if len(path) == 0 {
		st.out["opaque:unknown memory"] = true
		return
	}
	found := false
	for _, i := range r.byField[path[0]] {
		s := r.stores[i]
		k := -1
		for j, f := range s.chain {
			if f == path[0] {
				k = j
				break
			}
		}
		if k < 0 {
			continue
		}
		rest := s.chain[k:]
		agree := true
		for j := 0; j < len(rest) && j < len(path); j++ {
			if rest[j] != path[j] {
				agree = false
			}
		}
		if !agree {
			continue
		}
		if len(rest) > len(path) {
			continue // stores a part of the leaf: not a leaf-level origin
		}
		found = true
		r.val(st, s.val, path[len(rest):], nil, depth+1)
	}
	// whole-struct stores of the owner type
	if owner := a5OwnerKey(path[0], r); owner != "" {
		for _, i := range r.byType[owner] {
			s := r.stores[i]
			found = true
			r.val(st, s.val, path, nil, depth+1)
		}
	}
	if !found {
		st.out["opaque:field "+path[0].Name()+" is never stored"] = true
	}
}

// a5OwnerKey finds the type string of the struct that declares field f (searching the stored struct types).
func a5OwnerKey(f *types.Var, r *a5Resolver) string {
	for k, idxs := range r.byType {
		if len(idxs) == 0 {
			continue
		}
		st, ok := r.stores[idxs[0]].val.Type().Underlying().(*types.Struct)
		if !ok {
			continue
		}
		for i := 0; i < st.NumFields(); i++ {
			if st.Field(i) == f {
				return k
			}
		}
	}
	return ""
}

// ---------------------------------------------------------------- ancestry

// a5Count is the result of counting marked calls on the derivation paths of a value.
type a5Count struct {
	Reach    bool // some path reaches a boundary
	Min, Max int  // number of marked calls on the paths that reach a boundary
	Opaque   string
}

func a5merge(a, b a5Count) a5Count {
	if b.Opaque != "" && a.Opaque == "" {
		a.Opaque = b.Opaque
	}
	if !b.Reach {
		return a
	}
	if !a.Reach {
		a.Reach, a.Min, a.Max = true, b.Min, b.Max
		return a
	}
	if b.Min < a.Min {
		a.Min = b.Min
	}
	if b.Max > a.Max {
		a.Max = b.Max
	}
	return a
}

// a5Ancestry walks backwards from a value inside its function.
type a5Ancestry struct {
	IsBoundary func(fld *types.Var) bool         // loading this field ends a path (Reach)
	IsMarked   func(call *ssa.Call) bool         // calls to count
	DataArgs   func(call *ssa.Call) []ssa.Value  // arguments a call result is computed from (nil = all slice/string args)
	Calls      map[*ssa.Call]bool                // every call met
	ParamReach bool                              // a parameter of slice type ends a path (Reach) too
	Callers    func(f *ssa.Function) []*ssa.Call // if set, a parameter is followed into the arguments of these call sites
	Into       func(f *ssa.Function) bool        // if set and true for a static callee, its returned values are followed too
}

func (a *a5Ancestry) Count(v ssa.Value) a5Count {
	if a.Calls == nil {
		a.Calls = map[*ssa.Call]bool{}
	}
	return a.count(v, map[ssa.Value]bool{}, 0)
}

func (a *a5Ancestry) count(v ssa.Value, onPath map[ssa.Value]bool, depth int) a5Count {
	if onPath[v] {
		return a5Count{} // loop-carried value: the other edges decide
	}
	if depth > 80 {
		return a5Count{Opaque: "derivation too deep"}
	}
	onPath[v] = true
	defer delete(onPath, v)
	var res a5Count
	sub := func(x ssa.Value) { res = a5merge(res, a.count(x, onPath, depth+1)) }
	switch x := v.(type) {
	case *ssa.Const, *ssa.MakeSlice, *ssa.Global, *ssa.Function, *ssa.Builtin:
	case *ssa.Parameter:
		followed := false
		if a.Callers != nil {
			fn := x.Parent()
			for i, fp := range fn.Params {
				if fp != x {
					continue
				}
				for _, call := range a.Callers(fn) {
					if i < len(call.Call.Args) {
						followed = true
						sub(call.Call.Args[i])
					}
				}
			}
		}
		if !followed && a.ParamReach {
			res.Reach = true
		}
	case *ssa.Phi:
		for _, e := range x.Edges {
			sub(e)
		}
	case *ssa.Slice:
		sub(x.X)
	case *ssa.Convert:
		sub(x.X)
	case *ssa.ChangeType:
		sub(x.X)
	case *ssa.MakeInterface:
		sub(x.X)
	case *ssa.Extract:
		sub(x.Tuple)
	case *ssa.Field:
		if f := core.FieldOfField(x); f != nil && a.IsBoundary != nil && a.IsBoundary(f) {
			res.Reach = true
		} else {
			sub(x.X)
		}
	case *ssa.UnOp:
		if x.Op == token.MUL {
			sub(x.X)
		}
	case *ssa.FieldAddr:
		if f := core.FieldOfAddr(x); f != nil && a.IsBoundary != nil && a.IsBoundary(f) {
			res.Reach = true
		} else if al, ok := x.X.(*ssa.Alloc); ok {
			// field of a local struct: what was stored into that field, or into the whole struct
			for _, u := range core.Referrers(al) {
				switch y := u.(type) {
				case *ssa.Store:
					if y.Addr == ssa.Value(al) {
						sub(y.Val)
					}
				case *ssa.FieldAddr:
					if y.Field == x.Field {
						for _, uu := range core.Referrers(y) {
							if st, ok := uu.(*ssa.Store); ok && st.Addr == ssa.Value(y) {
								sub(st.Val)
							}
						}
					}
				}
			}
		}
		// fields of non-local objects other than the boundary end the path without reaching
	case *ssa.IndexAddr:
		sub(x.X)
	case *ssa.Index:
		sub(x.X)
	case *ssa.Alloc:
		for _, u := range core.Referrers(x) {
			switch y := u.(type) {
			case *ssa.Store:
				if y.Addr == ssa.Value(x) {
					sub(y.Val)
				}
			case *ssa.IndexAddr:
				for _, uu := range core.Referrers(y) {
					if st, ok := uu.(*ssa.Store); ok && st.Addr == ssa.Value(y) {
						sub(st.Val)
					}
				}
			case *ssa.FieldAddr:
				for _, uu := range core.Referrers(y) {
					if st, ok := uu.(*ssa.Store); ok && st.Addr == ssa.Value(y) {
						sub(st.Val)
					}
				}
			}
		}
	case *ssa.Call:
		a.Calls[x] = true
		var args []ssa.Value
		if a.DataArgs != nil {
			args = a.DataArgs(x)
		}
		if args == nil {
			for _, ar := range x.Call.Args {
				switch ar.Type().Underlying().(type) {
				case *types.Slice, *types.Array, *types.Struct:
					args = append(args, ar)
				case *types.Basic:
					if b := ar.Type().Underlying().(*types.Basic); b.Info()&types.IsString != 0 {
						args = append(args, ar)
					}
				}
			}
		}
		for _, ar := range args {
			sub(ar)
		}
		if g := x.Call.StaticCallee(); g != nil && g.Blocks != nil && a.Into != nil && a.Into(g) {
			for _, b := range g.Blocks {
				if rt, ok := b.Instrs[len(b.Instrs)-1].(*ssa.Return); ok {
					for _, rv := range rt.Results {
						switch rv.Type().Underlying().(type) {
						case *types.Slice, *types.Array, *types.Struct:
							sub(rv)
						case *types.Basic:
							if bt := rv.Type().Underlying().(*types.Basic); bt.Info()&types.IsString != 0 {
								sub(rv)
							}
						}
					}
				}
			}
		}
		if a.IsMarked != nil && a.IsMarked(x) && res.Reach {
			res.Min++
			res.Max++
		}
	default:
		res.Opaque = fmt.Sprintf("derivation through %T", v)
	}
	return res
}

// a5LenTest interprets a comparison between a length (a value accepted by isLen, known to be >= 0) and an integer
// constant. nonZeroSucc is the successor index (0 = true edge, 1 = false edge) on which the length is certainly > 0,
// zeroSucc the one on which it is certainly 0 (-1 if neither edge guarantees it).
func a5LenTest(bo *ssa.BinOp, isLen func(ssa.Value) bool) (nonZeroSucc, zeroSucc int, ok bool) {
	op := bo.Op
	var k *ssa.Const
	switch {
	case isLen(bo.X):
		k, _ = bo.Y.(*ssa.Const)
	case isLen(bo.Y):
		k, _ = bo.X.(*ssa.Const)
		switch op {
		case token.LSS:
			op = token.GTR
		case token.GTR:
			op = token.LSS
		case token.LEQ:
			op = token.GEQ
		case token.GEQ:
			op = token.LEQ
		}
	}
	if k == nil || k.Value == nil {
		return -1, -1, false
	}
	kv, exact := constantInt64(k)
	if !exact {
		return -1, -1, false
	}
	p := func(n int64) bool {
		switch op {
		case token.EQL:
			return n == kv
		case token.NEQ:
			return n != kv
		case token.LSS:
			return n < kv
		case token.LEQ:
			return n <= kv
		case token.GTR:
			return n > kv
		case token.GEQ:
			return n >= kv
		}
		return false
	}
	switch op {
	case token.EQL, token.NEQ, token.LSS, token.LEQ, token.GTR, token.GEQ:
	default:
		return -1, -1, false
	}
	nonZeroSucc, zeroSucc = 1, -1
	if !p(0) {
		nonZeroSucc = 0
	}
	switch op {
	case token.EQL, token.LSS, token.LEQ:
		if p(0) && !p(1) {
			zeroSucc = 0
		}
	case token.NEQ, token.GTR, token.GEQ:
		if !p(0) && p(1) {
			zeroSucc = 1
		}
	}
	return nonZeroSucc, zeroSucc, true
}

func constantInt64(k *ssa.Const) (int64, bool) {
	if k.Value == nil || k.Value.Kind() != constant.Int {
		return 0, false
	}
	return constant.Int64Val(k.Value)
}
