package rules

import (
	"fmt"
	"go/types"
	"sort"
	"strconv"
	"strings"

	"golang.org/x/tools/go/ssa"

	"omnilint/core"
)

// c08Converter: the function J2NodeToInterface delegates to: takes the node, returns interface{}.
func c08Converter(r *c08roles) *ssa.Function {
	for _, ci := range core.Calls(r.j2) {
		call, ok := ci.(*ssa.Call)
		if !ok {
			continue
		}
		cf := c08RepoCallee(call)
		if cf == nil || core.FuncPkg(cf) != r.idr {
			continue
		}
		if _, ok := cf.Signature.Results().At(0).Type().Underlying().(*types.Interface); !ok || cf.Signature.Results().Len() != 1 {
			continue
		}
		for _, a := range call.Call.Args {
			if a == ssa.Value(r.j2.Params[0]) {
				return cf
			}
		}
	}
	return nil
}

func c08NodeParam(f *ssa.Function, node *types.Named) int {
	idx := -1
	for i, p := range f.Params {
		if c08IsPtrToNode(p.Type(), node) {
			if idx >= 0 {
				return -2
			}
			idx = i
		}
	}
	return idx
}

func c08IsIfaceSlice(t types.Type) bool {
	s, ok := t.Underlying().(*types.Slice)
	if !ok {
		return false
	}
	i, ok := s.Elem().Underlying().(*types.Interface)
	return ok && i.NumMethods() == 0
}

func c08IsIfaceMap(t types.Type) bool {
	m, ok := t.Underlying().(*types.Map)
	if !ok {
		return false
	}
	i, ok := m.Elem().Underlying().(*types.Interface)
	return ok && i.NumMethods() == 0 && c08Textual(m.Key())
}

// c08SliceReturns: the returns of the converter that hand out a []interface{}.
func c08SliceReturns(k *ssa.Function) (out []*ssa.Return, vals []ssa.Value) {
	for _, rt := range ecReturns(k) {
		if len(rt.Results) != 1 {
			continue
		}
		v := core.Unwrap(rt.Results[0], true)
		if c08IsIfaceSlice(v.Type()) {
			out = append(out, rt)
			vals = append(vals, v)
		}
	}
	return
}

// c08ArrayPredicate: the bool function of package idr whose true edge dominates the slice-building return.
func c08ArrayPredicate(r *c08roles, k *ssa.Function) (*ssa.Function, string) {
	rets, _ := c08SliceReturns(k)
	if len(rets) == 0 {
		return nil, "the converter returns no []interface{}"
	}
	var found *ssa.Function
	for _, rt := range rets {
		var mine *ssa.Function
		for b := rt.Block(); b != nil && mine == nil; b = b.Idom() {
			d := b.Idom()
			if d == nil {
				break
			}
			ifi, ok := d.Instrs[len(d.Instrs)-1].(*ssa.If)
			if !ok {
				continue
			}
			call, ok := ifi.Cond.(*ssa.Call)
			if !ok {
				continue
			}
			cf := c08RepoCallee(call)
			if cf == nil || core.FuncPkg(cf) != r.idr || c08NodeParam(cf, r.node) < 0 {
				continue
			}
			// the return must be on the true side
			t := d.Succs[0]
			if t != d.Succs[1] && len(t.Preds) == 1 && (t == rt.Block() || t.Dominates(rt.Block())) {
				mine = cf
			}
		}
		if mine == nil {
			return nil, "no call to a node predicate of package idr decides (on its true edge) the branch that returns the []interface{}"
		}
		if found != nil && found != mine {
			return nil, "more than one predicate decides array construction"
		}
		found = mine
	}
	return found, ""
}

func c08RuleF(c *core.Ctx, r *c08roles, prov *c08Prov) {
	k := c08Converter(r)
	if k == nil {
		c.Unresolved("R08f", "converter", "J2NodeToInterface does not delegate to a function of package idr that takes its node and returns interface{}")
		return
	}
	a, why := c08ArrayPredicate(r, k)
	if a == nil {
		c.Unresolved("R08f", "array predicate", why)
		return
	}
	np := c08NodeParam(a, r.node)
	flag := map[string]uint64{}
	for v, n := range r.jsonTypes {
		u, _ := strconv.ParseUint(v, 10, 64)
		flag[n] = u
	}
	for _, n := range []string{"JSONRoot", "JSONObj", "JSONArr", "JSONProp"} {
		if flag[n] == 0 {
			c.Unresolved("R08f", "idr."+n, "exported container flag not found")
			return
		}
	}
	groups := []struct {
		name string
		want bool
		tags []uint64
	}{
		{"array flag set => array", true, []uint64{flag["JSONArr"], flag["JSONRoot"] | flag["JSONArr"], flag["JSONProp"] | flag["JSONArr"]}},
		{"no array flag => not an array", false, []uint64{flag["JSONObj"], flag["JSONRoot"] | flag["JSONObj"], flag["JSONProp"] | flag["JSONObj"], flag["JSONRoot"], flag["JSONProp"]}},
	}
	for _, g := range groups {
		var problems []string
		for _, tag := range g.tags {
			tag := tag
			setup := func() (*c08Machine, []c08AV) {
				m := &c08Machine{r: r, prov: prov, child: map[int]int{}, typedMode: true}
				n := m.newNode(c08SymNode{tagKnown: true, tag: tag, nonNil: true})
				args := make([]c08AV, len(a.Params))
				for i, fp := range a.Params {
					switch {
					case i == np:
						args[i] = c08AV{K: c08NodeV, N: n}
					case c08IsPointer(fp.Type()):
						args[i] = c08AV{K: c08Obj}
					}
				}
				return m, args
			}
			outs, sts := c08Explore(setup, a)
			bad := map[string]bool{}
			for i, o := range outs {
				if sts[i] == "" && o.K == c08Bool && o.B == g.want {
					continue
				}
				if sts[i] == "loop" {
					bad["the answer is computed by a loop over the node's children"] = true
				} else {
					bad["answers "+o.String()] = true
				}
			}
			if len(bad) > 0 {
				var bl []string
				for s := range bad {
					bl = append(bl, s)
				}
				sort.Strings(bl)
				problems = append(problems, fmt.Sprintf("%s: %s", r.tagName(tag), strings.Join(bl, " / ")))
			}
		}
		key := "J2NodeToInterface array decision, typed JSON node, " + g.name
		c.Check(len(problems) == 0, "R08f", key, a.Pos(), "decided by the recorded flag on every path",
			"in typed mode the array/object decision for a JSON node is not a function of its recorded type flag ("+strings.Join(problems, "; ")+"): a JSON object whose element names all coincide (e.g. the single key \"\") is rebuilt as an array")
	}
}
