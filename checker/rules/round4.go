package rules

import (
	"fmt"

	"go/token"
	"go/types"
	"golang.org/x/tools/go/callgraph"
	"reflect"
	"sort"
	"strings"

	"golang.org/x/tools/go/ssa"

	"omnilint/core"
)

// Generic rules added after the fourth round of independently seeded changes (DESIGN.md section 11).

func inPkgs(p *types.Package, pkgs []string) bool {
	if p == nil {
		return false
	}
	rel := core.Rel(p.Path())
	for _, want := range pkgs {
		if rel == want || strings.HasPrefix(rel, want+"/") {
			return true
		}
	}
	return false
}

// ---------------------------------------------------------------- declared settings are decoded, never rewritten

// declFieldsDecodedOnly: the exported, json-tagged fields of the declaration structs of the given packages carry what the
// schema author wrote; readers interpret them as declared (delimiters, positions, occurrence bounds, indexes). Library
// code that overwrites such a field after decoding changes the declared meaning for every reader built from the schema
// (seed C07-11 "normalised" blank delimiters to nil inside the validator). Stores into a fresh object of the same
// function (constructors, deep copies) are not rewrites. `allowed` lists, by "Type.Field", the defaulting sites that were
// read and confirmed on the pinned tree (a field filled in only when the schema left it out).
func declFieldsDecodedOnly(c *core.Ctx, rule string, pkgs []string, allowed map[string]string) {
	c.SSA()
	nFields, nStores := 0, 0
	seenT := map[*types.Named]bool{}
	for _, rel := range pkgs {
		p := c.Pkg(rel)
		if p == nil {
			c.Unresolved(rule, "package "+rel, "not loaded")
			continue
		}
		sc := p.Types.Scope()
		for _, name := range sc.Names() {
			tn, ok := sc.Lookup(name).(*types.TypeName)
			if !ok {
				continue
			}
			n, ok := tn.Type().(*types.Named)
			if !ok {
				continue
			}
			st, ok := n.Underlying().(*types.Struct)
			if !ok {
				continue
			}
			for i := 0; i < st.NumFields(); i++ {
				if st.Field(i).Exported() && reflect.StructTag(st.Tag(i)).Get("json") != "" {
					nFields++
					seenT[n] = true
				}
			}
		}
	}
	for _, f := range c.RepoFunctions() {
		if core.IsCLIOrSample(core.FuncPkg(f)) {
			continue
		}
		for _, w := range core.Writes(f) {
			if w.Field == nil || w.Owner == nil || !w.Field.Exported() || !seenT[w.Owner] {
				continue
			}
			st := w.Owner.Underlying().(*types.Struct)
			tag := ""
			for i := 0; i < st.NumFields(); i++ {
				if st.Field(i) == w.Field {
					tag = reflect.StructTag(st.Tag(i)).Get("json")
				}
			}
			if tag == "" {
				continue
			}
			nStores++
			name := w.Owner.Obj().Name() + "." + w.Field.Name()
			key := core.FuncKey(f) + " writes declared setting " + name
			if core.IsFresh(w.Root) {
				c.OK(rule, key, w.Pos, "store into a fresh object of this function (construction / copy)")
				continue
			}
			if why, ok := allowed[name]; ok {
				c.OK(rule, key, w.Pos, "enumerated defaulting site: "+why)
				continue
			}
			c.Bad(rule, key, w.Pos, "library code overwrites the decoded schema setting "+name+" (json \""+strings.Split(tag, ",")[0]+"\"): the reader no longer interprets the input with the value the schema declares")
		}
	}
	c.OK(rule, "declared settings inventory", 0, fmt.Sprintf("%d json-tagged exported fields of %d declaration types in %v; %d stores classified", nFields, len(seenT), pkgs, nStores))
}

// ---------------------------------------------------------------- manufactured io.EOF

// manufacturedEOF: a reader may pass on the io.EOF its source returned, or manufacture io.EOF where its own logic has
// established that the source is exhausted. In the functions of the given packages, every use of the io.EOF variable as
// a value (returned, stored, passed on) must be control-dependent on evidence of exhaustion: the true edge of an
// `err == io.EOF` test (or `case io.EOF`), or the false edge of a more-input predicate (bufio.Scanner.Scan, a repository
// function whose name/doc is not interpreted — recognised structurally: a call whose bool result is tested), or a nil
// token / empty unit obtained from the source. Manufacturing io.EOF behind a test of reader-private flags or of the
// record's content (seed C04-11: "unique target delivered", seed C09-8: Ctrl-Z line and empty buffer) ends the stream
// while input remains.
// manufacturedEOFDeclExhausted: additionally accept "declaration list exhausted" as evidence (set only for the old readers, R16j).
var manufacturedEOFDeclExhausted bool

// declOwnerHasJSONTag: the field carries a json tag (it is part of a schema declaration).
func declOwnerHasJSONTag(fl *types.Var) bool {
	if fl == nil || fl.Pkg() == nil {
		return false
	}
	scope := fl.Pkg().Scope()
	for _, name := range scope.Names() {
		tn, ok := scope.Lookup(name).(*types.TypeName)
		if !ok {
			continue
		}
		st, ok := tn.Type().Underlying().(*types.Struct)
		if !ok {
			continue
		}
		for i := 0; i < st.NumFields(); i++ {
			if st.Field(i) == fl {
				return strings.Contains(st.Tag(i), "json:")
			}
		}
	}
	return false
}

func manufacturedEOF(c *core.Ctx, rule string, pkgs []string, floor int) {
	c.SSA()
	ioPkg := c.AnyPkg("io")
	if ioPkg == nil {
		c.Unresolved(rule, "package io", "not loaded")
		return
	}
	eofVar, _ := ioPkg.Types.Scope().Lookup("EOF").(*types.Var)
	isEOFLoad := func(v ssa.Value) bool {
		u, ok := v.(*ssa.UnOp)
		if !ok || u.Op != token.MUL {
			return false
		}
		g, ok := u.X.(*ssa.Global)
		return ok && g.Object() == eofVar
	}
	evMemo := map[*ssa.Function]map[*ssa.BasicBlock]string{}
	evidenceOf := func(f *ssa.Function) map[*ssa.BasicBlock]string {
		if m, ok := evMemo[f]; ok {
			return m
		}
		evidence := map[*ssa.BasicBlock]string{}
		// blocks that carry exhaustion evidence: successors of tests described above
		for _, b := range f.Blocks {
			if len(b.Instrs) == 0 {
				continue
			}
			ifi, ok := b.Instrs[len(b.Instrs)-1].(*ssa.If)
			if !ok {
				continue
			}
			mark := func(s *ssa.BasicBlock, why string) {
				if len(s.Preds) == 1 {
					if _, dup := evidence[s]; !dup {
						evidence[s] = why
					}
				}
			}
			cond := ifi.Cond
			neg := false
			for {
				u, ok := cond.(*ssa.UnOp)
				if ok && u.Op == token.NOT {
					neg = !neg
					cond = u.X
					continue
				}
				break
			}
			tEdge, fEdge := b.Succs[0], b.Succs[1]
			if neg {
				tEdge, fEdge = fEdge, tEdge
			}
			switch x := cond.(type) {
			case *ssa.BinOp:
				if manufacturedEOFDeclExhausted && (x.Op == token.GEQ || x.Op == token.LSS) {
					// `index >= len(<json-tagged declaration slice>)`: every declared alternative was tried (old fixed-length
					// reader: a line that starts no declared envelope ends the stream — by design, pinned by its tests)
					if call, ok := x.Y.(*ssa.Call); ok {
						if bi, ok := call.Call.Value.(*ssa.Builtin); ok && bi.Name() == "len" && len(call.Call.Args) == 1 {
							if fp, ok := core.LoadedField(call.Call.Args[0]); ok && len(fp.Path) > 0 {
								last := fp.Path[len(fp.Path)-1]
								if owner := declOwnerHasJSONTag(last); owner {
									if x.Op == token.GEQ {
										mark(tEdge, "every declared alternative was tried")
									} else {
										mark(fEdge, "every declared alternative was tried")
									}
								}
							}
						}
					}
				}
				if x.Op == token.EQL || x.Op == token.NEQ {
					eq, ne := tEdge, fEdge
					if x.Op == token.NEQ {
						eq, ne = fEdge, tEdge
					}
					_ = ne
					if isEOFLoad(x.X) || isEOFLoad(x.Y) {
						mark(eq, "err == io.EOF")
					}
					// nil token / nil unit from a source call: `tok == nil`
					other := x.X
					if core.IsNilConst(x.X) {
						other = x.Y
					}
					if core.IsNilConst(x.X) || core.IsNilConst(x.Y) {
						if _, isErr := other.Type().Underlying().(*types.Interface); !isErr || !c19IsError(other.Type()) {
							if fromCall(other, 0) {
								mark(eq, "nil unit from the source")
							}
						}
					}
				}
			case *ssa.Call:
				// more-input predicate: false edge
				// a repo predicate `isEOF(err)` = `err == io.EOF`
				if idx, eqTrue, g, ok := r7sentinelHelper(x.Call.StaticCallee()); ok && idx < len(x.Call.Args) && g.Object() == eofVar {
					if eqTrue {
						mark(tEdge, "err == io.EOF (through "+x.Call.StaticCallee().Name()+")")
					} else {
						mark(fEdge, "err == io.EOF (through "+x.Call.StaticCallee().Name()+")")
					}
					break
				}
				// (*json.Decoder).More is no evidence: it answers false for "nothing left" AND for a failing read (it drops the
				// reader's error) — seed C16-16 turned a reader failure behind the last value into a clean io.EOF with it
				if o := core.CalleeObj(x); o != nil && o.Pkg() != nil && o.Pkg().Path() == "encoding/json" && o.Name() == "More" {
					break
				}
				// a plain library function (errors.As, strings.HasPrefix …) says nothing about the source
				if o := core.CalleeObj(x); o != nil && o.Pkg() != nil && !core.InRepo(o.Pkg()) && o.Type().(*types.Signature).Recv() == nil {
					break
				}
				if bt, ok := x.Type().Underlying().(*types.Basic); ok && bt.Kind() == types.Bool {
					mark(fEdge, "more-input predicate "+x.Call.String()+" is false")
				}
			case *ssa.Extract:
				// comma-ok / multi-result predicate
				if bt, ok := x.Type().Underlying().(*types.Basic); ok && bt.Kind() == types.Bool {
					if _, isCall := x.Tuple.(*ssa.Call); isCall {
						mark(fEdge, "more-input predicate is false")
					}
				}
			}
		}
		evMemo[f] = evidence
		return evidence
	}
	for _, f := range c.RepoFunctions() {
		if core.IsCLIOrSample(core.FuncPkg(f)) || !inPkgs(core.FuncPkg(f), pkgs) {
			continue
		}
		evidence := evidenceOf(f)
		dominatedByEvidence := func(b *ssa.BasicBlock) (string, bool) {
			for e, why := range evidence {
				if e == b || e.Dominates(b) {
					return why, true
				}
			}
			return "", false
		}
		n := 0
		for _, b := range f.Blocks {
			for _, in := range b.Instrs {
				u, ok := in.(*ssa.UnOp)
				if !ok || !isEOFLoad(u) {
					continue
				}
				// value uses (not comparisons)
				for _, r := range core.Referrers(u) {
					if bo, ok := r.(*ssa.BinOp); ok && (bo.Op == token.EQL || bo.Op == token.NEQ) {
						continue
					}
					if _, ok := r.(*ssa.DebugRef); ok {
						continue
					}
					useBlk := r.Block()
					if phi, ok := r.(*ssa.Phi); ok {
						// the edge on which the phi takes io.EOF
						for i, e := range phi.Edges {
							if e == ssa.Value(u) {
								useBlk = phi.Block().Preds[i]
							}
						}
					}
					n++
					key := core.FuncKey(f) + " manufactures io.EOF"
					if why, ok := dominatedByEvidence(useBlk); ok {
						c.OK(rule, key, core.InstrPos(r), "on an edge where the source is known to be exhausted ("+why+")")
					} else if dominatedByEvidenceAny(useBlk, evidence) {
						c.OK(rule, key, core.InstrPos(r), "every path to this use passes an exhaustion test")
					} else if why, ok := callersEstablish(c, f, evidenceOf, 0); ok {
						c.OK(rule, key, core.InstrPos(r), "unexported helper: every call site is on an edge where the source is known to be exhausted ("+why+")")
					} else {
						c.Bad(rule, key, core.InstrPos(r), "io.EOF is produced on a path that has not seen the source report end of input (no `err == io.EOF`, no failed more-input predicate, no nil unit from the source dominates it): the stream can end while input remains")
					}
				}
			}
		}
		_ = n
	}
	c.Floor(rule, floor, "io.EOF value uses in the readers")
}

// fromCall: v is (an extract of / a phi over) a call result.
func fromCall(v ssa.Value, d int) bool {
	if d > 4 {
		return false
	}
	switch x := v.(type) {
	case *ssa.Call:
		return true
	case *ssa.Extract:
		return fromCall(x.Tuple, d+1)
	case *ssa.Phi:
		for _, e := range x.Edges {
			if fromCall(e, d+1) {
				return true
			}
		}
	case *ssa.UnOp:
		if x.Op == token.MUL {
			if a, ok := x.X.(*ssa.Alloc); ok {
				for _, r := range core.Referrers(a) {
					if st, ok := r.(*ssa.Store); ok && st.Addr == a && fromCall(st.Val, d+1) {
						return true
					}
				}
			}
		}
	}
	return false
}

// dominatedByEvidenceAny: every path from the entry to b passes through some evidence block.
func dominatedByEvidenceAny(b *ssa.BasicBlock, evidence map[*ssa.BasicBlock]string) bool {
	if len(evidence) == 0 {
		return false
	}
	f := b.Parent()
	seen := map[*ssa.BasicBlock]bool{}
	var reach func(x *ssa.BasicBlock) bool // can reach b from x avoiding evidence blocks
	reach = func(x *ssa.BasicBlock) bool {
		if _, isEv := evidence[x]; isEv {
			return false
		}
		if x == b {
			return true
		}
		if seen[x] {
			return false
		}
		seen[x] = true
		for _, s := range x.Succs {
			if reach(s) {
				return true
			}
		}
		return false
	}
	return !reach(f.Blocks[0])
}

// ---------------------------------------------------------------- buffer-state observers (C09)

// bufferStateObservers: how many bytes a buffered reader happens to hold is a function of how the caller's reader chunked
// its data, not of the data. Library code must not look at it.
func bufferStateObservers(c *core.Ctx, rule string) {
	n := 0
	for _, f := range c.RepoFunctions() {
		if core.IsCLIOrSample(core.FuncPkg(f)) {
			continue
		}
		for _, ci := range core.Calls(f) {
			o := core.CalleeObj(ci)
			if o == nil || o.Pkg() == nil {
				continue
			}
			full := o.Pkg().Path() + "." + core.FuncName(o)
			switch full {
			case "bufio.Reader.Buffered", "encoding/json.Decoder.Buffered", "bufio.Writer.Buffered", "bufio.Writer.Available", "bufio.Reader.Size":
				n++
				c.Bad(rule, core.FuncKey(f)+" observes buffer fill ("+full+")", core.InstrPos(ci), full+" reports how much the buffer happens to hold, which depends on how the input reader delivered its bytes: any decision or value derived from it differs between delivery schedules of the same input")
			}
		}
	}
	c.OK(rule, "no buffer-fill observer in library code", 0, fmt.Sprintf("%d call(s) of bufio.Reader.Buffered / json.Decoder.Buffered and the like in library code", n))
}

// ---------------------------------------------------------------- partial struct copy

// partialStructCopy: when a function moves an element of a slice of structs to another index of the same slice field by
// field (s[i].f = g(s[j].f) for at least two fields f), every field of the struct must be carried
// over (or assigned in that function): a field left behind keeps the value of the element that used to live in the
// destination slot (seed C06-7: the cached line text of a delivered line stayed in the shifted slot).
func partialStructCopy(c *core.Ctx, rule string, pkgs []string) {
	c.SSA()
	nMoves := 0
	for _, f := range c.RepoFunctions() {
		if core.IsCLIOrSample(core.FuncPkg(f)) || !inPkgs(core.FuncPkg(f), pkgs) {
			continue
		}
		type pair struct{ dst, src string }
		copied := map[pair]map[*types.Var]token.Pos{}
		assigned := map[string]map[*types.Var]bool{}
		dstVal := map[string]ssa.Value{}
		var order []pair
		for _, b := range f.Blocks {
			for _, in := range b.Instrs {
				st, ok := in.(*ssa.Store)
				if !ok {
					continue
				}
				fa, ok := st.Addr.(*ssa.FieldAddr)
				if !ok {
					continue
				}
				fv := core.FieldOfAddr(fa)
				if fv == nil {
					continue
				}
				dk := canonAddr(fa.X, 0)
				dstVal[dk] = fa.X
				if assigned[dk] == nil {
					assigned[dk] = map[*types.Var]bool{}
				}
				assigned[dk][fv] = true
				// does the value derive from the same field of another object of the same type?
				src := sameFieldSource(st.Val, fv, fa.X, 0)
				if src == nil {
					continue
				}
				p := pair{dk, canonAddr(src, 0)}
				if copied[p] == nil {
					copied[p] = map[*types.Var]token.Pos{}
					order = append(order, p)
				}
				copied[p][fv] = core.InstrPos(st)
			}
		}
		for _, p := range order {
			fields := copied[p]
			if len(fields) < 2 {
				continue
			}
			dv := dstVal[p.dst]
			n := core.NamedOf(dv.Type())
			var st *types.Struct
			if n != nil {
				st, _ = n.Underlying().(*types.Struct)
			} else if pt, ok := dv.Type().Underlying().(*types.Pointer); ok {
				st, _ = pt.Elem().Underlying().(*types.Struct)
			}
			if st == nil {
				continue
			}
			nMoves++
			var missing []string
			var pos token.Pos
			for _, ps := range fields {
				if pos == 0 || ps < pos {
					pos = ps
				}
			}
			for i := 0; i < st.NumFields(); i++ {
				fv := st.Field(i)
				if _, ok := fields[fv]; ok {
					continue
				}
				// assigned on the same destination object (structurally equal base) in this function?
				done := assigned[p.dst][fv]
				if !done {
					missing = append(missing, fv.Name())
				}
			}
			tname := "struct"
			if n != nil {
				tname = n.Obj().Name()
			}
			key := core.FuncKey(f) + " moves a " + tname + " field by field"
			if len(missing) == 0 {
				c.OK(rule, key, pos, fmt.Sprintf("all %d fields are carried over or assigned", st.NumFields()))
			} else {
				sort.Strings(missing)
				c.Bad(rule, key, pos, fmt.Sprintf("%d of %d fields of %s are copied from one element to another, but %s stay behind: the destination keeps the stale value of the element that lived there before", len(fields), st.NumFields(), tname, strings.Join(missing, ", ")))
			}
		}
	}
	c.OK(rule, "field-by-field moves", 0, fmt.Sprintf("%d field-by-field struct move(s) found in %v", nMoves, pkgs))
}

// sameFieldSource: v derives (through arithmetic, conversions) from a load of field fv of an object other than dst;
// returns that object's address base.
func sameFieldSource(v ssa.Value, fv *types.Var, dst ssa.Value, d int) ssa.Value {
	if d > 4 {
		return nil
	}
	switch x := v.(type) {
	case *ssa.UnOp:
		if x.Op == token.MUL {
			if fa, ok := x.X.(*ssa.FieldAddr); ok && core.FieldOfAddr(fa) == fv && fa.X != dst && canonAddr(fa.X, 0) != canonAddr(dst, 0) &&
				types.Identical(fa.X.Type(), dst.Type()) {
				// both are elements of one and the same slice/array: an element is being moved inside its container
				si, ok1 := fa.X.(*ssa.IndexAddr)
				di, ok2 := dst.(*ssa.IndexAddr)
				if ok1 && ok2 && canonAddr(si.X, 0) == canonAddr(di.X, 0) {
					return fa.X
				}
			}
		}
		return nil
	case *ssa.BinOp:
		if s := sameFieldSource(x.X, fv, dst, d+1); s != nil {
			return s
		}
		return sameFieldSource(x.Y, fv, dst, d+1)
	case *ssa.Convert:
		return sameFieldSource(x.X, fv, dst, d+1)
	case *ssa.ChangeType:
		return sameFieldSource(x.X, fv, dst, d+1)
	}
	return nil
}

func init() {
	wrapRun("C07", func(c *core.Ctx) {
		if c.CountRule("R07i") == 0 {
			declFieldsDecodedOnly(c, "R07i", []string{"extensions/omniv21/fileformat/edi"}, nil)
		}
	})
	wrapRun("C06", func(c *core.Ctx) {
		if c.CountRule("R06k") == 0 {
			declFieldsDecodedOnly(c, "R06k", []string{"extensions/omniv21/fileformat/csv", "extensions/omniv21/fileformat/fixedlength",
				"extensions/omniv21/fileformat/flatfile/csv", "extensions/omniv21/fileformat/flatfile/fixedlength"}, map[string]string{
				"EnvelopeDecl.Name":     "old fixed-length: an unnamed envelope gets the default name",
				"RecordDecl.IsTarget":   "csv2: with no is_target anywhere the first record becomes the target",
				"EnvelopeDecl.IsTarget": "fixedlength2: with no is_target anywhere the first envelope becomes the target",
				"ColumnDecl.Index":      "csv2: a column without index gets previous index + 1",
			})
		}
		if c.CountRule("R06l") == 0 {
			partialStructCopy(c, "R06l", []string{"extensions/omniv21/fileformat"})
		}
	})
	wrapRun("C04", func(c *core.Ctx) {
		if c.CountRule("R04k") == 0 {
			manufacturedEOF(c, "R04k", []string{"idr", "extensions/omniv21/fileformat/xml", "extensions/omniv21/fileformat/json"}, 0)
		}
	})
	wrapRun("C05", func(c *core.Ctx) {
		if c.CountRule("R05i") == 0 {
			manufacturedEOF(c, "R05i", []string{"extensions/omniv21/fileformat/flatfile", "extensions/omniv21/fileformat/edi"}, 0)
		}
	})
	wrapRun("C09", func(c *core.Ctx) {
		if c.CountRule("R09g") == 0 {
			bufferStateObservers(c, "R09g")
		}
	})
}

// canonAddr renders an address / index expression structurally (go/ssa has no CSE: x[i].f and x[i].g are computed by
// distinct instructions); values that are not address arithmetic are identified by pointer.
func canonAddr(v ssa.Value, d int) string {
	if d > 8 {
		return fmt.Sprintf("%p", v)
	}
	switch x := v.(type) {
	case *ssa.FieldAddr:
		return canonAddr(x.X, d+1) + "." + fmt.Sprint(x.Field)
	case *ssa.IndexAddr:
		return canonAddr(x.X, d+1) + "[" + canonAddr(x.Index, d+1) + "]"
	case *ssa.UnOp:
		if x.Op == token.MUL {
			return "*(" + canonAddr(x.X, d+1) + ")"
		}
	case *ssa.BinOp:
		return "(" + canonAddr(x.X, d+1) + x.Op.String() + canonAddr(x.Y, d+1) + ")"
	case *ssa.Const:
		if x.Value != nil {
			return x.Value.ExactString()
		}
		return "nil"
	case *ssa.ChangeType:
		return canonAddr(x.X, d+1)
	case *ssa.Convert:
		return canonAddr(x.X, d+1)
	}
	return fmt.Sprintf("%p", v)
}

// resliceGrowthInit: `s = s[:len(s)+k]` re-exposes slots of the backing array that still hold what an earlier element
// left there. A function that grows a slice of structs this way must initialise the exposed element completely — by
// storing a whole element value, or by assigning every field of the element type — before anything reads it (seed C10-7:
// a stack frame was re-used with its occurrence counter left over from the previous record).
func resliceGrowthInit(c *core.Ctx, rule string, pkgs []string) {
	c.SSA()
	n := 0
	for _, f := range c.RepoFunctions() {
		if core.IsCLIOrSample(core.FuncPkg(f)) || !inPkgs(core.FuncPkg(f), pkgs) {
			continue
		}
		for _, b := range f.Blocks {
			for _, in := range b.Instrs {
				sl, ok := in.(*ssa.Slice)
				if !ok || sl.High == nil {
					continue
				}
				st, ok := sl.X.Type().Underlying().(*types.Slice)
				if !ok {
					continue
				}
				elemNamed := core.NamedOf(st.Elem())
				var elemStruct *types.Struct
				if elemNamed != nil {
					elemStruct, _ = elemNamed.Underlying().(*types.Struct)
				}
				if elemStruct == nil {
					continue
				}
				// High = len(X) + positive constant
				bo, ok := sl.High.(*ssa.BinOp)
				if !ok || bo.Op != token.ADD {
					continue
				}
				isLenOfX := func(v ssa.Value) bool {
					cl, ok := v.(*ssa.Call)
					if !ok {
						return false
					}
					bi, ok := cl.Call.Value.(*ssa.Builtin)
					return ok && bi.Name() == "len" && len(cl.Call.Args) == 1 && (cl.Call.Args[0] == sl.X || core.SameValue(cl.Call.Args[0], sl.X))
				}
				if !(isLenOfX(bo.X) || isLenOfX(bo.Y)) {
					continue
				}
				n++
				key := core.FuncKey(f) + " grows []" + elemNamed.Obj().Name() + " by reslicing"
				// initialisation in the same function: a whole-element store, or every field assigned through some *T
				whole := false
				fields := map[*types.Var]bool{}
				for _, w := range core.Writes(f) {
					if w.Kind == "struct" && w.Owner != nil && types.Identical(w.Owner, elemNamed) {
						whole = true
					}
					if w.Kind == "index" {
						if s, ok := w.Instr.(*ssa.Store); ok {
							if pt, ok := s.Addr.Type().Underlying().(*types.Pointer); ok && types.Identical(pt.Elem(), st.Elem()) {
								whole = true
							}
						}
					}
					if w.Kind == "field" && w.Owner != nil && types.Identical(w.Owner, elemNamed) {
						fields[w.Field] = true
					}
				}
				var missing []string
				for i := 0; i < elemStruct.NumFields(); i++ {
					if !fields[elemStruct.Field(i)] {
						missing = append(missing, elemStruct.Field(i).Name())
					}
				}
				switch {
				case whole:
					c.OK(rule, key, core.InstrPos(in), "a whole element value is stored in the same function")
				case len(missing) == 0:
					c.OK(rule, key, core.InstrPos(in), "every field of the element type is assigned in the same function")
				default:
					c.Bad(rule, key, core.InstrPos(in), "the slice is grown into its spare capacity, which re-exposes a slot holding what an earlier element left there, and the function does not initialise field(s) "+strings.Join(missing, ", ")+" of the exposed "+elemNamed.Obj().Name()+": state of an earlier record leaks into the next one")
				}
			}
		}
	}
	c.OK(rule, "reslice growth sites", 0, fmt.Sprintf("%d growth-by-reslice site(s) over slices of structs in %v", n, pkgs))
}

func init() {
	wrapRun("C01", func(c *core.Ctx) {
		// a reader failure that is not of the reader's fatal type is wrapped as a per-record failure and never latched: the
		// same failure is then returned by every later Read (no terminal result) = C05 R05c; a Read that panics returns none
		// of the three outcomes = C03 K13 (the one subtractive slice bound on the tokenizer path)
		if c.CountRule("R01f") == 0 {
			importRules(c, "C05", map[string]string{"R05c": "R01f"})
			c.Floor("R01f", 3, "csv2, fixedlength2, edi")
		}
		if c.CountRule("R01g") == 0 {
			importRules(c, "C07", map[string]string{"R07a": "R01g"})
			c.Floor("R01g", 5, "segment delimiter strip and its scanner configuration")
		}
	})
	wrapRun("C10", func(c *core.Ctx) {
		if c.CountRule("R10k") == 0 {
			importRules(c, "C13", map[string]string{"R13b": "R10k"})
			c.Floor("R10k", 3, "process-wide caches: keyed by everything the loader reads")
		}
		if c.CountRule("R10l") == 0 {
			resliceGrowthInit(c, "R10l", []string{"idr", "extensions/omniv21"})
		}
		if c.CountRule("R10m") == 0 {
			partialStructCopy(c, "R10m", []string{"idr", "extensions/omniv21"})
		}
	})
	wrapRun("C05", func(c *core.Ctx) {
		if c.CountRule("R05j") == 0 {
			resliceGrowthInit(c, "R05j", []string{"extensions/omniv21/fileformat/flatfile", "extensions/omniv21/fileformat/edi"})
		}
	})
	wrapRun("C19", func(c *core.Ctx) {
		if c.CountRule("R19h") == 0 {
			importRules(c, "C13", map[string]string{"R13b": "R19h"})
			c.Floor("R19h", 3, "process-wide caches: keyed by everything the loader reads")
		}
	})
}

// ---------------------------------------------------------------- rewriting wrappers on the input path

// inputRewriters: between the caller's io.Reader and a format's decoder only wrappers that pass every byte through
// unchanged may sit unconditionally (bufio, line counting). A wrapper that rewrites the byte stream
// (ios.NewBytesReplacingReader, x/text transformers, limit/section readers, ...) changes what every record of the input
// is parsed from; it is legitimate only where the schema asks for it, i.e. when the wrapping is control-dependent on a
// declared setting (replace_double_quotes, ignore_crlf). Seed C08-9 stripped "BOM" byte triples from the whole JSON
// stream, unconditionally — and thereby from inside string values.
func inputRewriters(c *core.Ctx, rule string, pkgs []string) {
	c.SSA()
	cgOf = c.CallGraph()
	storeIdx := map[*types.Var][]ssa.Value{}
	for _, f := range c.RepoFunctions() {
		for _, w := range core.Writes(f) {
			if w.Kind == "field" && w.Field != nil {
				storeIdx[w.Field] = append(storeIdx[w.Field], w.Val)
			}
		}
	}
	fieldStores = func(fv *types.Var) []ssa.Value { return storeIdx[fv] }
	defer func() { cgOf, fieldStores = nil, nil }()
	ioPkg := c.AnyPkg("io")
	if ioPkg == nil {
		c.Unresolved(rule, "package io", "not loaded")
		return
	}
	readerI, _ := ioPkg.Types.Scope().Lookup("Reader").Type().Underlying().(*types.Interface)
	implementsReader := func(t types.Type) bool {
		return types.Implements(t, readerI) || types.Implements(types.NewPointer(t), readerI)
	}
	transparent := map[string]bool{
		"bufio.NewReader": true, "bufio.NewReaderSize": true, "io.TeeReader": true,
		"github.com/jf-tech/go-corelib/ios.NewLineCountingReader":        true,
		"github.com/jf-tech/go-corelib/ios.NewLineNumReportingCsvReader": true,
		"encoding/csv.NewReader": true,
	}
	n := 0
	for _, f := range c.RepoFunctions() {
		if core.IsCLIOrSample(core.FuncPkg(f)) || !inPkgs(core.FuncPkg(f), pkgs) {
			continue
		}
		for _, ci := range core.Calls(f) {
			o := core.CalleeObj(ci)
			if o == nil || o.Pkg() == nil || core.InRepo(o.Pkg()) {
				continue
			}
			sig := o.Type().(*types.Signature)
			if sig.Results().Len() == 0 || !implementsReader(sig.Results().At(0).Type()) {
				continue
			}
			takesReader := false
			for _, a := range ci.Common().Args {
				if implementsReader(a.Type()) {
					takesReader = true
				}
			}
			if !takesReader {
				continue
			}
			full := o.Pkg().Path() + "." + core.FuncName(o)
			if transparent[full] {
				continue
			}
			n++
			key := core.FuncKey(f) + " wraps the input in " + full
			if why, ok := controlledByDeclaredSetting(ci.Block()); ok {
				c.OK(rule, key, core.InstrPos(ci), "the rewriting wrapper is installed only under a declared setting ("+why+")")
			} else {
				c.Bad(rule, key, core.InstrPos(ci), full+" rewrites the byte stream the decoder reads, and it is installed unconditionally (not under a declared schema setting): text of every record is altered wherever the replaced bytes occur, including inside values")
			}
		}
	}
	c.OK(rule, "rewriting input wrappers", 0, fmt.Sprintf("%d rewriting wrapper call(s) on the input path in %v", n, pkgs))
}

// controlledByDeclaredSetting: the block is dominated by a successor of an If whose condition data-depends on a load of
// an exported json-tagged struct field.
// cgOf / fieldStores are set by inputRewriters for the duration of its run (call graph of the program; all values stored
// into a struct field by repository code, composite literals included).
var cgOf *callgraph.Graph
var fieldStores func(fv *types.Var) []ssa.Value

func controlledByDeclaredSetting(b *ssa.BasicBlock) (string, bool) {
	f := b.Parent()
	var dependsOnDecl func(v ssa.Value, seen map[ssa.Value]bool, d int) (string, bool)
	dependsOnDecl = func(v ssa.Value, seen map[ssa.Value]bool, d int) (string, bool) {
		if v == nil || seen[v] || d > 8 {
			return "", false
		}
		seen[v] = true
		if u, ok := v.(*ssa.UnOp); ok && u.Op == token.MUL {
			if fa, ok := u.X.(*ssa.FieldAddr); ok {
				fv := core.FieldOfAddr(fa)
				if n := core.NamedOf(fa.X.Type()); n != nil && fv != nil && fv.Exported() {
					if st, ok := n.Underlying().(*types.Struct); ok {
						for j := 0; j < st.NumFields(); j++ {
							if st.Field(j) == fv && reflect.StructTag(st.Tag(j)).Get("json") != "" {
								return n.Obj().Name() + "." + fv.Name(), true
							}
						}
					}
				}
			}
		}
		// a value handed in by the callers (extracted constructor): every static call site must pass a declared setting
		if p, ok := v.(*ssa.Parameter); ok && cgOf != nil {
			pf := p.Parent()
			idx := -1
			for i, q := range pf.Params {
				if q == p {
					idx = i
				}
			}
			if node := cgOf.Nodes[pf]; node != nil && idx >= 0 && len(node.In) > 0 {
				name := ""
				for _, e := range node.In {
					if e.Site == nil || e.Site.Common().StaticCallee() != pf || idx >= len(e.Site.Common().Args) {
						return "", false
					}
					n, ok := dependsOnDecl(e.Site.Common().Args[idx], seen, d+1)
					if !ok {
						return "", false
					}
					name = n
				}
				return name, name != ""
			}
			return "", false
		}
		// a field of an options struct: every store to that field carries a declared setting
		if u, ok := v.(*ssa.UnOp); ok && u.Op == token.MUL {
			if fa, ok := u.X.(*ssa.FieldAddr); ok {
				if fv := core.FieldOfAddr(fa); fv != nil && fieldStores != nil {
					name, n := "", 0
					for _, val := range fieldStores(fv) {
						n++
						nm, ok := dependsOnDecl(val, seen, d+1)
						if !ok {
							return "", false
						}
						name = nm
					}
					if n > 0 {
						return name, true
					}
				}
			}
		}
		if fl, ok := v.(*ssa.Field); ok {
			if fv := core.FieldOfField(fl); fv != nil && fieldStores != nil {
				name, n := "", 0
				for _, val := range fieldStores(fv) {
					n++
					nm, ok := dependsOnDecl(val, seen, d+1)
					if !ok {
						return "", false
					}
					name = nm
				}
				if n > 0 {
					return name, true
				}
			}
		}
		if in, ok := v.(ssa.Instruction); ok {
			for _, op := range in.Operands(nil) {
				if *op != nil {
					if n, ok := dependsOnDecl(*op, seen, d+1); ok {
						return n, true
					}
				}
			}
		}
		return "", false
	}
	for _, blk := range f.Blocks {
		if len(blk.Instrs) == 0 {
			continue
		}
		ifi, ok := blk.Instrs[len(blk.Instrs)-1].(*ssa.If)
		if !ok {
			continue
		}
		name, ok := dependsOnDecl(ifi.Cond, map[ssa.Value]bool{}, 0)
		if !ok {
			continue
		}
		for _, s := range blk.Succs {
			if len(s.Preds) == 1 && (s == b || s.Dominates(b)) {
				return name, true
			}
		}
	}
	return "", false
}

func init() {
	wrapRun("C08", func(c *core.Ctx) {
		if c.CountRule("R08i") == 0 {
			inputRewriters(c, "R08i", []string{"idr", "extensions/omniv21/fileformat/xml", "extensions/omniv21/fileformat/json"})
		}
	})
	wrapRun("C06", func(c *core.Ctx) {
		if c.CountRule("R06m") == 0 {
			inputRewriters(c, "R06m", []string{"extensions/omniv21/fileformat/csv", "extensions/omniv21/fileformat/fixedlength", "extensions/omniv21/fileformat/flatfile"})
		}
	})
	wrapRun("C07", func(c *core.Ctx) {
		if c.CountRule("R07j") == 0 {
			inputRewriters(c, "R07j", []string{"extensions/omniv21/fileformat/edi"})
		}
	})
}

// callersEstablish: f is an unexported function or method all of whose call sites are static calls inside the
// repository, each dominated by exhaustion evidence in its caller (or, recursively, in the caller's callers).
func callersEstablish(c *core.Ctx, f *ssa.Function, evidenceOf func(*ssa.Function) map[*ssa.BasicBlock]string, depth int) (string, bool) {
	if depth > 2 {
		return "", false
	}
	if p := f.Parent(); p != nil {
		return "", false
	}
	if o := f.Object(); o == nil || o.Exported() {
		return "", false
	}
	n := c.CallGraph().Nodes[f]
	if n == nil || len(n.In) == 0 {
		return "", false
	}
	why := ""
	for _, e := range n.In {
		if e.Site == nil || e.Site.Common().StaticCallee() != f {
			return "", false
		}
		caller := e.Caller.Func
		ev := evidenceOf(caller)
		ok := false
		for b, w := range ev {
			if b == e.Site.Block() || b.Dominates(e.Site.Block()) {
				ok, why = true, w+" in "+core.FuncKey(caller)
			}
		}
		if !ok && dominatedByEvidenceAny(e.Site.Block(), ev) {
			ok, why = true, "exhaustion test on every path in "+core.FuncKey(caller)
		}
		if !ok {
			if w, ok2 := callersEstablish(c, caller, evidenceOf, depth+1); ok2 {
				ok, why = true, w
			}
		}
		if !ok {
			return "", false
		}
	}
	return why, true
}

// ---------------------------------------------------------------- tokenisation is controlled by configuration only (C07)

func controlDeps(fn *ssa.Function) *c04CD {
	return (&c04Env{cdMemo: map[*ssa.Function]*c04CD{}}).cd(fn)
}

// splitsUnderConfigOnly: whether a level of splitting (elements, repetitions, components) is applied, and whether a
// piece is recorded, may depend on the configuration (is this delimiter declared?) and on how many pieces the previous
// level produced — never on what the bytes of the token are. Seed C07-12 skipped the repetition split for an element
// equal to the repetition delimiter ("ISA11 literal"): an unescaped delimiter was no longer a split point.
func splitsUnderConfigOnly(c *core.Ctx, rule string, pkg string) {
	c.SSA()
	isBytes := func(t types.Type) bool {
		sl, ok := t.Underlying().(*types.Slice)
		if !ok {
			return false
		}
		b, ok := sl.Elem().Underlying().(*types.Basic)
		return ok && b.Kind() == types.Byte
	}
	isBytesOfBytes := func(t types.Type) bool {
		sl, ok := t.Underlying().(*types.Slice)
		return ok && isBytes(sl.Elem())
	}
	n := 0
	for _, f := range c.RepoFunctions() {
		if !inPkgs(core.FuncPkg(f), []string{pkg}) {
			continue
		}
		var sites []ssa.CallInstruction
		for _, ci := range core.Calls(f) {
			if o := core.CalleeObj(ci); o != nil && o.Pkg() != nil && o.Pkg().Path() == "github.com/jf-tech/go-corelib/strs" && strings.HasPrefix(o.Name(), "ByteSplit") {
				sites = append(sites, ci)
			}
		}
		if len(sites) == 0 {
			continue
		}
		// content = derived from a []byte parameter of the function
		var content func(v ssa.Value, seen map[ssa.Value]bool, d int) bool
		content = func(v ssa.Value, seen map[ssa.Value]bool, d int) bool {
			if v == nil || seen[v] || d > 20 {
				return false
			}
			seen[v] = true
			switch x := v.(type) {
			case *ssa.Parameter:
				return isBytes(x.Type()) || isBytesOfBytes(x.Type())
			case *ssa.Const, *ssa.Global, *ssa.FreeVar, *ssa.Function, *ssa.Builtin:
				return false
			case *ssa.Call:
				if bi, ok := x.Call.Value.(*ssa.Builtin); ok && (bi.Name() == "len" || bi.Name() == "cap") && len(x.Call.Args) == 1 && isBytesOfBytes(x.Call.Args[0].Type()) {
					return false // number of pieces: structure, not content
				}
				for _, a := range x.Call.Args {
					if content(a, seen, d+1) {
						return true
					}
				}
				return false
			case *ssa.UnOp:
				if x.Op == token.MUL {
					if a, ok := x.X.(*ssa.Alloc); ok {
						for _, r := range core.Referrers(a) {
							if st, ok := r.(*ssa.Store); ok && st.Addr == a && content(st.Val, seen, d+1) {
								return true
							}
						}
						return false
					}
					if ia, ok := x.X.(*ssa.IndexAddr); ok {
						return content(ia.X, seen, d+1)
					}
					return false // field loads: configuration / reader state
				}
				return content(x.X, seen, d+1)
			}
			if in, ok := v.(ssa.Instruction); ok {
				for _, op := range in.Operands(nil) {
					if *op != nil && content(*op, seen, d+1) {
						return true
					}
				}
			}
			return false
		}
		cd := controlDeps(f)
		for _, ci := range sites {
			n++
			key := core.FuncKey(f) + " split is controlled by configuration only"
			bad := token.NoPos
			for _, ed := range cd.controlling(ci.Block()) {
				ifi := ed.ifInstr()
				if ifi == nil {
					continue
				}
				if content(ifi.Cond, map[ssa.Value]bool{}, 0) {
					bad = core.InstrPos(ifi)
				}
			}
			if bad.IsValid() {
				c.Bad(rule, key, bad, "whether this level of splitting is applied depends on a condition over the bytes of the token itself: an unescaped delimiter is then a split point for some contents and not for others")
			} else {
				c.OK(rule, key, core.InstrPos(ci), "controlled by declared delimiters and piece counts only")
			}
		}
	}
	if n == 0 {
		c.Unresolved(rule, "split calls", "no strs.ByteSplit* call in package "+pkg)
	}
	c.Floor(rule, 3, "element, repetition and component splits")
}

func init() {
	wrapRun("C07", func(c *core.Ctx) {
		if c.CountRule("R07h") == 0 {
			splitsUnderConfigOnly(c, "R07h", "extensions/omniv21/fileformat/edi")
		}
	})
}

// ---------------------------------------------------------------- addresses of package-level variables

// globalAddrEscapes: a pointer to a package-level variable that is stored into an object, returned, boxed or handed to
// arbitrary code makes that variable a cell shared by every schema/transform holding the pointer: whoever writes through
// it (encoding/json does, when it decodes into a non-nil pointer field) changes the value for all of them (seed C18-7:
// a "default encoding" pointer shared by all schemas). In library code outside package initialisers the address of a
// package-level variable may only be used to load it, to store it directly, or as the receiver/argument of sync and
// sync/atomic operations.
func globalAddrEscapes(c *core.Ctx, rule string) {
	c.SSA()
	n := 0
	for _, f := range c.RepoFunctions() {
		if core.IsCLIOrSample(core.FuncPkg(f)) {
			continue
		}
		isInit := false
		for g := f; g != nil; g = g.Parent() {
			if (g.Synthetic != "" && g.Name() == "init") || (strings.HasPrefix(g.Name(), "init#") && g.Signature.Recv() == nil) {
				isInit = true
			}
		}
		if isInit {
			continue
		}
		for _, b := range f.Blocks {
			for _, in := range b.Instrs {
				for _, op := range in.Operands(nil) {
					g, ok := (*op).(*ssa.Global)
					if !ok || !core.InRepo(g.Pkg.Pkg) || strings.HasSuffix(g.Name(), "$guard") {
						continue
					}
					how := ""
					switch x := in.(type) {
					case *ssa.UnOp:
						if x.Op == token.MUL {
							continue
						}
						how = "is used by a unary operation"
					case *ssa.Store:
						if x.Addr == ssa.Value(g) {
							continue
						}
						how = "is stored into memory"
					case *ssa.FieldAddr, *ssa.IndexAddr:
						// address of a part of the variable: fine when only loaded/stored directly
						esc := false
						for _, r := range core.Referrers(in.(ssa.Value)) {
							switch y := r.(type) {
							case *ssa.UnOp:
							case *ssa.Store:
								if y.Val == in.(ssa.Value) {
									esc = true
								}
							case *ssa.DebugRef:
							default:
								esc = true
							}
						}
						if !esc {
							continue
						}
						how = "has the address of one of its parts taken and passed on"
					case ssa.CallInstruction:
						o := core.CalleeObj(x)
						if o != nil && o.Pkg() != nil && (o.Pkg().Path() == "sync/atomic" || o.Pkg().Path() == "sync") {
							continue
						}
						how = "is passed to " + x.Common().String()
					case *ssa.MakeInterface:
						how = "is boxed into an interface value"
					case *ssa.Return:
						how = "is returned"
					case *ssa.Phi:
						how = "flows into a pointer variable"
					case *ssa.DebugRef:
						continue
					default:
						how = fmt.Sprintf("is used by %T", in)
					}
					n++
					c.Bad(rule, core.FuncKey(f)+" lets the address of global "+g.Name()+" escape", core.InstrPos(in), "the address of package-level variable "+g.Name()+" "+how+": every object that ends up holding this pointer shares one cell, and a write through any of them (e.g. a decoder filling a pointer field) changes what all the others read")
				}
			}
		}
	}
	c.OK(rule, "addresses of package-level variables stay local", 0, fmt.Sprintf("%d escaping use(s) of the address of a package-level variable in library code outside initialisers", n))
}

func init() {
	wrapRun("C14", func(c *core.Ctx) {
		if c.CountRule("R14f") == 0 {
			globalAddrEscapes(c, "R14f")
		}
	})
	wrapRun("C18", func(c *core.Ctx) {
		if c.CountRule("R18e") == 0 {
			globalAddrEscapes(c, "R18e")
		}
	})
}

func init() {
	wrapRun("C13", func(c *core.Ctx) {
		// R13g: the compiled-expression cache is invisible only if the cached path compiles exactly the string the
		// uncached path compiles (= C11 R11f; seed C13-8 normalised whitespace on the cached path only)
		if c.CountRule("R13g") == 0 {
			importRules(c, "C11", map[string]string{"R11f": "R13g"})
			c.Floor("R13g", 3, "loadXPathExpr (2) + stream-reader constructors")
		}
	})
}

// ---------------------------------------------------------------- public functions do not write into their arguments

// apiArgsNotMutated: an exported function (or exported method of an exported type) of the library that writes into a map
// or slice it received as an argument modifies an object its caller may share with the rest of the process — the
// exported built-in function tables are handed to customfuncs.Merge by every extension that follows the documented
// pattern (seed C15-9: Merge re-used its first argument as the result map, so a second extension's overrides landed in
// the built-in table). Unexported helpers that fill a map their caller has just made are not public surface and are
// only counted.
func apiArgsNotMutated(c *core.Ctx, rule string) {
	c.SSA()
	var alias func(v ssa.Value, seen map[ssa.Value]bool) *ssa.Parameter
	alias = func(v ssa.Value, seen map[ssa.Value]bool) *ssa.Parameter {
		if v == nil || seen[v] {
			return nil
		}
		seen[v] = true
		switch x := v.(type) {
		case *ssa.Parameter:
			return x
		case *ssa.Phi:
			for _, e := range x.Edges {
				if p := alias(e, seen); p != nil {
					return p
				}
			}
		case *ssa.ChangeType:
			return alias(x.X, seen)
		case *ssa.Slice:
			return alias(x.X, seen)
		case *ssa.UnOp:
			if x.Op == token.MUL {
				if a, ok := x.X.(*ssa.Alloc); ok {
					for _, r := range core.Referrers(a) {
						if st, ok := r.(*ssa.Store); ok && st.Addr == a {
							if p := alias(st.Val, seen); p != nil {
								return p
							}
						}
					}
				}
				if ia, ok := x.X.(*ssa.IndexAddr); ok {
					return alias(ia.X, seen) // an element of a parameter slice (e.g. of the variadic arguments)
				}
			}
		case *ssa.Index:
			return alias(x.X, seen)
		case *ssa.Lookup:
			return nil
		}
		return nil
	}
	isPublic := func(f *ssa.Function) bool {
		o, ok := f.Object().(*types.Func)
		if !ok || !o.Exported() {
			return false
		}
		if recv := f.Signature.Recv(); recv != nil {
			n := core.NamedOf(recv.Type())
			return n != nil && n.Obj().Exported()
		}
		return true
	}
	nPub, nPriv := 0, 0
	for _, f := range c.RepoFunctions() {
		if core.IsCLIOrSample(core.FuncPkg(f)) {
			continue
		}
		for _, b := range f.Blocks {
			for _, in := range b.Instrs {
				var target ssa.Value
				switch x := in.(type) {
				case *ssa.MapUpdate:
					target = x.Map
				case *ssa.Store:
					if ia, ok := x.Addr.(*ssa.IndexAddr); ok {
						if _, isSl := ia.X.Type().Underlying().(*types.Slice); isSl {
							target = ia.X
						}
					}
				case *ssa.Call:
					if bi, ok := x.Call.Value.(*ssa.Builtin); ok && (bi.Name() == "delete" || bi.Name() == "clear") && len(x.Call.Args) > 0 {
						target = x.Call.Args[0]
					}
				}
				if target == nil {
					continue
				}
				p := alias(target, map[ssa.Value]bool{})
				if p == nil || p.Parent() != f {
					continue
				}
				if f.Signature.Recv() != nil && len(f.Params) > 0 && p == f.Params[0] {
					continue // the receiver itself
				}
				if !isPublic(f) {
					nPriv++
					continue
				}
				nPub++
				c.Bad(rule, core.FuncKey(f)+" writes into its argument "+p.Name(), core.InstrPos(in), "the exported function modifies the "+p.Type().String()+" it was handed as argument "+p.Name()+" (possibly through the value it also returns): a caller that passes a table shared by the whole process — the exported built-in function maps — has it changed for every schema and transform")
			}
		}
	}
	c.OK(rule, "public functions leave their aggregate arguments alone", 0, fmt.Sprintf("%d write(s) into a map/slice argument in exported functions, %d in unexported helpers (not public surface)", nPub, nPriv))
}

func init() {
	wrapRun("C15", func(c *core.Ctx) {
		if c.CountRule("R15k") == 0 {
			apiArgsNotMutated(c, "R15k")
		}
		if c.CountRule("R15l") == 0 {
			importRules(c, "C09", map[string]string{"R09a": "R15l", "R09i": "R15l", "R09j": "R15l"})
			c.Floor("R15l", 15, "borrowed-buffer discipline (= C09 R09a/R09i)")
		}
	})
	wrapRun("C14", func(c *core.Ctx) {
		if c.CountRule("R14g") == 0 {
			apiArgsNotMutated(c, "R14g")
		}
	})
}

// ---------------------------------------------------------------- the document root is never released (C12)

// rootNeverReleased: a stream reader keeps three node references: the document root (set by the constructor and kept
// for the reader's life time), the cursor and the stream candidate. The candidate has its own release paths (delivery,
// rejection, the caller's Release, the "just in case" release at the next Read) and can be the root itself (target
// xpath "."), so a further release through the root field cannot be shown to be the only one: a node released twice is
// handed out twice by the pool (seed C12-8 released the root at EOF). The root field is recognised by role: a *Node
// field of a stream reader (struct with >= 2 *Node fields, methods Read and Release) that no method assigns.
func rootNeverReleased(c *core.Ctx, rule string) {
	c.SSA()
	idr := c.Pkg("idr")
	if idr == nil {
		c.Unresolved(rule, "package idr", "not loaded")
		return
	}
	nodeObj, _ := idr.Types.Scope().Lookup("Node").(*types.TypeName)
	if nodeObj == nil {
		c.Unresolved(rule, "idr.Node", "type not found")
		return
	}
	isNodePtr := func(t types.Type) bool {
		p, ok := t.(*types.Pointer)
		return ok && types.Identical(p.Elem(), nodeObj.Type())
	}
	removeFn := c.Func("idr", "RemoveAndReleaseTree")
	nReaders := 0
	for _, name := range idr.Types.Scope().Names() {
		tn, ok := idr.Types.Scope().Lookup(name).(*types.TypeName)
		if !ok {
			continue
		}
		st, ok := tn.Type().Underlying().(*types.Struct)
		if !ok {
			continue
		}
		var nodeFields []*types.Var
		var collect func(s *types.Struct, d int)
		collect = func(s *types.Struct, d int) {
			for i := 0; i < s.NumFields(); i++ {
				ft := s.Field(i).Type()
				if isNodePtr(ft) {
					nodeFields = append(nodeFields, s.Field(i))
					continue
				}
				// reader state grouped into a sub-struct of the package (by value or by pointer)
				if n := core.NamedOf(ft); n != nil && n.Obj().Pkg() == idr.Types && n.Obj() != nodeObj && d < 2 {
					if inner, ok := n.Underlying().(*types.Struct); ok {
						collect(inner, d+1)
					}
				}
			}
		}
		collect(st, 0)
		if len(nodeFields) < 2 || c.MethodOfPkg(idr.Types, name, "Read") == nil || c.MethodOfPkg(idr.Types, name, "Release") == nil {
			continue
		}
		nReaders++
		// fields assigned by methods of the type
		assigned := map[*types.Var]bool{}
		var methods []*ssa.Function
		for _, f := range c.RepoFunctions() {
			if core.FuncPkg(f) != idr.Types {
				continue
			}
			root := f
			for root.Parent() != nil {
				root = root.Parent()
			}
			if recv := root.Signature.Recv(); recv == nil || core.NamedOf(recv.Type()) == nil || core.NamedOf(recv.Type()).Obj() != tn {
				continue
			}
			methods = append(methods, f)
			for _, w := range core.Writes(f) {
				if w.Kind == "field" && w.Field != nil {
					assigned[w.Field] = true
				}
			}
		}
		var roots []*types.Var
		for _, nf := range nodeFields {
			if !assigned[nf] {
				roots = append(roots, nf)
			}
		}
		if len(roots) != 1 {
			c.Unresolved(rule, "document root field of "+name, fmt.Sprintf("expected exactly one *Node field that no method assigns, found %d: the root reference is no longer fixed for the reader's life time", len(roots)))
			continue
		}
		rootF := roots[0]
		n := 0
		for _, f := range methods {
			for _, ci := range core.Calls(f) {
				cf := ci.Common().StaticCallee()
				isRelease := cf != nil && (cf == removeFn || (cf.Name() == "Release" && cf.Signature.Recv() != nil))
				if !isRelease {
					continue
				}
				for _, a := range ci.Common().Args {
					if fp, ok := core.LoadedField(a); ok && len(fp.Path) > 0 && fp.Path[len(fp.Path)-1] == rootF {
						n++
						c.Unknown(rule, core.FuncKey(f)+" releases the document root", core.InstrPos(ci), "the document root is released through its own field; the stream candidate, which has separate release paths (delivery, rejection, Release, the release at the next Read), can be that very node (target xpath \".\"), so this cannot be shown to be the node's only release: a node released twice is handed out twice by the pool")
					}
				}
			}
		}
		c.OK(rule, name+" never releases its document root", rootF.Pos(), fmt.Sprintf("root field resolved by role; %d release(s) through it", n))
	}
	if nReaders < 2 {
		c.Unresolved(rule, "stream readers", fmt.Sprintf("expected the XML and JSON stream readers, found %d", nReaders))
	}
}

func init() {
	wrapRun("C12", func(c *core.Ctx) {
		if c.CountRule("R12i") == 0 {
			rootNeverReleased(c, "R12i")
		}
	})
}

func init() {
	wrapRun("C16", func(c *core.Ctx) {
		// R16g: a hand-written io.Reader in the input path decides itself what happens to the source's errors (seed C16-7
		// retried on every non-EOF error: Read never returns) = C09 R09c/R09d; K9 of C03 is the same loop seen from the
		// termination side
		if c.CountRule("R16g") == 0 {
			importRules(c, "C09", map[string]string{"R09c": "R16g", "R09d": "R16g"})
			c.Floor("R16g", 2, "no raw Read, no hand-written reader in library code")
		}
		// R16h: a reader failure must not be turned into a clean end of input: io.EOF is reported/manufactured only on
		// evidence that the source is exhausted (= C05 R05a.i/R05i for the hierarchical readers, C04 R04k for XML/JSON;
		// seed C16-8 replaced a remembered input failure by io.EOF to run the end-of-input wrap-up)
		if c.CountRule("R16h") == 0 {
			importRules(c, "C05", map[string]string{"R05a.i": "R16h", "R05i": "R16h"})
			importRules(c, "C04", map[string]string{"R04k": "R16h"})
			c.Floor("R16h", 6, "EOF sites of the hierarchical and the XML/JSON readers")
		}
	})
}

// ---------------------------------------------------------------- exclusive JavaScript runtimes (C20)

// exclusiveRuntime: a goja runtime is a mutable object: the arguments of a call are its globals while the script runs.
// Two calls may use the same runtime only one after the other. The runtime a program is run on must therefore be obtained
// exclusively: freshly created (goja.New) or taken out of a sync.Pool (Get removes it from the pool until Put). A runtime
// looked up in shared state (a map keyed by the transform context, a field, a package-level variable) can be in use by
// another goroutine at the same time (seed C20-8 pinned one runtime per transformctx.Ctx in a sync.Map).
func exclusiveRuntime(c *core.Ctx, rule string) {
	c.SSA()
	n := 0
	for _, f := range c.RepoFunctions() {
		if core.IsCLIOrSample(core.FuncPkg(f)) {
			continue
		}
		for _, ci := range core.Calls(f) {
			if !(isGojaMethod(ci, "Runtime", "RunProgram") || isGojaMethod(ci, "Runtime", "RunString") || isGojaMethod(ci, "Runtime", "RunScript")) {
				continue
			}
			n++
			key := core.FuncKey(f) + " runs the program on an exclusively held runtime"
			bad := ""
			seen := map[ssa.Value]bool{}
			var origin func(v ssa.Value, d int)
			origin = func(v ssa.Value, d int) {
				if v == nil || seen[v] || bad != "" {
					return
				}
				seen[v] = true
				if d > 12 {
					bad = "origin too deep to follow"
					return
				}
				switch x := v.(type) {
				case *ssa.Phi:
					for _, e := range x.Edges {
						origin(e, d+1)
					}
				case *ssa.TypeAssert:
					origin(x.X, d+1)
				case *ssa.Extract:
					if call, ok := x.Tuple.(*ssa.Call); ok {
						if cf := call.Call.StaticCallee(); cf != nil && cf.Blocks != nil && core.InRepo(core.FuncPkg(cf)) && !poolGetCall(call) {
							// a repository helper that hands out the runtime: every value it returns in that position
							for _, rt := range c19Returns(cf) {
								if x.Index < len(rt.Results) {
									origin(rt.Results[x.Index], d+1)
								}
							}
							return
						}
					}
					origin(x.Tuple, d+1)
				case *ssa.ChangeType:
					origin(x.X, d+1)
				case *ssa.MakeInterface:
					origin(x.X, d+1)
				case *ssa.Const:
					// nil initial value
				case *ssa.UnOp:
					if x.Op == token.MUL {
						switch a := x.X.(type) {
						case *ssa.Alloc:
							for _, r := range core.Referrers(a) {
								if st, ok := r.(*ssa.Store); ok && st.Addr == a {
									origin(st.Val, d+1)
								}
							}
							return
						case *ssa.FreeVar:
							if b := closureBinding(f, a); b != nil {
								if al, ok := b.(*ssa.Alloc); ok {
									for _, r := range core.Referrers(al) {
										if st, ok := r.(*ssa.Store); ok && st.Addr == al {
											origin(st.Val, d+1)
										}
									}
									return
								}
							}
						}
					}
					bad = "a value loaded from memory (" + x.String() + ")"
				case *ssa.Call:
					if isGojaFunc(x, "New") || poolGetCall(x) {
						return
					}
					if cf := x.Call.StaticCallee(); cf != nil && cf.Blocks != nil && core.InRepo(core.FuncPkg(cf)) && cf.Signature.Results().Len() == 1 {
						for _, rt := range c19Returns(cf) {
							origin(rt.Results[0], d+1)
						}
						return
					}
					bad = "the result of " + x.Call.String()
				case *ssa.Parameter:
					bad = "parameter " + x.Name() + " (the caller's runtime)"
				default:
					bad = fmt.Sprintf("%s (%T)", v.Name(), v)
				}
			}
			origin(ci.Common().Args[0], 0)
			if bad == "" {
				c.OK(rule, key, core.InstrPos(ci), "every origin of the runtime is goja.New() or sync.Pool.Get")
			} else {
				c.Bad(rule, key, core.InstrPos(ci), "the runtime the program runs on can be "+bad+", which is neither freshly created nor taken out of a sync.Pool: two calls running at the same time can be given the same runtime and see or overwrite each other's arguments and _node")
			}
		}
	}
	if n == 0 {
		c.Unresolved(rule, "program runner", "no repository function runs a goja program")
	}
}

func init() {
	wrapRun("C20", func(c *core.Ctx) {
		if c.CountRule("R20g") == 0 {
			exclusiveRuntime(c, "R20g")
		}
	})
	wrapRun("C14", func(c *core.Ctx) {
		if c.CountRule("R14h") == 0 {
			exclusiveRuntime(c, "R14h")
		}
	})
}

// ---------------------------------------------------------------- pooled containers are handed back empty

// pooledContainersBlank: a map or slice that is recycled through a sync.Pool carries its contents to whoever gets it
// next — possibly another goroutine, another transform. Every path from a write into the container to the point where
// it goes back to the pool must pass a point that empties it: clear(x), or a call that hands x to a function which
// deletes the entries it ranges over. With a deferred Put this includes every early error return (seed C20-7: the
// argument map of a javascript call was pooled, and a call rejected half way through its argument list returned before
// the function that empties the map was reached).
func pooledContainersBlank(c *core.Ctx, rule string) {
	c.SSA()
	n := 0
	clearsParam := func(g *ssa.Function, pi int) bool {
		if g == nil || g.Blocks == nil || pi >= len(g.Params) {
			return false
		}
		p := g.Params[pi]
		fns := append([]*ssa.Function{g}, g.AnonFuncs...)
		for _, h := range fns {
			for _, ci := range core.Calls(h) {
				bi, ok := ci.Common().Value.(*ssa.Builtin)
				if !ok || (bi.Name() != "delete" && bi.Name() != "clear") || len(ci.Common().Args) == 0 {
					continue
				}
				a := ci.Common().Args[0]
				if a == ssa.Value(p) {
					return true
				}
				// captured parameter: a load of a free variable / cell of the same name and type
				if u, ok := a.(*ssa.UnOp); ok && u.Op == token.MUL {
					if fv, ok := u.X.(*ssa.FreeVar); ok && fv.Name() == p.Name() {
						return true
					}
					if al, ok := u.X.(*ssa.Alloc); ok && al.Comment == p.Name() {
						return true
					}
				}
				if fv, ok := a.(*ssa.FreeVar); ok && fv.Name() == p.Name() {
					return true
				}
			}
		}
		return false
	}
	for _, f := range c.RepoFunctions() {
		if core.IsCLIOrSample(core.FuncPkg(f)) {
			continue
		}
		for _, ci := range core.Calls(f) {
			putArg, isPut := poolPutArg(ci)
			if !isPut {
				continue
			}
			x := core.Unwrap(putArg, true)
			switch x.Type().Underlying().(type) {
			case *types.Map, *types.Slice:
			default:
				continue
			}
			if ta, ok := x.(*ssa.TypeAssert); ok {
				_ = ta
			}
			n++
			key := core.FuncKey(f) + " returns a container to the pool empty"
			isClearing := func(in ssa.Instruction) bool {
				call, ok := in.(ssa.CallInstruction)
				if !ok {
					return false
				}
				if bi, ok := call.Common().Value.(*ssa.Builtin); ok && bi.Name() == "clear" && len(call.Common().Args) == 1 && call.Common().Args[0] == x {
					return true
				}
				if _, isDefer := in.(*ssa.Defer); isDefer {
					return false
				}
				if cf := call.Common().StaticCallee(); cf != nil && core.InRepo(core.FuncPkg(cf)) {
					for i, a := range call.Common().Args {
						if core.Unwrap(a, true) == x && clearsParam(cf, i) {
							return true
						}
					}
				}
				return false
			}
			isWrite := func(in ssa.Instruction) bool {
				switch y := in.(type) {
				case *ssa.MapUpdate:
					return y.Map == x
				case *ssa.Store:
					if ia, ok := y.Addr.(*ssa.IndexAddr); ok {
						return ia.X == x
					}
				}
				return false
			}
			_, deferred := ci.(*ssa.Defer)
			var badW, badExit ssa.Instruction
			for _, b := range f.Blocks {
				for _, in := range b.Instrs {
					if !isWrite(in) || badW != nil {
						continue
					}
					// walk forward from the write; stop at clearing events; the container must not reach the Put dirty
					core.WalkAfter(in, func(u ssa.Instruction) bool {
						if badW != nil {
							return false
						}
						if isClearing(u) {
							return false
						}
						if deferred {
							if _, isRet := u.(*ssa.Return); isRet {
								badW, badExit = in, u
								return false
							}
							if _, isPanic := u.(*ssa.Panic); isPanic {
								return false
							}
						} else if u == ssa.Instruction(ci) {
							badW, badExit = in, u
							return false
						}
						return true
					})
				}
			}
			if badW != nil {
				c.Bad(rule, key, core.InstrPos(badW), fmt.Sprintf("an entry written here can still be in the container when it is handed back to the pool (path to %s without clear() or a call that empties it): the next user of the pooled object — another call, another goroutine — starts with this call's data", c.Position(core.InstrPos(badExit))))
			} else {
				c.OK(rule, key, core.InstrPos(ci), "every path from a write into the container to the Put passes a point that empties it")
			}
		}
	}
	c.OK(rule, "pooled containers", 0, fmt.Sprintf("%d sync.Pool.Put site(s) whose object is a map or slice", n))
}

func init() {
	for _, pr := range [][2]string{{"C20", "R20h"}, {"C13", "R13h"}, {"C10", "R10n"}, {"C15", "R15m"}} {
		pr := pr
		wrapRun(pr[0], func(c *core.Ctx) {
			if c.CountRule(pr[1]) == 0 {
				pooledContainersBlank(c, pr[1])
			}
		})
	}
}

// ---------------------------------------------------------------- xpath navigation does not modify the tree (C11)

// navigatorPure: the reference DOM answers queries without changing the document. The methods of the type that
// implements xpath.NodeNavigator, and the repository functions they call, may write to the navigator's own fields (its
// cursor) and to fresh objects only. A write into a tree node during navigation — a memo of a node's string-value, a
// cached child count — ties later answers to the moment the memo was taken; the streaming readers keep adding and
// removing nodes under the same ancestors (seed C11-9: string-value memoised on the node, invalidated one level up only).
func navigatorPure(c *core.Ctx, rule string) {
	c.SSA()
	idr := c.Pkg("idr")
	xp := c.AnyPkg("github.com/antchfx/xpath")
	if idr == nil || xp == nil {
		c.Unresolved(rule, "packages idr / antchfx/xpath", "not loaded")
		return
	}
	navI, _ := xp.Types.Scope().Lookup("NodeNavigator").Type().Underlying().(*types.Interface)
	if navI == nil {
		c.Unresolved(rule, "xpath.NodeNavigator", "interface not found")
		return
	}
	var navT *types.Named
	for _, name := range idr.Types.Scope().Names() {
		if tn, ok := idr.Types.Scope().Lookup(name).(*types.TypeName); ok {
			if n, ok := tn.Type().(*types.Named); ok && types.Implements(types.NewPointer(n), navI) {
				if _, isIface := n.Underlying().(*types.Interface); !isIface {
					navT = n
				}
			}
		}
	}
	if navT == nil {
		c.Unresolved(rule, "navigator type", "no type of package idr implements xpath.NodeNavigator")
		return
	}
	// methods of the navigator + repository callees
	scope := map[*ssa.Function]bool{}
	var add func(f *ssa.Function, d int)
	add = func(f *ssa.Function, d int) {
		if f == nil || scope[f] || f.Blocks == nil || d > 6 || !core.InRepo(core.FuncPkg(f)) {
			return
		}
		scope[f] = true
		for _, ci := range core.Calls(f) {
			add(ci.Common().StaticCallee(), d+1)
		}
		for _, a := range f.AnonFuncs {
			add(a, d+1)
		}
	}
	ms := c.SSA().MethodSets.MethodSet(types.NewPointer(navT))
	for i := 0; i < ms.Len(); i++ {
		if fn := c.SSA().MethodValue(ms.At(i)); fn != nil {
			add(fn, 0)
		}
	}
	nW := 0
	for _, f := range core.SortedFuncs(scope) {
		for _, w := range core.Writes(f) {
			nW++
			if core.IsFresh(w.Root) {
				continue
			}
			if w.Owner != nil && types.Identical(w.Owner, navT) && w.Kind == "field" && len(w.Chain) == 1 {
				continue // the navigator's own cursor fields
			}
			if w.Kind == "struct" && w.Owner != nil && types.Identical(w.Owner, navT) {
				continue
			}
			what := "memory that is not the navigator's own"
			if w.Owner != nil && w.Field != nil {
				what = "field " + w.Owner.Obj().Name() + "." + w.Field.Name()
			}
			c.Bad(rule, core.FuncKey(f)+" writes during navigation", w.Pos, "xpath navigation writes to "+what+": evaluating a query changes state that later queries read, so an answer depends on which queries ran before and on when, relative to the reader adding/removing nodes, they ran")
		}
	}
	c.OK(rule, "navigation is read-only", navT.Obj().Pos(), fmt.Sprintf("%d function(s) on the navigation path, %d store(s), all into the navigator itself or fresh objects unless reported", len(scope), nW))
}

func init() {
	wrapRun("C11", func(c *core.Ctx) {
		if c.CountRule("R11g") == 0 {
			navigatorPure(c, "R11g")
		}
	})
}

func init() {
	wrapRun("C17", func(c *core.Ctx) {
		// R17f: whether a node is tracked as the candidate — and therefore removed once it is delivered or rejected —
		// depends on the selection state only (= C04 R04i): a node that a private shortcut declines to mark stays linked
		// under its parent for ever (seed C17-7: attribute-only filters decided at the start tag)
		if c.CountRule("R17f") == 0 {
			// R04g (constructor agreement, incl. the trimmed split input): when the final predicate is not split off, the
			// open-time test fails for every node and, with a negated predicate, every node is retained (seeds C17-2, C17-9)
			importRules(c, "C04", map[string]string{"R04i": "R17f", "R04n": "R17f", "R04g": "R17f"})
			c.Floor("R17f", 6, "marking / delivering / rejecting decisions of the two stream readers")
		}
	})
}

// ---------------------------------------------------------------- memo tables keyed by a projection

// memoKeyProjection: a map kept in reader/context state or in a package-level variable that one function both consults
// and fills is a memo table. If the key is a projection of an object (a field of it, or the result of a method called
// on it: its name, its ID) while the stored value is computed from the object itself, two different objects with equal
// projections share an entry: the second one is served what was computed for the first (seed C05-1: first-leaf
// declaration memoised per declaration NAME; two groups of the same name in different branches got each other's leaf).
// The per-record result cache of the transform package (key: node ID + declaration hash) has its own completeness
// rule (R13a) and is exempt, recognised by role: the table looked up by the function that R13a resolves as ParseNode.
func memoKeyProjection(c *core.Ctx, rule string, pkgs []string) {
	c.SSA()
	exempt := map[*ssa.Function]bool{}
	if pn := c.Method("extensions/omniv21/transform", "parseCtx", "ParseNode"); pn != nil {
		exempt[pn] = true
		for _, a := range pn.AnonFuncs {
			exempt[a] = true
		}
	}
	n := 0
	for _, f := range c.RepoFunctions() {
		if core.IsCLIOrSample(core.FuncPkg(f)) || !inPkgs(core.FuncPkg(f), pkgs) || exempt[f] {
			continue
		}
		persistent := func(m ssa.Value) (string, bool) {
			steps, root := core.TraceAddr(m)
			if g, ok := root.(*ssa.Global); ok {
				return "package-level variable " + g.Name(), true
			}
			for _, s := range steps {
				if s.Kind == "field" && s.Field != nil {
					return "field " + s.Field.Name(), true
				}
			}
			return "", false
		}
		// lookups of persistent maps in f
		looked := map[string]bool{}
		for _, b := range f.Blocks {
			for _, in := range b.Instrs {
				if lk, ok := in.(*ssa.Lookup); ok {
					if _, isMap := lk.X.Type().Underlying().(*types.Map); isMap {
						if name, ok := persistent(lk.X); ok {
							looked[name] = true
						}
					}
				}
			}
		}
		if len(looked) == 0 {
			continue
		}
		for _, b := range f.Blocks {
			for _, in := range b.Instrs {
				mu, ok := in.(*ssa.MapUpdate)
				if !ok {
					continue
				}
				name, ok := persistent(mu.Map)
				if !ok || !looked[name] {
					continue
				}
				n++
				key := core.FuncKey(f) + " memo table in " + name
				// the object(s) the key is a projection of
				var objs []ssa.Value
				var proj func(v ssa.Value, d int)
				seenP := map[ssa.Value]bool{}
				proj = func(v ssa.Value, d int) {
					if v == nil || seenP[v] || d > 8 {
						return
					}
					seenP[v] = true
					switch x := v.(type) {
					case *ssa.Call:
						cc := x.Call
						if cc.IsInvoke() {
							objs = append(objs, cc.Value)
							return
						}
						if cf := cc.StaticCallee(); cf != nil && cf.Signature.Recv() != nil && len(cc.Args) > 0 && len(cc.Args) == 1 {
							objs = append(objs, cc.Args[0]) // niladic method: a property of its receiver
							return
						}
						for _, a := range cc.Args {
							proj(a, d+1)
						}
					case *ssa.UnOp:
						if x.Op == token.MUL {
							if fa, ok := x.X.(*ssa.FieldAddr); ok {
								objs = append(objs, fa.X)
								return
							}
						}
						proj(x.X, d+1)
					case *ssa.Field:
						objs = append(objs, x.X)
					case *ssa.BinOp:
						proj(x.X, d+1)
						proj(x.Y, d+1)
					case *ssa.Convert:
						proj(x.X, d+1)
					case *ssa.ChangeType:
						proj(x.X, d+1)
					case *ssa.MakeInterface:
						proj(x.X, d+1)
					case *ssa.Phi:
						for _, e := range x.Edges {
							proj(e, d+1)
						}
					}
				}
				proj(mu.Key, 0)
				if len(objs) == 0 {
					c.OK(rule, key, core.InstrPos(mu), "the key is not a projection of an object (a plain value)")
					continue
				}
				// does the stored value depend on one of those objects other than through the key?
				dep := ""
				seenV := map[ssa.Value]bool{mu.Key: true}
				var walk func(v ssa.Value, d int)
				walk = func(v ssa.Value, d int) {
					if v == nil || seenV[v] || dep != "" || d > 24 {
						return
					}
					seenV[v] = true
					for _, o := range objs {
						if v == o {
							// the receiver loads of a reader's own struct (r.field) are state, not the keyed object
							if p, ok := o.(*ssa.Parameter); ok && f.Signature.Recv() != nil && len(f.Params) > 0 && p == f.Params[0] {
								continue
							}
							dep = o.Name()
							return
						}
					}
					switch x := v.(type) {
					case *ssa.Const, *ssa.Global, *ssa.Function, *ssa.Builtin, *ssa.Parameter, *ssa.FreeVar:
						return
					case *ssa.UnOp:
						if x.Op == token.MUL {
							if a, ok := x.X.(*ssa.Alloc); ok {
								for _, r := range core.Referrers(a) {
									if st, ok := r.(*ssa.Store); ok && st.Addr == a {
										walk(st.Val, d+1)
									}
								}
								return
							}
						}
					}
					if in, ok := v.(ssa.Instruction); ok {
						for _, op := range in.Operands(nil) {
							if *op != nil {
								walk(*op, d+1)
							}
						}
					}
				}
				walk(mu.Value, 0)
				if dep != "" {
					c.Bad(rule, key, core.InstrPos(mu), "the entry is keyed by a property of "+dep+" (a field / the result of a method called on it) but its value is computed from "+dep+" itself: another object with the same property is served this entry instead of its own result")
				} else {
					c.OK(rule, key, core.InstrPos(mu), "the stored value depends on the key only")
				}
			}
		}
	}
	c.OK(rule, "memo tables", 0, fmt.Sprintf("%d consult-and-fill map site(s) in persistent state inspected in %v", n, pkgs))
}

func init() {
	wrapRun("C05", func(c *core.Ctx) {
		if c.CountRule("R05k") == 0 {
			memoKeyProjection(c, "R05k", []string{"extensions/omniv21/fileformat/flatfile", "extensions/omniv21/fileformat/edi"})
		}
	})
	wrapRun("C13", func(c *core.Ctx) {
		if c.CountRule("R13i") == 0 {
			memoKeyProjection(c, "R13i", []string{"idr", "extensions/omniv21", "customfuncs", ""})
		}
	})
	wrapRun("C10", func(c *core.Ctx) {
		if c.CountRule("R10o") == 0 {
			memoKeyProjection(c, "R10o", []string{"idr", "extensions/omniv21", "customfuncs", ""})
		}
	})
}

// ---------------------------------------------------------------- the CR-before-LF rule applies to the "\n" delimiter only (C07)

// crRuleOnlyForNewline: a CR that precedes the segment delimiter is dropped only when the delimiter is exactly "\n"
// (the documented newline-delimiter rule). The test for a trailing CR (bytes.HasSuffix(x, <[]byte("\r")>)) must be
// control-dependent on the true edge of an equality test of the segment delimiter with the constant "\n" — directly, or
// through a bool field whose only stores are such an equality test. Seed C07-15 widened it to "delimiter ends in LF":
// with "~\n" or "\r\n" a data byte CR at the end of the last element disappeared.
func crRuleOnlyForNewline(c *core.Ctx, rule, pkg string) {
	c.SSA()
	p := c.Pkg(pkg)
	if p == nil {
		c.Unresolved(rule, "package "+pkg, "not loaded")
		return
	}
	// globals initialised with []byte("\r")
	crGlobals := map[*ssa.Global]bool{}
	sp := c.SSAPkg(pkg)
	if ini := sp.Func("init"); ini != nil {
		for _, b := range ini.Blocks {
			for _, in := range b.Instrs {
				if st, ok := in.(*ssa.Store); ok {
					if g, ok := st.Addr.(*ssa.Global); ok {
						v := st.Val
						if cv, ok := v.(*ssa.Convert); ok {
							v = cv.X
						}
						if s, ok := constString(v); ok && s == "\r" {
							crGlobals[g] = true
						}
					}
				}
			}
		}
	}
	var isNLEq func(v ssa.Value, d int) bool
	isNLEq = func(v ssa.Value, d int) bool {
		if d > 4 {
			return false
		}
		switch x := v.(type) {
		case *ssa.BinOp:
			if x.Op != token.EQL {
				return false
			}
			if s, ok := constString(x.X); ok && s == "\n" {
				return true
			}
			if s, ok := constString(x.Y); ok && s == "\n" {
				return true
			}
		case *ssa.UnOp:
			if x.Op == token.MUL {
				if fa, ok := x.X.(*ssa.FieldAddr); ok {
					fv := core.FieldOfAddr(fa)
					n, all := 0, true
					for _, f := range c.RepoFunctions() {
						if core.FuncPkg(f) != p.Types {
							continue
						}
						for _, w := range core.Writes(f) {
							if w.Kind == "field" && w.Field == fv {
								n++
								if !isNLEq(w.Val, d+1) {
									all = false
								}
							}
						}
					}
					return n > 0 && all
				}
			}
		}
		return false
	}
	n := 0
	for _, f := range c.RepoFunctions() {
		if core.FuncPkg(f) != p.Types {
			continue
		}
		for _, ci := range core.Calls(f) {
			if !core.IsCallTo(ci, "bytes", "HasSuffix") || len(ci.Common().Args) != 2 {
				continue
			}
			u, ok := ci.Common().Args[1].(*ssa.UnOp)
			if !ok {
				continue
			}
			g, ok := u.X.(*ssa.Global)
			if !ok || !crGlobals[g] {
				continue
			}
			n++
			key := core.FuncKey(f) + " trailing-CR test applies under the \"\\n\" delimiter only"
			good := false
			for _, ed := range controlDeps(f).controlling(ci.Block()) {
				if ifi := ed.ifInstr(); ifi != nil && ed.succ == 0 && isNLEq(ifi.Cond, 0) {
					good = true
				}
			}
			c.Check(good, rule, key, core.InstrPos(ci), "control-dependent on the true edge of `segment delimiter == \"\\n\"`",
				"the test for a CR in front of the segment delimiter is not guarded by an equality test of the delimiter with \"\\n\": for other delimiters a CR byte at the end of the last element is data and must reach the transform")
		}
	}
	// second anchor: the strip itself, x[:len(x)-utf8.RuneLen('\r')] (the test may be written with another primitive)
	for _, f := range c.RepoFunctions() {
		if core.FuncPkg(f) != p.Types {
			continue
		}
		for _, b := range f.Blocks {
			for _, in := range b.Instrs {
				sl, ok := in.(*ssa.Slice)
				if !ok || sl.High == nil {
					continue
				}
				bo, ok := sl.High.(*ssa.BinOp)
				if !ok || bo.Op != token.SUB {
					continue
				}
				call, ok := bo.Y.(*ssa.Call)
				if !ok || !core.IsCallTo(call, "unicode/utf8", "RuneLen") || len(call.Call.Args) != 1 {
					continue
				}
				if k, ok := call.Call.Args[0].(*ssa.Const); !ok || k.Value == nil || k.Value.ExactString() != "13" {
					continue
				}
				n++
				key := core.FuncKey(f) + " CR strip applies under the \"\\n\" delimiter only"
				good := false
				for _, ed := range controlDeps(f).controlling(b) {
					if ifi := ed.ifInstr(); ifi != nil && ed.succ == 0 && isNLEq(ifi.Cond, 0) {
						good = true
					}
				}
				c.Check(good, rule, key, core.InstrPos(in), "control-dependent on the true edge of `segment delimiter == \"\\n\"`",
					"the CR in front of the segment delimiter is stripped without an equality test of the delimiter with \"\\n\" on the way: for other delimiters a CR byte at the end of the last element is data")
			}
		}
	}
	if n == 0 {
		c.Unresolved(rule, "trailing-CR rule", "neither a bytes.HasSuffix(x, []byte(\"\\r\")) test nor an x[:len(x)-utf8.RuneLen('\\r')] strip found in package "+pkg)
	}
}

func init() {
	wrapRun("C07", func(c *core.Ctx) {
		if c.CountRule("R07k") == 0 {
			crRuleOnlyForNewline(c, "R07k", "extensions/omniv21/fileformat/edi")
		}
	})
}

// blankTokenRuleUnconditional: tokens that consist of CR/LF only are skipped whatever the segment delimiter is (blank
// lines at the end of, or between, segments). The function that classifies a token as CR/LF-only (recognised by shape:
// a []byte -> (..., bool) function of the package that compares decoded runes with '\n' and '\r') must be applied to
// every scanned token: its call must not be control-dependent on a condition that reads the reader's delimiter
// configuration (seed C07-10 applied it for the "\n" delimiter only; a blank line then became "missing segment name").
func blankTokenRuleUnconditional(c *core.Ctx, rule, pkg string) {
	c.SSA()
	p := c.Pkg(pkg)
	if p == nil {
		c.Unresolved(rule, "package "+pkg, "not loaded")
		return
	}
	isClassifier := func(f *ssa.Function) bool {
		if f == nil || f.Blocks == nil || core.FuncPkg(f) != p.Types || f.Signature.Recv() != nil || len(f.Params) != 1 {
			return false
		}
		res := f.Signature.Results()
		hasBool := false
		for i := 0; i < res.Len(); i++ {
			if b, ok := res.At(i).Type().Underlying().(*types.Basic); ok && b.Kind() == types.Bool {
				hasBool = true
			}
		}
		if !hasBool {
			return false
		}
		seen := map[string]bool{}
		for _, b := range f.Blocks {
			for _, in := range b.Instrs {
				if bo, ok := in.(*ssa.BinOp); ok && (bo.Op == token.EQL || bo.Op == token.NEQ) {
					for _, v := range []ssa.Value{bo.X, bo.Y} {
						if k, ok := v.(*ssa.Const); ok && k.Value != nil {
							seen[k.Value.ExactString()] = true
						}
					}
				}
			}
		}
		return seen["10"] && seen["13"]
	}
	n := 0
	for _, f := range c.RepoFunctions() {
		if core.FuncPkg(f) != p.Types {
			continue
		}
		for _, ci := range core.Calls(f) {
			if !isClassifier(ci.Common().StaticCallee()) {
				continue
			}
			n++
			key := core.FuncKey(f) + " classifies every scanned token"
			bad := token.NoPos
			for _, ed := range controlDeps(f).controlling(ci.Block()) {
				ifi := ed.ifInstr()
				if ifi == nil {
					continue
				}
				// a condition that reads a field of the reader other than through a call on the scanner
				if c04DependsOn(ifi.Cond, func(v ssa.Value) bool {
					u, ok := v.(*ssa.UnOp)
					if !ok || u.Op != token.MUL {
						return false
					}
					if _, isFA := u.X.(*ssa.FieldAddr); !isFA {
						return false
					}
					if n := core.NamedOf(u.Type()); n != nil && n.Obj().Pkg() != nil && n.Obj().Pkg().Path() == "bufio" {
						return false // the scanner itself: what it yields is input, not configuration
					}
					return true
				}) {
					if call, isCall := ifi.Cond.(*ssa.Call); isCall {
						if o := core.CalleeObj(call); o != nil && o.Pkg() != nil && o.Pkg().Path() == "bufio" {
							continue // for r.scanner.Scan()
						}
					}
					bad = core.InstrPos(ifi)
				}
			}
			c.Check(!bad.IsValid(), rule, key, core.InstrPos(ci), "the CR/LF-only classification runs for every token the scanner yields",
				"whether a scanned token is checked for being CR/LF-only depends on the reader's configuration: for the configurations that skip the check a blank line is handed on as a segment and fails with 'missing segment name'")
		}
	}
	if n == 0 {
		c.Unresolved(rule, "CR/LF-only classifier", "no call of a []byte -> (.., bool) function comparing runes with '\\n' and '\\r' in package "+pkg)
	}
}

func init() {
	wrapRun("C07", func(c *core.Ctx) {
		if c.CountRule("R07l") == 0 {
			blankTokenRuleUnconditional(c, "R07l", "extensions/omniv21/fileformat/edi")
		}
	})
}

func init() {
	// the evaluator (C02) and the stream readers (C04) reach the document only through the query wrappers of package idr:
	// what an xpath selects is what the engine yields for the caller's expression (= C11 R11e/R11f). A private shortcut
	// that answers some expression forms itself (seeds C11-8, C02-10: bare `@name` matched by local name only) changes
	// the anchoring of every declaration that uses that form.
	wrapRun("C02", func(c *core.Ctx) {
		if c.CountRule("R02j") == 0 {
			importRules(c, "C11", map[string]string{"R11e": "R02j", "R11f": "R02j"})
			c.Floor("R02j", 4, "query wrappers: engine results passed on, caller's expression compiled")
		}
	})
	wrapRun("C04", func(c *core.Ctx) {
		if c.CountRule("R04l") == 0 {
			importRules(c, "C11", map[string]string{"R11e": "R04l", "R11f": "R04l"})
			c.Floor("R04l", 4, "query wrappers: engine results passed on, caller's expression compiled")
		}
	})
}

// addDoc appends the description of rules added by wrapRun to the rule set's explanation (evidence coverage.explanation).
func addDoc(prop, text string) {
	if rs := Registry[prop]; rs != nil {
		rs.Explanation += " " + text
	}
}

func init() {
	addDoc("C01", "R01e ext. nil record bytes are returned only together with a non-nil error. R01f (= C05 R05c) the hierarchical readers return only nil, io.EOF or their fatal type, so a structural failure is latched instead of recurring as a per-record failure. R01g (= C07 R07a) the tokenizer's subtractive slice bound is in range for the configured scanner flags (a panicking Read returns none of the three outcomes).")
	addDoc("C02", "R02b ext. the interning key of the declaration hash is injective in the JSON encoding (no hash/*, len, truncating slice) and the deep copy is not modified between copy and encoding. R02j (= C11 R11e/R11f) the query wrappers pass on exactly what the engine yields for the caller's expression.")
	addDoc("C03", "K15 no make() size derives from a decoded declaration field. K16 every len(x)-k / x.Len()-k bound (constant k > 0) of a slice or index expression is dominated by a length guard. K17 every element taken out of a decoded container of declaration pointers and dereferenced is nil-tested on the way, or typed as object by the JSON schema at every decode position of the container (Go type x JSON schema path product); after the F14 repair the transform-declaration sites rest on the load-time validator (argued).")
	addDoc("C04", "R04k every value use of io.EOF in the stream readers is dominated by evidence that the source is exhausted (err == io.EOF, failed more-input predicate, nil unit), lifted through unexported helpers to their call sites. R04l (= C11 R11e/R11f) query wrappers.")
	addDoc("C05", "R05i manufactured io.EOF only on exhaustion evidence (as R04k). R05j a slice of structs grown by reslicing has its exposed element fully initialised in the growing function. R05k a consult-and-fill map in reader state keyed by a property of an object (field / niladic method result) does not store a value computed from the object itself.")
	addDoc("C06", "R06j also covers R09i (borrowed slices parked in local aggregates across a refill). R06k the exported json-tagged fields of the csv/fixed-length declaration structs are never overwritten by library code, except the 4 enumerated defaulting sites. R06l an element moved field by field inside one slice carries every field. R06m a byte-rewriting reader wrapper on the input path is installed only under a condition reading a declared setting.")
	addDoc("C07", "R07h no branch controlling a strs.ByteSplit* call depends on the bytes of the token (piece counts excepted). R07i the EDI declaration fields are never overwritten by library code. R07j rewriting input wrappers only under a declared setting. R07k the trailing-CR test is control-dependent on `segment delimiter == \"\\n\"` (directly or through a bool field stored only from such a test). R07l the CR/LF-only classification of a scanned token does not depend on the reader's configuration.")
	addDoc("C08", "R08b ext. no delete/clear on the namespace table. R08i no unconditional byte-rewriting wrapper between the caller's reader and the XML/JSON decoder.")
	addDoc("C09", "R09g no bufio.Reader.Buffered / json.Decoder.Buffered (buffer fill depends on the delivery schedule). R09i no refill of the decoder between parking a borrowed slice in a local aggregate (append of a reference-typed element, element store, map update) and a later use of the aggregate.")
	addDoc("C10", "R10j also covers R09i. R10k (= C13 R13b) cache loaders read nothing but their key. R10l reslice growth initialises the exposed element. R10m element moves carry every field. R10n pooled maps/slices are empty on every path to Put. R10o memo tables keyed by a projection.")
	addDoc("C11", "R11g the methods of the xpath.NodeNavigator implementation and their repository callees store only into the navigator itself or fresh objects (navigation is read-only).")
	addDoc("C12", "R12i the stream readers' document-root field (by role: the *Node field no method assigns) is never passed to a release function; if no such field can be resolved the check fails.")
	addDoc("C13", "R13a ext. hash key injective, deep copy unmodified before encoding. R13g (= C11 R11f) the cached and the uncached path compile the same string. R13h pooled containers are empty at Put. R13i memo tables keyed by a projection.")
	addDoc("C14", "R14f outside initialisers the address of a package-level variable is only loaded, stored to, or passed to sync/sync.atomic (no pointer to a package-level variable is stored, returned, boxed or handed to other code). R14g no exported function writes into a map/slice argument. R14h the runtime a JavaScript program runs on is goja.New() or sync.Pool.Get on every path. Objects of types documented safe for concurrent use (regexp.Regexp, strings.Replacer, time.Location) held in package-level variables may be used through their methods.")
	addDoc("C15", "R15k (= R14g) public functions leave their aggregate arguments alone. R15l (= C09 R09a/R09i) borrowed-buffer discipline. R15m pooled containers empty at Put.")
	addDoc("C16", "R16g (= C09 R09c/R09d) no raw Read and no hand-written io.Reader in the input path. R16h (= C05 R05a.i/R05i, C04 R04k) io.EOF is reported or manufactured only on evidence that the source is exhausted: an input failure cannot end the stream cleanly.")
	addDoc("C17", "R17f (= C04 R04i) marking, delivery and rejection of a candidate depend on the selection state only.")
	addDoc("C18", "R18e (= R14f) no pointer to a package-level variable escapes (a shared default-encoding cell would be written through by encoding/json).")
	addDoc("C19", "R19h (= C13 R13b) cache loaders read nothing but their key.")
	addDoc("C20", "R20b ext. the _node text is the idr converter's result handed on unmodified. R20g the runtime a program runs on is goja.New() or sync.Pool.Get on every path. R20h pooled maps/slices are empty on every path to Put.")
}

// ---------------------------------------------------------------- records are dropped by the filter only (old csv)

// skipOnlyByFilter: in a Read method that fetches records from an encoding/csv based source and can fetch again before
// returning, a fetched record may be discarded — i.e. control may get back to the fetch without a return — only on the
// verdict of an xpath query (the FINAL_OUTPUT filter). Any other condition that depends on the fetched record and has an
// edge leading back to the fetch drops rows of the input by their content (seed C06-11: the one-field row `""` skipped
// as a "blank line").
func skipOnlyByFilter(c *core.Ctx, rule string, pkgs []string) {
	c.SSA()
	n := 0
	for _, f := range c.RepoFunctions() {
		if core.IsCLIOrSample(core.FuncPkg(f)) || !inPkgs(core.FuncPkg(f), pkgs) || f.Name() != "Read" || f.Signature.Recv() == nil {
			continue
		}
		var fetch []*ssa.Call
		for _, ci := range core.Calls(f) {
			call, ok := ci.(*ssa.Call)
			if !ok {
				continue
			}
			o := core.CalleeObj(call)
			if o == nil || o.Pkg() == nil || o.Name() != "Read" {
				continue
			}
			full := o.Pkg().Path() + "." + core.FuncName(o)
			if full == "encoding/csv.Reader.Read" || full == "github.com/jf-tech/go-corelib/ios.LineNumReportingCsvReader.Read" {
				fetch = append(fetch, call)
			}
		}
		for _, s := range fetch {
			isRecord := func(v ssa.Value) bool {
				ex, ok := v.(*ssa.Extract)
				return ok && ex.Tuple == ssa.Value(s) && ex.Index == 0
			}
			for _, b := range f.Blocks {
				if len(b.Instrs) == 0 {
					continue
				}
				ifi, ok := b.Instrs[len(b.Instrs)-1].(*ssa.If)
				if !ok || !c04DependsOn(ifi.Cond, isRecord) {
					continue
				}
				// does an edge of this test lead back to the fetch?
				back := false
				for _, succ := range b.Succs {
					if core.ReachableBlocks(succ, nil)[s.Block()] {
						back = true
					}
				}
				if !back {
					continue
				}
				n++
				key := core.FuncKey(f) + " discards a fetched record"
				isQuery := c04DependsOn(ifi.Cond, func(v ssa.Value) bool {
					call, ok := v.(*ssa.Call)
					if !ok {
						return false
					}
					o := core.CalleeObj(call)
					return o != nil && o.Pkg() != nil && core.Rel(o.Pkg().Path()) == "idr" && strings.HasPrefix(o.Name(), "Match")
				})
				c.Check(isQuery, rule, key, core.InstrPos(ifi), "the only record-dependent test with an edge back to the fetch is the xpath filter's verdict",
					"a condition over the fetched record, other than the verdict of the xpath filter, can send control back to the fetch without returning the record: rows are dropped by their content")
			}
		}
	}
	c.OK(rule, "record-dependent re-fetch tests", 0, fmt.Sprintf("%d record-dependent test(s) with an edge back to the fetch in %v", n, pkgs))
}

func init() {
	wrapRun("C06", func(c *core.Ctx) {
		if c.CountRule("R06n") == 0 {
			skipOnlyByFilter(c, "R06n", []string{"extensions/omniv21/fileformat/csv"})
			c.Floor("R06n", 2, "the filter test of the old csv reader")
		}
	})
	addDoc("C06", "R06n in the old csv reader's Read the only record-dependent test with an edge back to the record fetch is the xpath filter's verdict.")
}

func init() {
	wrapRun("C01", func(c *core.Ctx) {
		// R01h (= C12 R12e): a record node that stays referenced after its release is released again on the next Read: the
		// pool then hands one node to two owners and a later Read returns a corrupted record or never returns (seed C01-11).
		// R01i (= C14 R14b): unsynchronised package-level state on the Read path aborts the process when two transforms run
		// side by side (seed C01-12) — a Read that does not return at all.
		if c.CountRule("R01h") == 0 {
			importRules(c, "C12", map[string]string{"R12e": "R01h"})
			c.Floor("R01h", 3, "reader references cleared on every release path")
		}
		if c.CountRule("R01i") == 0 {
			importRules(c, "C14", map[string]string{"R14b": "R01i"})
			c.Floor("R01i", 10, "package-level state on the run path")
		}
	})
	wrapRun("C05", func(c *core.Ctx) {
		if c.CountRule("R05l") == 0 {
			partialStructCopy(c, "R05l", []string{"extensions/omniv21/fileformat/flatfile", "extensions/omniv21/fileformat/edi"})
		}
	})
	wrapRun("C04", func(c *core.Ctx) {
		// R04m (= C08 R08b): a name whose namespace binding was dropped makes the reader fail ("unknown namespace"), and the
		// error is sticky: every later matching node is lost (seed C04-14)
		if c.CountRule("R04m") == 0 {
			importRules(c, "C08", map[string]string{"R08b": "R04m"})
			c.Floor("R04m", 16, "names, text and namespace table of the XML/JSON readers")
		}
	})
	wrapRun("C03", func(c *core.Ctx) {
		// K18 (= C06 R06b): the csv decoder's configuration: Comma is the schema's delimiter, and Comment / LazyQuotes /
		// TrimLeadingSpace are never set — encoding/csv rejects Comma == Comment on every Read without consuming input, which
		// the old csv reader turns into an endless sequence of continuable errors or a hang in jumpTo (seed C03-15)
		if c.CountRule("K18") == 0 {
			importRules(c, "C06", map[string]string{"R06b": "K18"})
			c.Floor("K18", 4, "csv decoder configuration of the two csv readers")
		}
	})
	addDoc("C01", "R01h (= C12 R12e) reader/ingester references to a released node are cleared on every release path. R01i (= C14 R14b) no unsynchronised package-level state on the run path.")
	addDoc("C05", "R05l in-buffer element moves carry every field (as R06l).")
	addDoc("C04", "R04m (= C08 R08b) namespace table discipline.")
	addDoc("C03", "K18 (= C06 R06b) csv decoder configuration.")
}

func init() {
	wrapRun("C10", func(c *core.Ctx) {
		// R10p (= C04 R04i): whether a node becomes a record depends on the selection state only; a reader field learnt
		// from earlier records (seed C10-12: the nesting depth of the first candidate) makes the records of a stream depend
		// on what preceded them
		if c.CountRule("R10p") == 0 {
			importRules(c, "C04", map[string]string{"R04i": "R10p", "R04n": "R10p"})
			c.Floor("R10p", 6, "marking / delivering / rejecting decisions of the two stream readers")
		}
	})
	addDoc("C10", "R10p (= C04 R04i) candidate marking, delivery and rejection depend on the selection state only.")
}

func init() {
	wrapRun("C14", func(c *core.Ctx) {
		// R14i (= C13 R13b): a process-wide cache whose loader reads more than its key hands one schema's object to another
		// (seed C14-11: the compiled-script cache keyed by the whitespace-normalised script)
		if c.CountRule("R14i") == 0 {
			importRules(c, "C13", map[string]string{"R13b": "R14i"})
			c.Floor("R14i", 3, "process-wide caches")
		}
	})
	wrapRun("C15", func(c *core.Ctx) {
		// R15n (= C14 R14b): package-level state written after initialisation makes results depend on what ran before in
		// the process (seed C15-12: custom functions cached by name across schemas)
		if c.CountRule("R15n") == 0 {
			importRules(c, "C14", map[string]string{"R14b": "R15n"})
			c.Floor("R15n", 10, "package-level state on the run path")
		}
	})
	wrapRun("C17", func(c *core.Ctx) {
		// R17g (= C11 R11a): every node created for a token is attached below the element of that token — a node attached
		// elsewhere (seed C17-10: namespace declarations hung under the document element) is not removed with the record.
		// R17h (= C05 R05b): the matcher's wrap-up is only invoked where its error is handled (seed C17-11 re-created an
		// ancestor group per record)
		if c.CountRule("R17g") == 0 {
			importRules(c, "C11", map[string]string{"R11a": "R17g"})
			c.Floor("R17g", 2, "attribute creation of the XML reader")
		}
		if c.CountRule("R17h") == 0 {
			importRules(c, "C05", map[string]string{"R05b": "R17h"})
			c.Floor("R17h", 4, "matcher wrap-up calls of the two hierarchical readers")
		}
	})
	wrapRun("C18", func(c *core.Ctx) {
		// R18f (= C14 R14a): the declared encoding lives in the schema, which is shared by every transform created from it:
		// no function reachable from NewTransform/Read stores into schema-owned objects (seed C18-11: a per-input override
		// written into the shared header)
		if c.CountRule("R18f") == 0 {
			importRules(c, "C14", map[string]string{"R14a": "R18f"})
			c.Floor("R18f", 1, "schema-owned types: no run-set store")
		}
	})
	wrapRun("C20", func(c *core.Ctx) {
		// R20i (= C13 R13a): the per-record result cache that memoises javascript results: key completeness, failed
		// evaluations not stored (seeds C20-10, C20-11). R20j (= C12 R12b): pooled nodes are blank, so `_node` of a flat-file
		// record carries nothing from an earlier JSON/XML transform (seed C20-12).
		if c.CountRule("R20i") == 0 {
			importRules(c, "C13", map[string]string{"R13a": "R20i"})
			c.Floor("R20i", 20, "result-cache key completeness")
		}
		if c.CountRule("R20j") == 0 {
			importRules(c, "C12", map[string]string{"R12b": "R20j"})
			c.Floor("R20j", 5, "reset clears every field")
		}
	})
	addDoc("C14", "R14i (= C13 R13b) cache loaders read nothing but their key.")
	addDoc("C15", "R15n (= C14 R14b) no package-level state written after initialisation on the run path.")
	addDoc("C17", "R17g (= C11 R11a) attribute nodes are attached to the element of their own token. R17h (= C05 R05b) the matcher's wrap-up error is handled wherever it is invoked.")
	addDoc("C18", "R18f (= C14 R14a) no run-set store into schema-owned objects (the header with the declared encoding is one).")
	addDoc("C20", "R20i (= C13 R13a) result-cache key completeness and error handling. R20j (= C12 R12b) pooled nodes are blank.")
	addDoc("C13", "R13a ext.: the id interned for a new encoding is injective in it or a fresh UUID.")
}

// ---------------------------------------------------------------- only held nodes are released (C12)

// releaseArgNotLinked: every node a reader releases is one it holds by name — a holder field (target, candidate, a stack
// entry's node), the parameter of its Release method, or a node it has just received — and the holder is cleared. A node
// reached by navigating the tree from another node (n.Parent, n.FirstChild, ...) may at the same time be referenced by
// another holder (the stack entry of the group that is still being read, the cursor): releasing it leaves that holder
// pointing at a pooled node (seed C12-11 released the emptied parent group of a rejected record).
func releaseArgNotLinked(c *core.Ctx, rule string) {
	c.SSA()
	idr := c.Pkg("idr")
	if idr == nil {
		c.Unresolved(rule, "package idr", "not loaded")
		return
	}
	nodeObj, _ := idr.Types.Scope().Lookup("Node").(*types.TypeName)
	removeFn := c.Func("idr", "RemoveAndReleaseTree")
	if nodeObj == nil || removeFn == nil {
		c.Unresolved(rule, "idr.Node / RemoveAndReleaseTree", "not found")
		return
	}
	nodeStruct, _ := nodeObj.Type().Underlying().(*types.Struct)
	isLinkLoad := func(v ssa.Value) (string, bool) {
		u, ok := v.(*ssa.UnOp)
		if !ok || u.Op != token.MUL {
			return "", false
		}
		fa, ok := u.X.(*ssa.FieldAddr)
		if !ok {
			return "", false
		}
		fv := core.FieldOfAddr(fa)
		for i := 0; i < nodeStruct.NumFields(); i++ {
			if nodeStruct.Field(i) == fv {
				if p, ok := fv.Type().(*types.Pointer); ok && types.Identical(p.Elem(), nodeObj.Type()) {
					return fv.Name(), true
				}
			}
		}
		return "", false
	}
	n := 0
	for _, f := range c.RepoFunctions() {
		if core.IsCLIOrSample(core.FuncPkg(f)) {
			continue
		}
		if core.FuncPkg(f) == idr.Types && f.Signature.Recv() == nil {
			continue // the tree primitives themselves (RemoveAndReleaseTree / recycle walk the links by design)
		}
		for _, ci := range core.Calls(f) {
			if ci.Common().StaticCallee() != removeFn || len(ci.Common().Args) != 1 {
				continue
			}
			n++
			key := core.FuncKey(f) + " releases a node it holds by name"
			via := ""
			seen := map[ssa.Value]bool{}
			var walk func(v ssa.Value, d int)
			walk = func(v ssa.Value, d int) {
				if v == nil || seen[v] || via != "" || d > 10 {
					return
				}
				seen[v] = true
				if name, ok := isLinkLoad(v); ok {
					via = name
					return
				}
				switch x := v.(type) {
				case *ssa.Phi:
					for _, e := range x.Edges {
						walk(e, d+1)
					}
				case *ssa.UnOp:
					if x.Op == token.MUL {
						if a, ok := x.X.(*ssa.Alloc); ok {
							for _, r := range core.Referrers(a) {
								if st, ok := r.(*ssa.Store); ok && st.Addr == a {
									walk(st.Val, d+1)
								}
							}
						}
					}
				case *ssa.ChangeType:
					walk(x.X, d+1)
				}
			}
			walk(ci.Common().Args[0], 0)
			c.Check(via == "", rule, key, core.InstrPos(ci), "the released node is a holder's node, a parameter or a freshly received node",
				"the released node was reached through the "+via+" link of another node: a holder elsewhere (the stack entry of the enclosing group, the cursor) may still reference it and would then point at a pooled node")
		}
	}
	c.Floor(rule, 10, "release calls of the readers")
	_ = n
}

func init() {
	wrapRun("C12", func(c *core.Ctx) {
		if c.CountRule("R12j") == 0 {
			releaseArgNotLinked(c, "R12j")
		}
	})
	addDoc("C12", "R12j no RemoveAndReleaseTree argument derives from a load of a Node link field (only nodes held by name are released).")
	wrapRun("C03", func(c *core.Ctx) {
		// K20 (= C11 R11d): the finite model check of the navigator's movement methods also establishes that no movement
		// dereferences a nil link (seed C03-13: MoveToFirst through Parent.FirstChild on a parentless record node)
		if c.CountRule("K20") == 0 {
			importRules(c, "C11", map[string]string{"R11d": "K20"})
			c.Floor("K20", 6, "navigator movement methods")
		}
	})
	addDoc("C03", "K20 (= C11 R11d) navigator movement methods: finite model check incl. nil links.")
}

func init() {
	addDoc("C09", "R09j borrowed locals do not survive a refill: forward may-dataflow over every library function (bits holds/stale per value, borrow definitions = source calls, repository functions returning borrowed slices, borrowed parameters); a refill (source call or any repository function reaching one) makes every held value stale; any read of a stale value (call argument, element load, string conversion, copy/append of elements, store outside locals, return, capture) is a violation.")
}

// ---------------------------------------------------------------- bit sets indexed by unbounded positions

// shiftsBounded: `1 << i` is 0 for i >= the width of the type, silently: a bit set kept in a machine word and indexed by
// a position the schema or the input controls (column index, child index, depth) forgets every position from 64 on.
// Every shift whose amount is not a constant must be dominated by a comparison that bounds the amount below the width
// (seed C06-10: per-envelope "column done" flags moved from []bool to a uint64).
func shiftsBounded(c *core.Ctx, rule string, pkgs []string) {
	c.SSA()
	n := 0
	for _, f := range c.RepoFunctions() {
		if core.IsCLIOrSample(core.FuncPkg(f)) || !inPkgs(core.FuncPkg(f), pkgs) {
			continue
		}
		for _, b := range f.Blocks {
			for _, in := range b.Instrs {
				bo, ok := in.(*ssa.BinOp)
				if !ok || (bo.Op != token.SHL && bo.Op != token.SHR) {
					continue
				}
				if _, isConst := bo.Y.(*ssa.Const); isConst {
					continue
				}
				n++
				key := core.FuncKey(f) + " shifts by a variable amount"
				// the amount (through conversions) compared with a constant <= 64 on a dominating edge
				amt := bo.Y
				for {
					if cv, ok := amt.(*ssa.Convert); ok {
						amt = cv.X
						continue
					}
					break
				}
				bounded := false
				for _, blk := range f.Blocks {
					if len(blk.Instrs) == 0 {
						continue
					}
					ifi, ok := blk.Instrs[len(blk.Instrs)-1].(*ssa.If)
					if !ok {
						continue
					}
					cmp, ok := ifi.Cond.(*ssa.BinOp)
					if !ok {
						continue
					}
					var k int64
					var op token.Token
					if cmp.X == amt || cmp.X == bo.Y {
						v, isK := c03intConst(cmp.Y)
						if !isK {
							continue
						}
						k, op = v, cmp.Op
					} else {
						continue
					}
					var edge *ssa.BasicBlock
					switch op {
					case token.LSS:
						if k <= 64 {
							edge = blk.Succs[0]
						}
					case token.LEQ:
						if k < 64 {
							edge = blk.Succs[0]
						}
					case token.GEQ:
						if k <= 64 {
							edge = blk.Succs[1]
						}
					case token.GTR:
						if k < 64 {
							edge = blk.Succs[1]
						}
					}
					if edge != nil && len(edge.Preds) == 1 && (edge == b || edge.Dominates(b)) {
						bounded = true
					}
				}
				c.Check(bounded, rule, key, core.InstrPos(in), "the shift amount is bounded below the word width on a dominating edge",
					"the shift amount is not a constant and no dominating comparison bounds it below the word width: for amounts >= 64 the result is silently 0, so a bit set indexed this way loses every position from 64 on")
			}
		}
	}
	c.OK(rule, "variable shifts", 0, fmt.Sprintf("%d shift(s) by a non-constant amount in %v", n, pkgs))
}

func init() {
	wrapRun("C06", func(c *core.Ctx) {
		if c.CountRule("R06o") == 0 {
			shiftsBounded(c, "R06o", []string{"extensions/omniv21/fileformat"})
		}
	})
	wrapRun("C05", func(c *core.Ctx) {
		if c.CountRule("R05m") == 0 {
			shiftsBounded(c, "R05m", []string{"extensions/omniv21/fileformat/flatfile", "extensions/omniv21/fileformat/edi"})
		}
	})
	addDoc("C06", "R06o every shift by a non-constant amount is bounded below the word width (no machine-word bit set indexed by column positions).")
	addDoc("C05", "R05m as R06o for the hierarchical readers.")
}

// ---------------------------------------------------------------- round 6

// handWrittenTransformers: a type of the library that implements golang.org/x/text/transform.Transformer is a byte
// filter with its own handling of short destination/source buffers, exactly like a hand-written io.Reader (R09d): how it
// behaves when a multi-byte sequence straddles the end of dst/src depends on how much each Read delivered (seed C09-15: a
// windows-1252 "ASCII fast path" decoder truncated a sequence that did not fit into dst).
func handWrittenTransformers(c *core.Ctx, rule string) {
	tp := c.AnyPkg("golang.org/x/text/transform")
	if tp == nil {
		c.OK(rule, "no hand-written transform.Transformer in library code", 0, "golang.org/x/text/transform is not part of the program")
		return
	}
	ti, _ := tp.Types.Scope().Lookup("Transformer").Type().Underlying().(*types.Interface)
	if ti == nil {
		c.Unresolved(rule, "transform.Transformer", "interface not found")
		return
	}
	n := 0
	for _, p := range c.Pkgs {
		if core.IsCLIOrSample(p.Types) {
			continue
		}
		for _, t := range implementersIn(p.Types, ti) {
			n++
			nt := core.NamedOf(t)
			c.Unknown(rule, "type "+core.Rel(nt.Obj().Pkg().Path())+"."+nt.Obj().Name()+" implements transform.Transformer", nt.Obj().Pos(), "a hand-written byte transformer sits in the input path: its behaviour when a sequence straddles the end of the destination or source buffer (ErrShortDst/ErrShortSrc, atEOF) cannot be shown by this analysis, and those boundaries depend on how the input is delivered")
		}
	}
	c.OK(rule, "no hand-written transform.Transformer in library code", 0, fmt.Sprintf("%d implementation(s)", n))
}

// tokenBytesUntouched: between the scanner and the values handed on (RawSeg.Raw, RawSegElem.Data) the bytes of a token
// are only sliced at delimiter positions by the escape-aware splitter (strs.ByteSplitWithEsc) and stripped of the
// segment delimiter / the CR of the "\n" rule. Any other byte primitive applied to token content in the EDI package —
// trimming (bytes.Trim*, TrimSpace), replacing, case mapping, or a split that knows nothing about the release character
// or takes a piece limit (bytes.Split*, SplitN, Fields, Cut) — changes what reaches the transform (seeds C07-17: leading
// CR/LF trimmed off the token; C07-18: bytes.SplitN with the capacity hint as piece limit).
func tokenBytesUntouched(c *core.Ctx, rule, pkg string) {
	c.SSA()
	p := c.Pkg(pkg)
	if p == nil {
		c.Unresolved(rule, "package "+pkg, "not loaded")
		return
	}
	isBytes := func(t types.Type) bool {
		sl, ok := t.Underlying().(*types.Slice)
		if !ok {
			return false
		}
		if b, ok := sl.Elem().Underlying().(*types.Basic); ok && b.Kind() == types.Byte {
			return true
		}
		if in, ok := sl.Elem().Underlying().(*types.Slice); ok {
			b, ok := in.Elem().Underlying().(*types.Basic)
			return ok && b.Kind() == types.Byte
		}
		return false
	}
	n := 0
	for _, f := range c.RepoFunctions() {
		if core.FuncPkg(f) != p.Types {
			continue
		}
		var content func(v ssa.Value, seen map[ssa.Value]bool, d int) bool
		content = func(v ssa.Value, seen map[ssa.Value]bool, d int) bool {
			if v == nil || seen[v] || d > 16 {
				return false
			}
			seen[v] = true
			switch x := v.(type) {
			case *ssa.Parameter:
				return isBytes(x.Type()) && !(f.Signature.Recv() != nil && len(f.Params) > 0 && x == f.Params[0])
			case *ssa.Call:
				if o := core.CalleeObj(x); o != nil && o.Pkg() != nil && o.Pkg().Path() == "bufio" && core.FuncName(o) == "Scanner.Bytes" {
					return true
				}
				if !isBytes(x.Type()) {
					return false
				}
				for _, a := range x.Call.Args {
					if content(a, seen, d+1) {
						return true
					}
				}
				return false
			case *ssa.Slice:
				return content(x.X, seen, d+1)
			case *ssa.Phi:
				for _, e := range x.Edges {
					if content(e, seen, d+1) {
						return true
					}
				}
			case *ssa.UnOp:
				if x.Op == token.MUL {
					if a, ok := x.X.(*ssa.Alloc); ok {
						for _, r := range core.Referrers(a) {
							if st, ok := r.(*ssa.Store); ok && st.Addr == a && content(st.Val, seen, d+1) {
								return true
							}
						}
					}
					if ia, ok := x.X.(*ssa.IndexAddr); ok {
						return content(ia.X, seen, d+1)
					}
				}
			case *ssa.Extract:
				return content(x.Tuple, seen, d+1)
			}
			return false
		}
		for _, ci := range core.Calls(f) {
			o := core.CalleeObj(ci)
			if o == nil || o.Pkg() == nil || (o.Pkg().Path() != "bytes" && o.Pkg().Path() != "strings") {
				continue
			}
			name := o.Name()
			altering := strings.HasPrefix(name, "Trim") || strings.HasPrefix(name, "Replace") || strings.HasPrefix(name, "To") || strings.HasPrefix(name, "Split") ||
				strings.HasPrefix(name, "Fields") || name == "Cut" || name == "Map" || name == "Title" || name == "Repeat"
			if !altering || len(ci.Common().Args) == 0 || !content(ci.Common().Args[0], map[ssa.Value]bool{}, 0) {
				continue
			}
			n++
			c.Bad(rule, core.FuncKey(f)+" applies "+o.Pkg().Path()+"."+name+" to token bytes", core.InstrPos(ci), o.Pkg().Path()+"."+name+" is applied to the bytes of a scanned token: outside the escape-aware splitter and the documented delimiter/CR strip nothing may remove, rewrite or re-split token content (a plain split ignores the release character; a piece limit glues the remaining elements together)")
		}
	}
	c.OK(rule, "token bytes are only sliced by the escape-aware splitter", 0, fmt.Sprintf("%d content-altering bytes/strings primitive(s) applied to token content in package %s", n, pkg))
}

// selectorIsPatternMatch: the verdict of a column's line selector (line_pattern) is the compiled pattern's own Match on
// the line; every other boolean the selector function returns is a constant or an index comparison (line_index). A
// hand-made equivalent of the pattern (seed C06-15: bytes.HasPrefix with the pattern's literal prefix) answers
// differently for un-anchored patterns.
func selectorIsPatternMatch(c *core.Ctx, rule string, pkgs []string) {
	c.SSA()
	n := 0
	for _, f := range c.RepoFunctions() {
		if core.IsCLIOrSample(core.FuncPkg(f)) || !inPkgs(core.FuncPkg(f), pkgs) || f.Signature.Recv() == nil {
			continue
		}
		res := f.Signature.Results()
		if res.Len() != 1 {
			continue
		}
		if b, ok := res.At(0).Type().Underlying().(*types.Basic); !ok || b.Kind() != types.Bool {
			continue
		}
		// a selector: takes a []byte line and consults a regexp
		var lineP *ssa.Parameter
		for _, prm := range f.Params {
			if sl, ok := prm.Type().Underlying().(*types.Slice); ok {
				if b, ok := sl.Elem().Underlying().(*types.Basic); ok && b.Kind() == types.Byte {
					lineP = prm
				}
			}
		}
		usesRegexp := false
		for _, ci := range core.Calls(f) {
			if o := core.CalleeObj(ci); o != nil && o.Pkg() != nil && (o.Pkg().Path() == "regexp" || (o.Pkg().Path() == "github.com/jf-tech/go-corelib/caches" && o.Name() == "GetRegex")) {
				usesRegexp = true
			}
		}
		if lineP == nil || !usesRegexp {
			continue
		}
		n++
		key := core.FuncKey(f) + " line selector verdict"
		bad := ""
		var leaf func(v ssa.Value, seen map[ssa.Value]bool)
		leaf = func(v ssa.Value, seen map[ssa.Value]bool) {
			if v == nil || seen[v] || bad != "" {
				return
			}
			seen[v] = true
			switch x := v.(type) {
			case *ssa.Const:
			case *ssa.Phi:
				for _, e := range x.Edges {
					leaf(e, seen)
				}
			case *ssa.BinOp:
				// index comparison (line_index) or boolean combination: operands must not read the line
				for _, op := range []ssa.Value{x.X, x.Y} {
					if c04DependsOn(op, func(y ssa.Value) bool { return y == ssa.Value(lineP) }) {
						bad = "a comparison over the line's bytes (" + x.String() + ")"
					}
				}
			case *ssa.UnOp:
				leaf(x.X, seen)
			case *ssa.Call:
				o := core.CalleeObj(x)
				if o != nil && o.Pkg() != nil && o.Pkg().Path() == "regexp" && strings.HasPrefix(o.Name(), "Match") {
					return
				}
				bad = "the result of " + x.Call.String()
			default:
				bad = v.String()
			}
		}
		for _, rt := range c19Returns(f) {
			leaf(rt.Results[0], map[ssa.Value]bool{})
		}
		c.Check(bad == "", rule, key, f.Pos(), "every verdict is a constant, an index comparison or the compiled pattern's Match on the line",
			"the selector's verdict can be "+bad+" instead of the compiled line_pattern's own Match: a hand-made approximation of the pattern selects different lines for patterns it does not model (un-anchored literals, alternations, classes)")
	}
	if n == 0 {
		c.Unresolved(rule, "line selectors", "no bool method taking a []byte line and consulting a regexp found in "+strings.Join(pkgs, ", "))
	}
}

// trimControlledByDeclaration: whether a value is trimmed is decided by the declaration (no_trim) and by the value's
// kind, never by the characters of the value. A "nothing to trim" shortcut that looks at the first/last byte (seed
// C02-14) skips values padded with non-ASCII white space.
func trimControlledByDeclaration(c *core.Ctx, rule, pkg string) {
	c.SSA()
	p := c.Pkg(pkg)
	if p == nil {
		c.Unresolved(rule, "package "+pkg, "not loaded")
		return
	}
	n := 0
	for _, f := range c.RepoFunctions() {
		if core.FuncPkg(f) != p.Types {
			continue
		}
		for _, ci := range core.Calls(f) {
			if !core.IsCallTo(ci, "strings", "TrimSpace") {
				continue
			}
			n++
			key := core.FuncKey(f) + " trims under the declaration's control only"
			bad := token.NoPos
			for _, ed := range controlDeps(f).controlling(ci.Block()) {
				ifi := ed.ifInstr()
				if ifi == nil {
					continue
				}
				if c04DependsOn(ifi.Cond, func(v ssa.Value) bool {
					// an inspection of string content: element load, length, comparison of a non-constant string
					switch y := v.(type) {
					case *ssa.Lookup:
						b, ok := y.X.Type().Underlying().(*types.Basic)
						return ok && b.Info()&types.IsString != 0
					case *ssa.Call:
						if bi, ok := y.Call.Value.(*ssa.Builtin); ok && bi.Name() == "len" && len(y.Call.Args) == 1 {
							b, ok := y.Call.Args[0].Type().Underlying().(*types.Basic)
							return ok && b.Info()&types.IsString != 0
						}
						if o := core.CalleeObj(y); o != nil && o.Pkg() != nil && (o.Pkg().Path() == "strings" || o.Pkg().Path() == "unicode" || o.Pkg().Path() == "unicode/utf8") {
							return true
						}
					case *ssa.BinOp:
						for _, op := range []ssa.Value{y.X, y.Y} {
							if b, ok := op.Type().Underlying().(*types.Basic); ok && b.Info()&types.IsString != 0 {
								if _, isK := op.(*ssa.Const); !isK {
									return true
								}
							}
						}
					}
					return false
				}) {
					bad = core.InstrPos(ifi)
				}
			}
			c.Check(!bad.IsValid(), rule, key, core.InstrPos(ci), "controlled by the declaration (no_trim) and the value's kind",
				"whether the value is trimmed depends on a test of its characters: values whose padding the test does not recognise (non-ASCII white space) are emitted untrimmed, stay non-empty, and fail numeric casts")
		}
	}
	if n == 0 {
		c.Unresolved(rule, "trim site", "no strings.TrimSpace call in package "+pkg)
	}
}

func init() {
	wrapRun("C09", func(c *core.Ctx) {
		if c.CountRule("R09k") == 0 {
			handWrittenTransformers(c, "R09k")
		}
	})
	wrapRun("C18", func(c *core.Ctx) {
		if c.CountRule("R18g") == 0 {
			handWrittenTransformers(c, "R18g")
		}
	})
	wrapRun("C07", func(c *core.Ctx) {
		if c.CountRule("R07m") == 0 {
			tokenBytesUntouched(c, "R07m", "extensions/omniv21/fileformat/edi")
		}
	})
	wrapRun("C06", func(c *core.Ctx) {
		if c.CountRule("R06p") == 0 {
			selectorIsPatternMatch(c, "R06p", []string{"extensions/omniv21/fileformat/fixedlength", "extensions/omniv21/fileformat/flatfile/fixedlength", "extensions/omniv21/fileformat/flatfile/csv"})
		}
	})
	wrapRun("C02", func(c *core.Ctx) {
		if c.CountRule("R02l") == 0 {
			trimControlledByDeclaration(c, "R02l", "extensions/omniv21/transform")
		}
		// R02k (= C01 R01e / C10 R10g): the bytes handed out for a record are a fresh json.Marshal result: a reused output
		// buffer makes an emitted record change after the fact (seed C02-15)
		if c.CountRule("R02k") == 0 {
			importRules(c, "C01", map[string]string{"R01e": "R02k"})
			c.Floor("R02k", 3, "returns of the built-in Ingester.Read")
		}
	})
	wrapRun("C05", func(c *core.Ctx) {
		// R05n (= C09 R09a/R09i/R09j): a buffered line that still aliases the decoder's buffer when it is refilled is
		// overwritten by later input: the record is matched/built from the wrong unit (seed C05-16)
		if c.CountRule("R05n") == 0 {
			importRules(c, "C09", map[string]string{"R09a": "R05n", "R09i": "R05n", "R09j": "R05n"})
			c.Floor("R05n", 15, "borrowed-buffer discipline")
		}
	})
	addDoc("C09", "R09k no hand-written golang.org/x/text/transform.Transformer in library code.")
	addDoc("C18", "R18g (= R09k) no hand-written transform.Transformer: the charmap decoders are the library's.")
	addDoc("C07", "R07m no trimming/replacing/case-mapping/plain-splitting bytes or strings primitive is applied to token content in the EDI package.")
	addDoc("C06", "R06p the verdict of a line selector is a constant, an index comparison or the compiled pattern's Match.")
	addDoc("C02", "R02k (= C01 R01e) record bytes are a fresh json.Marshal result. R02l the strings.TrimSpace of the normaliser is controlled by the declaration and the value's kind only, never by a test of its characters.")
	addDoc("C05", "R05n (= C09 R09a/R09i/R09j) borrowed-buffer discipline.")
}

// ---------------------------------------------------------------- process-wide mutable cells read on the run path

// mutableGlobalReads generalises R19g to the whole run set: a package-level variable that is written after package
// initialisation — by a plain store or by sync/atomic Store/Swap/CompareAndSwap (atomic.Value included) — and READ on
// the NewTransform/Read path is a channel from earlier records, earlier transforms and other goroutines into this
// record, however race-free the individual accesses are (seed C10-14: "last compiled dynamic xpath" kept in two
// atomic.Values; a reader can pair one transform's string with another's expression). Not reads in this sense: the
// result of an atomic Add (a fresh identity), sync.Pool and keyed-cache objects (their own rules: R12/R13), and
// variables whose writers are reachable from package initialisers only.
func mutableGlobalReads(c *core.Ctx, rule string) {
	e := entries(c, rule)
	if e == nil {
		return
	}
	cg := c.CallGraph()
	var initOnly func(f *ssa.Function, depth int, seen map[*ssa.Function]bool) bool
	initOnly = func(f *ssa.Function, depth int, seen map[*ssa.Function]bool) bool {
		for g := f; g != nil; g = g.Parent() {
			if (g.Synthetic != "" && g.Name() == "init") || (strings.HasPrefix(g.Name(), "init#") && g.Signature.Recv() == nil) {
				return true
			}
		}
		if depth > 5 || seen[f] {
			return false
		}
		seen[f] = true
		if o := f.Object(); o == nil || o.Exported() {
			return false
		}
		n := cg.Nodes[f]
		if n == nil || len(n.In) == 0 {
			return false
		}
		for _, in := range n.In {
			if !initOnly(in.Caller.Func, depth+1, seen) {
				return false
			}
		}
		return true
	}
	mut := map[*ssa.Global]string{}
	for _, f := range c.RepoFunctions() {
		if core.IsCLIOrSample(core.FuncPkg(f)) || initOnly(f, 0, map[*ssa.Function]bool{}) {
			continue
		}
		for _, w := range core.Writes(f) {
			if w.Global != nil && core.InRepo(w.Global.Pkg.Pkg) && w.Kind == "global" {
				if _, ok := mut[w.Global]; !ok {
					mut[w.Global] = core.FuncKey(f)
				}
			}
		}
		for _, ci := range core.Calls(f) {
			o := core.CalleeObj(ci)
			if o == nil || o.Pkg() == nil || o.Pkg().Path() != "sync/atomic" {
				continue
			}
			name := o.Name()
			if !(strings.HasPrefix(name, "Store") || strings.HasPrefix(name, "Swap") || strings.HasPrefix(name, "CompareAndSwap")) {
				continue
			}
			if len(ci.Common().Args) == 0 {
				continue
			}
			_, root := core.TraceAddr(ci.Common().Args[0])
			if g, ok := root.(*ssa.Global); ok && core.InRepo(g.Pkg.Pkg) {
				if _, ok := mut[g]; !ok {
					mut[g] = core.FuncKey(f) + " (sync/atomic " + core.FuncName(o) + ")"
				}
			}
		}
	}
	n := 0
	for _, f := range repoFuncsIn(e.run) {
		done := map[*ssa.Global]bool{}
		for _, b := range f.Blocks {
			for _, in := range b.Instrs {
				for _, op := range in.Operands(nil) {
					g, ok := (*op).(*ssa.Global)
					if !ok || !core.InRepo(g.Pkg.Pkg) || strings.HasSuffix(g.Name(), "$guard") || done[g] {
						continue
					}
					el := g.Type().(*types.Pointer).Elem()
					if externRefOK(el) || externRefOK(types.NewPointer(el)) {
						continue
					}
					read := false
					switch x := in.(type) {
					case *ssa.UnOp:
						read = x.Op == token.MUL
					case ssa.CallInstruction:
						if o := core.CalleeObj(x); o != nil && o.Pkg() != nil && o.Pkg().Path() == "sync/atomic" {
							read = strings.HasPrefix(o.Name(), "Load")
						}
					}
					if !read {
						continue
					}
					w, isMut := mut[g]
					if !isMut {
						continue
					}
					done[g] = true
					n++
					c.Bad(rule, core.FuncKey(f)+" reads process-wide cell "+g.Name(), core.InstrPos(in), "package-level variable "+g.Name()+" is read on the NewTransform/Read path and written after package initialisation by "+w+": what this record sees depends on earlier records, earlier transforms and concurrent goroutines, not on the record alone")
				}
			}
		}
	}
	c.OK(rule, "no run-path read of a process-wide mutable cell", 0, fmt.Sprintf("%d package-level variable(s) with a non-initialiser writer, %d run-path read(s) of them", len(mut), n))
}

func init() {
	for _, pr := range [][2]string{{"C10", "R10q"}, {"C13", "R13j"}, {"C15", "R15o"}, {"C14", "R14k"}, {"C20", "R20l"}} {
		pr := pr
		wrapRun(pr[0], func(c *core.Ctx) {
			if c.CountRule(pr[1]) == 0 {
				mutableGlobalReads(c, pr[1])
			}
		})
		addDoc(pr[0], pr[1]+" no package-level variable with a non-initialiser writer (plain store or sync/atomic Store/Swap/CompareAndSwap) is read on the run path (keyed caches, pools and the result of an atomic Add excepted).")
	}
}

func init() {
	wrapRun("C10", func(c *core.Ctx) {
		// R10r (= C06 R06a): the text of every column node comes from the current row (a record tree refilled in place keeps
		// columns of the row before it: seed C10-15)
		if c.CountRule("R10r") == 0 {
			importRules(c, "C06", map[string]string{"R06a": "R10r"})
			c.Floor("R10r", 4, "conveyance of column text in the csv / fixed-length readers")
		}
	})
	addDoc("C10", "R10r (= C06 R06a) column text is conveyed from the current row/line only.")
}

func init() {
	wrapRun("C11", func(c *core.Ctx) {
		// the tree the navigator walks must be the document's: pooled nodes blank (= C12 R12b: a recycled root with stale
		// sibling links, seed C11-13), reader state per instance (= instance isolation R04j: a namespace table shared by all
		// readers, seed C11-14), every character-data token attached (= C08 R08e: empty CDATA dropped, seed C11-15)
		if c.CountRule("R11h") == 0 {
			importRules(c, "C12", map[string]string{"R12b": "R11h"})
			c.Floor("R11h", 5, "reset clears every field")
		}
		if c.CountRule("R11i") == 0 {
			importRules(c, "C04", map[string]string{"R04j": "R11i"})
			c.Floor("R11i", 3, "instance isolation of the stream readers")
		}
		if c.CountRule("R11j") == 0 {
			// R11k (= R08i): input bytes / charset decoding are not rewritten (seed C11-16); R11l (= R08b): names and text are
			// stored as the decoder delivers them (seed C11-17: attribute values normalised by a Replacer)
			importRules(c, "C08", map[string]string{"R08e": "R11j", "R08i": "R11k", "R08b": "R11l"})
			c.Floor("R11j", 1, "character data reaches text-node creation unconditionally")
		}
	})
	wrapRun("C15", func(c *core.Ctx) {
		// R15p (= C14 R14c): compiled expressions shared through the process-wide cache are only used through entry points
		// that clone the query; evaluating the shared object itself leaves position state behind (seed C15-15)
		if c.CountRule("R15p") == 0 {
			importRules(c, "C14", map[string]string{"R14c": "R15p"})
			c.Floor("R15p", 1, "uses of cached *xpath.Expr")
		}
	})
	addDoc("C11", "R11h (= C12 R12b) pooled nodes are blank. R11i (= R04j) instance isolation of the readers. R11j (= C08 R08e) every CharData token is attached. R11k (= C08 R08i) the decoder's input and charset handling are not rewritten. R11l (= C08 R08b) names and text are stored as the decoder delivers them.")
	addDoc("C15", "R15p (= C14 R14c) shared compiled expressions are used through cloning entry points only.")
}

func init() {
	wrapRun("C03", func(c *core.Ctx) {
		// K21 (= C12 R12e): a node that stays referenced after its release is released again: the pool hands one node to two
		// owners, the tree becomes cyclic, and recycle / the checksum walk never return (stack overflow) — seed C03-16.
		if c.CountRule("K21") == 0 {
			importRules(c, "C12", map[string]string{"R12e": "K21"})
			c.Floor("K21", 3, "reader references cleared on every release path")
		}
		// K22 (= the hash clauses of C13 R13a): two declarations that share a hash are served each other's cached value — a map
		// where a string is expected — and reflect.Call panics (seed C03-18). Only the interning-key / hash-id / encoded-copy
		// obligations are imported (the position-dependence finding F2 yields a wrong value, not a panic).
		if c.CountRule("K22") == 0 {
			importRulesIf(c, "C13", map[string]string{"R13a": "K22"}, func(o *core.Obligation) bool {
				return o.Rule != "R13a" || strings.Contains(o.Construct, "interning") || strings.Contains(o.Construct, "interned hash") || strings.Contains(o.Construct, "computes hash") || strings.Contains(o.Construct, "deep copy")
			})
			c.Floor("K22", 3, "hash interning key / id / encoded copy")
		}
	})
	addDoc("C03", "K21 (= C12 R12e) released nodes are not referenced any more (a double release makes the tree cyclic: stack overflow). K22 (= hash clauses of C13 R13a) declaration hashes are unique per encoding (a collision feeds reflect.Call a value of the wrong type).")
}

// ---------------------------------------------------------------- releases go through the owner; aliases of a released node

// releaseByOwnerOnly: RemoveAndReleaseTree is called only by code that owns the holders of the node: package idr itself
// and methods of types that have a Release(*idr.Node) method (the stream readers, the format readers, the hierarchy
// reader). Anyone else (the ingester, a custom function) must hand the node back through the reader's Release, which
// also clears the reader's own reference; releasing the tree directly leaves the reader's target/candidate pointing at a
// pooled node, and the reader's defensive release at its next Read recycles it a second time (seed C15-13).
//
// staleAliasAfterRelease: when the released value was, earlier in the same function, stored into a holder field, that
// field must be overwritten on every path from the release to a return (seed C12-15: `r.target = node` moved in front of
// the filter; the reject branch released `node` and looped, and the EOF return left r.target dangling).
func releaseByOwnerOnly(c *core.Ctx, rule string) {
	c.SSA()
	idr := c.Pkg("idr")
	removeFn := c.Func("idr", "RemoveAndReleaseTree")
	if idr == nil || removeFn == nil {
		c.Unresolved(rule, "idr.RemoveAndReleaseTree", "not found")
		return
	}
	hasRelease := func(recv types.Type) bool {
		n := core.NamedOf(recv)
		if n == nil {
			return false
		}
		ms := c.SSA().MethodSets.MethodSet(types.NewPointer(n))
		for i := 0; i < ms.Len(); i++ {
			if ms.At(i).Obj().Name() == "Release" {
				return true
			}
		}
		return false
	}
	n := 0
	for _, f := range c.RepoFunctions() {
		if core.IsCLIOrSample(core.FuncPkg(f)) {
			continue
		}
		for _, ci := range core.Calls(f) {
			if ci.Common().StaticCallee() != removeFn {
				continue
			}
			n++
			root := f
			for root.Parent() != nil {
				root = root.Parent()
			}
			key := core.FuncKey(f) + " releases through the owner of the node"
			owner := core.FuncPkg(f) == idr.Types || (root.Signature.Recv() != nil && hasRelease(root.Signature.Recv().Type()))
			c.Check(owner, rule, key, core.InstrPos(ci), "called by package idr or by a method of a type that has Release(*Node)",
				"RemoveAndReleaseTree is called from code that does not own the node's holders (no Release method on its type): the reader that delivered the node still references it and will release it again")
			// stale alias
			v := ci.Common().Args[0]
			if _, isLoad := v.(*ssa.UnOp); isLoad {
				continue // released through the holder itself: R12e
			}
			for _, b := range f.Blocks {
				for _, in := range b.Instrs {
					st, ok := in.(*ssa.Store)
					if !ok || st.Val != v {
						continue
					}
					fa, ok := st.Addr.(*ssa.FieldAddr)
					if !ok {
						continue
					}
					// is the release reachable after the store?
					reach := false
					core.WalkAfter(st, func(u ssa.Instruction) bool {
						if u == ssa.Instruction(ci) {
							reach = true
						}
						return !reach
					})
					if !reach {
						continue
					}
					var stale ssa.Instruction
					core.WalkAfter(ci, func(u ssa.Instruction) bool {
						if stale != nil {
							return false
						}
						if s2, ok := u.(*ssa.Store); ok && core.SameValue(s2.Addr, fa) {
							return false
						}
						if _, isRet := u.(*ssa.Return); isRet {
							stale = u
							return false
						}
						return true
					})
					akey := core.FuncKey(f) + " clears holder " + core.FieldOfAddr(fa).Name() + " after releasing its node"
					c.Check(stale == nil, rule, akey, core.InstrPos(ci), "the field is overwritten on every path from the release to a return",
						"the released node was stored into field "+core.FieldOfAddr(fa).Name()+" before, and a return is reachable after the release without that field being overwritten: the holder keeps pointing at a pooled node and the next defensive release recycles it again")
				}
			}
		}
	}
	c.Floor(rule, 10, "release calls")
	_ = n
}

// ---------------------------------------------------------------- an attached node is delivered, held or released

// declSettingCond: the condition data-depends on a load of an exported json-tagged struct field.
func declSettingCond(cond ssa.Value) (string, bool) {
	seen := map[ssa.Value]bool{}
	var walk func(v ssa.Value, d int) (string, bool)
	walk = func(v ssa.Value, d int) (string, bool) {
		if v == nil || seen[v] || d > 10 {
			return "", false
		}
		seen[v] = true
		if u, ok := v.(*ssa.UnOp); ok && u.Op == token.MUL {
			if fa, ok := u.X.(*ssa.FieldAddr); ok {
				fv := core.FieldOfAddr(fa)
				if n := core.NamedOf(fa.X.Type()); n != nil && fv != nil && fv.Exported() {
					if st, ok := n.Underlying().(*types.Struct); ok {
						for j := 0; j < st.NumFields(); j++ {
							if st.Field(j) == fv && reflect.StructTag(st.Tag(j)).Get("json") != "" {
								return n.Obj().Name() + "." + fv.Name(), true
							}
						}
					}
				}
			}
		}
		if in, ok := v.(ssa.Instruction); ok {
			for _, op := range in.Operands(nil) {
				if *op != nil {
					if n, ok := walk(*op, d+1); ok {
						return n, true
					}
				}
			}
		}
		return "", false
	}
	return walk(cond, 0)
}

// attachedNodeAccounted: a node a format reader has just obtained and hung under its long-lived root must, on every
// path, end up returned to the caller, stored in a holder field (whose release paths R17a/R12e check) or released,
// before the reader fetches the next one or returns. A path that simply goes on (seed C17-15: "skip empty envelopes"
// by jumping back to the fetch) leaves the node attached for ever.
func attachedNodeAccounted(c *core.Ctx, rule string, pkgs []string) {
	c.SSA()
	addChild := c.Func("idr", "AddChild")
	removeFn := c.Func("idr", "RemoveAndReleaseTree")
	if addChild == nil || removeFn == nil {
		c.Unresolved(rule, "idr.AddChild / RemoveAndReleaseTree", "not found")
		return
	}
	n := 0
	for _, f := range c.RepoFunctions() {
		if core.IsCLIOrSample(core.FuncPkg(f)) || !inPkgs(core.FuncPkg(f), pkgs) || f.Name() != "Read" || f.Signature.Recv() == nil {
			continue
		}
		for _, ci := range core.Calls(f) {
			if ci.Common().StaticCallee() != addChild || len(ci.Common().Args) != 2 {
				continue
			}
			// parent is a holder field of the reader (its root); child is a local value
			if _, isFld := core.LoadedField(ci.Common().Args[0]); !isFld {
				continue
			}
			v := ci.Common().Args[1]
			if _, isLoad := v.(*ssa.UnOp); isLoad {
				continue
			}
			def, _ := v.(ssa.Instruction)
			if def == nil {
				continue
			}
			n++
			key := core.FuncKey(f) + " accounts for the node it attached under its root"
			// aliases: the value itself, and loads of the local cells (named results, variables) it is stored into
			cells := map[*ssa.Alloc]bool{}
			if u, ok := v.(*ssa.UnOp); ok && u.Op == token.MUL {
				if a, ok := u.X.(*ssa.Alloc); ok {
					cells[a] = true
				}
			}
			for _, r := range core.Referrers(v) {
				if st, ok := r.(*ssa.Store); ok && st.Val == v {
					if a, ok := st.Addr.(*ssa.Alloc); ok {
						cells[a] = true
					}
				}
			}
			isAlias := func(x ssa.Value) bool {
				if x == v {
					return true
				}
				if u, ok := x.(*ssa.UnOp); ok && u.Op == token.MUL {
					if a, ok := u.X.(*ssa.Alloc); ok && cells[a] {
						return true
					}
				}
				return false
			}
			// phi aliases (named results are promoted to phis)
			phiAlias := map[ssa.Value]bool{v: true}
			for changed := true; changed; {
				changed = false
				for _, bb := range f.Blocks {
					for _, in := range bb.Instrs {
						if ph, ok := in.(*ssa.Phi); ok && !phiAlias[ph] {
							for _, e := range ph.Edges {
								if phiAlias[e] {
									phiAlias[ph] = true
									changed = true
								}
							}
						}
					}
				}
			}
			alias2 := func(x ssa.Value) bool { return isAlias(x) || phiAlias[x] }
			var leak ssa.Instruction
			seenB := map[*ssa.BasicBlock]bool{}
			var walkB func(b *ssa.BasicBlock, start int)
			walkB = func(b *ssa.BasicBlock, start int) {
				for i := start; i < len(b.Instrs) && leak == nil; i++ {
					u := b.Instrs[i]
					switch y := u.(type) {
					case *ssa.Store:
						if alias2(y.Val) {
							if _, ok := y.Addr.(*ssa.FieldAddr); ok {
								return // held
							}
						}
					case *ssa.Return:
						for _, r := range y.Results {
							if alias2(r) {
								return
							}
						}
						leak = u
						return
					case ssa.CallInstruction:
						if y.Common().StaticCallee() == removeFn && len(y.Common().Args) == 1 && alias2(y.Common().Args[0]) {
							return
						}
					}
					if u == def {
						leak = u // the next node is fetched while this one is unaccounted for
						return
					}
				}
				if leak != nil {
					return
				}
				keptEdge := func(s *ssa.BasicBlock) bool {
					// a backward jump taken under a declared setting: the node is kept on purpose (not_target "global" envelopes)
					if len(b.Instrs) == 0 {
						return false
					}
					ifi, ok := b.Instrs[len(b.Instrs)-1].(*ssa.If)
					if !ok || !s.Dominates(b) {
						return false
					}
					_, dep := declSettingCond(ifi.Cond)
					return dep
				}
				for _, s := range b.Succs {
					if keptEdge(s) {
						continue
					}
					if !seenB[s] {
						seenB[s] = true
						walkB(s, 0)
					}
				}
			}
			walkB(ci.Block(), core.InstrIndex(ci)+1)
			if leak == nil {
				c.OK(rule, key, core.InstrPos(ci), "every path from the attachment to the next fetch or a return delivers, holds or releases the node")
			} else {
				c.Bad(rule, key, core.InstrPos(ci), "a path from the attachment reaches "+c.Position(core.InstrPos(leak))+" (the next fetch or a return) without the node being returned, stored in a holder field or released: it stays linked under the reader's root for ever")
			}
		}
	}
	c.OK(rule, "attached nodes", 0, fmt.Sprintf("%d attachment(s) of a freshly obtained node under a reader-held root in Read methods of %v", n, pkgs))
}

func init() {
	wrapRun("C12", func(c *core.Ctx) {
		if c.CountRule("R12k") == 0 {
			releaseByOwnerOnly(c, "R12k")
		}
	})
	wrapRun("C15", func(c *core.Ctx) {
		if c.CountRule("R15q") == 0 {
			releaseByOwnerOnly(c, "R15q")
		}
	})
	wrapRun("C17", func(c *core.Ctx) {
		if c.CountRule("R17i") == 0 {
			attachedNodeAccounted(c, "R17i", []string{"extensions/omniv21/fileformat"})
		}
	})
	addDoc("C12", "R12k RemoveAndReleaseTree is called only by package idr and by methods of types that own a Release(*Node) method; a released local that was stored into a holder field earlier has that field overwritten on every path to a return.")
	addDoc("C15", "R15q (= R12k) releases go through the owner.")
	addDoc("C17", "R17i a freshly obtained node attached under a reader-held root is returned, stored in a holder field or released on every path before the next fetch or a return.")
}

// ---------------------------------------------------------------- pooled objects do not escape into asynchronous code

// pooledNotCapturedAsync: an object that lives in a sync.Pool is exclusively the caller's only between Get and Put. A
// closure that runs later or elsewhere — the argument of time.AfterFunc / time.After*, the function of a `go` statement —
// and captures such an object can touch it after it went back to the pool and was handed to someone else (seed C14-14: a
// watchdog timer that interrupts the runtime, not stopped on the error path). Pooled types are resolved by role: the
// types that Pool.Get results are asserted to in the repository.
func pooledNotCapturedAsync(c *core.Ctx, rule string) {
	c.SSA()
	pooled := map[string]bool{}
	for _, f := range c.RepoFunctions() {
		for _, ci := range core.Calls(f) {
			call, ok := ci.(*ssa.Call)
			if !ok || !poolGetCall(call) {
				continue
			}
			for _, r := range core.Referrers(call) {
				if ta, ok := r.(*ssa.TypeAssert); ok {
					pooled[ta.AssertedType.String()] = true
				}
			}
			// the Get result parked in a local variable first: assertions of empty-interface values in the same function
			for _, bb := range f.Blocks {
				for _, in2 := range bb.Instrs {
					if ta, ok := in2.(*ssa.TypeAssert); ok {
						if it, isIface := ta.X.Type().Underlying().(*types.Interface); isIface && it.NumMethods() == 0 {
							if _, toIface := ta.AssertedType.Underlying().(*types.Interface); !toIface {
								pooled[ta.AssertedType.String()] = true
							}
						}
					}
				}
			}
			if call.Type() != nil {
				if _, isIface := call.Type().Underlying().(*types.Interface); !isIface {
					pooled[call.Type().String()] = true
				}
			}
		}
	}
	n := 0
	for _, f := range c.RepoFunctions() {
		if core.IsCLIOrSample(core.FuncPkg(f)) {
			continue
		}
		check := func(mc *ssa.MakeClosure, at ssa.Instruction, how string) {
			fn, _ := mc.Fn.(*ssa.Function)
			for i, b := range mc.Bindings {
				t := b.Type()
				if p, ok := t.(*types.Pointer); ok {
					if _, isAlloc := b.(*ssa.Alloc); isAlloc {
						t = p.Elem() // a captured variable cell: the variable's type
					}
				}
				if pooled[t.String()] {
					n++
					name := "?"
					if fn != nil && i < len(fn.FreeVars) {
						name = fn.FreeVars[i].Name()
					}
					c.Bad(rule, core.FuncKey(f)+" hands a pooled object to asynchronous code", core.InstrPos(at), "the closure "+how+" captures "+name+" ("+t.String()+"), an object that is recycled through a sync.Pool: it can run after the object went back to the pool and was handed to another caller")
				}
			}
		}
		for _, b := range f.Blocks {
			for _, in := range b.Instrs {
				switch x := in.(type) {
				case *ssa.Go:
					if mc, ok := x.Call.Value.(*ssa.MakeClosure); ok {
						check(mc, in, "started with `go`")
					}
				case *ssa.Call:
					if o := core.CalleeObj(x); o != nil && o.Pkg() != nil && o.Pkg().Path() == "time" && (o.Name() == "AfterFunc") {
						for _, a := range x.Call.Args {
							if mc, ok := a.(*ssa.MakeClosure); ok {
								check(mc, in, "passed to time.AfterFunc")
							}
						}
					}
				}
			}
		}
	}
	c.OK(rule, "pooled objects stay out of asynchronous closures", 0, fmt.Sprintf("%d pooled type(s) resolved; %d capture(s) by go / time.AfterFunc closures", len(pooled), n))
}

func init() {
	for _, pr := range [][2]string{{"C14", "R14j"}, {"C20", "R20k"}, {"C13", "R13k"}} {
		pr := pr
		wrapRun(pr[0], func(c *core.Ctx) {
			if c.CountRule(pr[1]) == 0 {
				pooledNotCapturedAsync(c, pr[1])
			}
		})
		addDoc(pr[0], pr[1]+" no closure started with `go` or passed to time.AfterFunc captures an object of a pooled type.")
	}
	addDoc("C20", "R20a ext.: every goja Runtime.Set* configuration call is in the function that runs the program (a runtime configured in the pool's New differs from the uncached one).")
}
