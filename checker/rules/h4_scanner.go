package rules

import (
	"go/constant"
	"go/token"
	"sort"

	"golang.org/x/tools/go/ssa"

	"omnilint/core"
)

// h4CallersIndex: static call sites per repository function.
func h4CallersIndex(c *core.Ctx) func(*ssa.Function) []*ssa.Call {
	idx := map[*ssa.Function][]*ssa.Call{}
	taken := map[*ssa.Function]bool{}
	for _, f := range c.RepoFunctions() {
		for _, b := range f.Blocks {
			for _, in := range b.Instrs {
				var callee *ssa.Value
				if ci, ok := in.(ssa.CallInstruction); ok && !ci.Common().IsInvoke() {
					callee = &ci.Common().Value
					if call, ok := in.(*ssa.Call); ok {
						if g := call.Call.StaticCallee(); g != nil {
							idx[g] = append(idx[g], call)
						}
					} else if g := ci.Common().StaticCallee(); g != nil {
						taken[g] = true // go / defer: result and arguments are not followed
					}
				}
				for _, op := range in.Operands(nil) {
					if op == callee || *op == nil {
						continue
					}
					if g, ok := (*op).(*ssa.Function); ok {
						taken[g] = true
					}
				}
			}
		}
	}
	return func(f *ssa.Function) []*ssa.Call {
		if taken[f] {
			return nil // used as a value: not all callers are static call sites
		}
		return idx[f]
	}
}

// h4AllCallersVisible: the function cannot be called from outside the repository's static call sites (unexported
// package-level function or method; functions used as values have no call sites in the index).
func h4AllCallersVisible(f *ssa.Function) bool {
	return f != nil && f.Parent() == nil && f.Object() != nil && !token.IsExported(f.Name())
}

// h4Owners: the functions in which the result of the call is put to use. A helper (all of whose callers are visible)
// that merely returns the value hands the role to its callers.
func h4Owners(ci ssa.CallInstruction, callers func(*ssa.Function) []*ssa.Call) []*ssa.Function {
	set := map[*ssa.Function]bool{}
	var up func(v ssa.Value, fn *ssa.Function, depth int)
	up = func(v ssa.Value, fn *ssa.Function, depth int) {
		cs := callers(fn)
		idx, only := -1, v != nil && depth < 4 && len(cs) > 0 && h4AllCallersVisible(fn)
		if only {
			n := 0
			for _, u := range core.Referrers(v) {
				switch x := u.(type) {
				case *ssa.DebugRef:
				case *ssa.Return:
					n++
					for i, rv := range x.Results {
						if rv == v {
							if idx >= 0 && idx != i {
								only = false
							}
							idx = i
						}
					}
				default:
					only = false
				}
			}
			if n == 0 || idx < 0 {
				only = false
			}
		}
		if !only {
			set[fn] = true
			return
		}
		for _, call := range cs {
			var rv ssa.Value
			if call.Call.Signature().Results().Len() == 1 {
				rv = call
			} else {
				for _, u := range core.Referrers(call) {
					if ex, ok := u.(*ssa.Extract); ok && ex.Index == idx {
						rv = ex
					}
				}
			}
			if rv == nil {
				set[call.Parent()] = true
				continue
			}
			up(rv, call.Parent(), depth+1)
		}
	}
	v, _ := ci.(ssa.Value)
	up(v, ci.Parent(), 0)
	var out []*ssa.Function
	for f := range set {
		out = append(out, f)
	}
	sort.Slice(out, func(i, j int) bool { return core.FuncKey(out[i]) < core.FuncKey(out[j]) })
	return out
}

// h4IntConsts: the integer constants the value can be, following Phi alternatives and parameters of functions whose
// callers are all visible back to the arguments of the call sites. ok = false when some alternative is not constant.
func h4IntConsts(v ssa.Value, callers func(*ssa.Function) []*ssa.Call) (vals []int64, ok bool) {
	seen := map[ssa.Value]bool{}
	ok = true
	var visit func(v ssa.Value, depth int)
	visit = func(v ssa.Value, depth int) {
		if seen[v] || !ok {
			return
		}
		seen[v] = true
		switch x := v.(type) {
		case *ssa.Const:
			if x.Value == nil || x.Value.Kind() != constant.Int {
				ok = false
				return
			}
			if n, exact := constant.Int64Val(constant.ToInt(x.Value)); exact {
				vals = append(vals, n)
			} else {
				ok = false
			}
		case *ssa.Phi:
			for _, e := range x.Edges {
				visit(e, depth)
			}
		case *ssa.ChangeType:
			visit(x.X, depth)
		case *ssa.Convert:
			visit(x.X, depth)
		case *ssa.Parameter:
			fn := x.Parent()
			cs := callers(fn)
			if depth >= 4 || len(cs) == 0 || !h4AllCallersVisible(fn) {
				ok = false
				return
			}
			pi := -1
			for i, p := range fn.Params {
				if p == x {
					pi = i
				}
			}
			for _, call := range cs {
				if pi < 0 || pi >= len(call.Call.Args) {
					ok = false
					return
				}
				visit(call.Call.Args[pi], depth+1)
			}
		default:
			ok = false
		}
	}
	visit(v, 0)
	if len(vals) == 0 {
		ok = false
	}
	return vals, ok
}
