package rules

import (
	"fmt"
	"go/constant"
	"go/token"
	"go/types"
	"strings"

	"golang.org/x/tools/go/ssa"

	"omnilint/core"
)

const gojaPath = "github.com/dop251/goja"

func init() {
	register(&RuleSet{
		Prop:  "C20",
		Title: "JavaScript calls are isolated from each other and map values faithfully",
		Explanation: "R20a set/delete symmetry on pooled VMs: every goja Runtime.Set in the repository is in the function that runs the program, with its name taken from ranging over a map A; a deferred function (Defer dominates the first Set and RunProgram) ranges over the same map cell A and deletes each name from the VM's global object; the deletion runs before sync.Pool.Put (same deferred function: Delete not reachable after Put; separate defers: Put registered first), Put is deferred, receives exactly the object Get returned, and the VM is not used after Put. " +
			"R20b _node is current: the value stored under the _node argument name is computed from the function's own node parameter by a call chain that contains no cache (no LoadingCache.Get, no map lookup in package-level state); loader purity of every LoadingCache.Get in the package (free variables of the loader are the key or immutable). " +
			"R20c rejection before export: Export() on the result is dominated by the false outcome of goja.IsNaN, IsInfinity, IsNull and IsUndefined on that same value, and by the nil edge of the RunProgram error (when the value is a parameter of an extracted classification helper whose callers can all be enumerated, the tests may instead guard the bound argument at every call site). " +
			"R20d argument pairing: the odd-length test (len of the paired slice modulo 2) dominates the pairing loop and returns an error — in the pairing function itself or, for the argument it is given, at every call site of an extracted pairing helper; the name assertion is comma-ok with an error return. " +
			"R20e compiled programs are used only as the argument of RunProgram. R20f the transform-result cache that memoises custom_func results is created per record (= C10 R10a): a javascript result computed for an ancestor node is never served to a later record.",
		NotDecided: "the JS→Go value mapping performed by goja's Export; scripts that assign globals themselves (excluded by the statement); concurrency inside goja; a correct re-implementation of the rejection test that does not use goja's four predicates would be reported (idiom enumerated from the code base).",
		Trusted:    append([]string{"goja: Runtime.Set/GlobalObject().Delete define/remove a global; *goja.Program is immutable; Export maps JS values as documented"}, commonTrusted...),
		Run:        func(c *core.Ctx) { runC20(c) },
	})
	control(Control{ID: "c20-delete-only-node", Prop: "C20", File: "extensions/omniv21/customfuncs/javascript.go",
		Old: "\t\t\tfor arg := range args {\n\t\t\t\t_ = vm.GlobalObject().Delete(arg)\n\t\t\t}", New: "\t\t\t_ = vm.GlobalObject().Delete(argNameNode)",
		Rule: "R20a", Substr: "execProgram", Why: "only _node is wiped; other arguments stay visible to the next call"})
	control(Control{ID: "c20-put-before-cleanup", Prop: "C20", File: "extensions/omniv21/customfuncs/javascript.go",
		Old: "\tdefer func() {\n\t\tif vm != nil {", New: "\tdefer func() {\n\t\tif poolObj != nil {\n\t\t\tjsRuntimePool.Put(poolObj)\n\t\t\tpoolObj = nil\n\t\t}\n\t\tif vm != nil {",
		Rule: "R20a", Substr: "execProgram", Why: "VM handed back to the pool before its globals are wiped"})
	control(Control{ID: "c20-cleanup-not-deferred", Prop: "C20", File: "extensions/omniv21/customfuncs/javascript.go",
		Old: "\treturn vm.RunProgram(program)\n}", New: "\tv, err := vm.RunProgram(program)\n\tif err != nil {\n\t\treturn nil, err\n\t}\n\treturn v, nil\n}",
		Rule: "", Substr: "", Why: "placeholder replaced below"})
	// the placeholder above is behaviour-preserving; it must NOT fire (negative control, checked separately)
	Controls = Controls[:len(Controls)-1]
	control(Control{ID: "c20-isnull-dropped", Prop: "C20", File: "extensions/omniv21/customfuncs/javascript.go",
		Old: "case goja.IsNaN(v), goja.IsInfinity(v), goja.IsNull(v), goja.IsUndefined(v):", New: "case goja.IsNaN(v), goja.IsInfinity(v), goja.IsUndefined(v):",
		Rule: "R20c", Substr: "IsNull", Why: "null result exported as nil instead of an error"})
	control(Control{ID: "c20-node-json-cached", Prop: "C20", File: "extensions/omniv21/customfuncs/javascript.go",
		Old:  "func getNodeJSON(n *idr.Node) string {\n\treturn idr.JSONify2(n)\n}",
		New:  "func getNodeJSON(n *idr.Node) string {\n\tj, _ := NodeToJSONCache.Get(n.ID, func(interface{}) (interface{}, error) {\n\t\treturn idr.JSONify2(n), nil\n\t})\n\treturn j.(string)\n}",
		Rule: "R20b", Substr: "getNodeJSON", Why: "_node served from a cache keyed by node ID (stale for ancestors)"})
	control(Control{ID: "c20-odd-args-unchecked", Prop: "C20", File: "extensions/omniv21/customfuncs/javascript.go",
		Old: "\tif len(args)%2 != 0 {\n\t\treturn nil, fmt.Errorf(\"number of args must be even, but got %d\", len(args))\n\t}\n", New: "",
		Rule: "R20d", Substr: "JavaScriptWithContext", Why: "odd argument count silently drops the last name"})
}

func isGojaMethod(ci ssa.CallInstruction, typ, name string) bool {
	o := core.CalleeObj(ci)
	return o != nil && o.Pkg() != nil && o.Pkg().Path() == gojaPath && core.FuncName(o) == typ+"."+name
}

func isGojaFunc(ci ssa.CallInstruction, name string) bool {
	o := core.CalleeObj(ci)
	return o != nil && o.Pkg() != nil && o.Pkg().Path() == gojaPath && core.FuncName(o) == name
}

// poolPutArg: ci hands an object to a sync.Pool — directly ((*sync.Pool).Put(pool, x)) or through a one-hop repository
// wrapper whose body passes its own parameter to Pool.Put — returns the object as seen at ci.
func poolPutArg(ci ssa.CallInstruction) (ssa.Value, bool) {
	if isPoolCall(ci, "Put") {
		return ci.Common().Args[1], true
	}
	cf := ci.Common().StaticCallee()
	if cf == nil || cf.Blocks == nil || !core.InRepo(core.FuncPkg(cf)) || len(cf.Blocks) > 2 {
		return nil, false
	}
	for _, cj := range core.Calls(cf) {
		if !isPoolCall(cj, "Put") {
			continue
		}
		a := core.Unwrap(cj.Common().Args[1], true)
		for i, p := range cf.Params {
			if a == ssa.Value(p) && i < len(ci.Common().Args) {
				return ci.Common().Args[i], true
			}
		}
	}
	return nil, false
}

// poolGetCall: ci obtains an object from a sync.Pool, directly or through a one-hop repository wrapper that returns the
// result of Pool.Get (possibly type-asserted).
func poolGetCall(ci ssa.CallInstruction) bool {
	if isPoolCall(ci, "Get") {
		return true
	}
	cf := ci.Common().StaticCallee()
	if cf == nil || cf.Blocks == nil || !core.InRepo(core.FuncPkg(cf)) || len(cf.Blocks) > 2 {
		return false
	}
	for _, b := range cf.Blocks {
		for _, in := range b.Instrs {
			rt, ok := in.(*ssa.Return)
			if !ok || len(rt.Results) != 1 {
				continue
			}
			v := rt.Results[0]
			if ta, ok := v.(*ssa.TypeAssert); ok {
				v = ta.X
			}
			if call, ok := v.(*ssa.Call); ok && isPoolCall(call, "Get") {
				return true
			}
		}
	}
	return false
}

func isPoolCall(ci ssa.CallInstruction, name string) bool {
	o := core.CalleeObj(ci)
	return o != nil && o.Pkg() != nil && o.Pkg().Path() == "sync" && core.FuncName(o) == "Pool."+name
}

// cellOf resolves a value to the variable cell it is loaded from: an Alloc of the enclosing function, or (inside a
// closure) the Alloc bound to the free variable. Returns nil if the value is not a plain load of such a cell.
func cellOf(v ssa.Value, bindings map[*ssa.FreeVar]ssa.Value) ssa.Value {
	u, ok := v.(*ssa.UnOp)
	if !ok || u.Op != token.MUL {
		if p, ok := v.(*ssa.Parameter); ok {
			return p
		}
		return nil
	}
	switch a := u.X.(type) {
	case *ssa.Alloc:
		return a
	case *ssa.FreeVar:
		if b, ok := bindings[a]; ok {
			return b
		}
	}
	return nil
}

// rangedMap: if key is Extract #1 of Next over Range X, returns X.
func rangedMap(key ssa.Value) ssa.Value {
	ex, ok := key.(*ssa.Extract)
	if !ok || ex.Index != 1 {
		return nil
	}
	nx, ok := ex.Tuple.(*ssa.Next)
	if !ok {
		return nil
	}
	rg, ok := nx.Iter.(*ssa.Range)
	if !ok {
		return nil
	}
	return rg.X
}

type c20Deferred struct {
	deferInstr *ssa.Defer
	fn         *ssa.Function // closure body or static callee (nil for direct defer of non-repo function)
	bindings   map[*ssa.FreeVar]ssa.Value
	params     map[*ssa.Parameter]ssa.Value // deferred named function: parameter -> argument evaluated at the defer
}

// resolve maps a value used inside the deferred function to the variable cell / parameter of the runner it stands for.
func (d *c20Deferred) resolve(v ssa.Value) ssa.Value {
	if p, ok := v.(*ssa.Parameter); ok && d.params != nil {
		if a, ok := d.params[p]; ok {
			if cell := cellOf(a, nil); cell != nil {
				return cell
			}
			return a
		}
	}
	return cellOf(v, d.bindings)
}

// c20VMPool checks R20a for every function that runs a goja program; rule is the rule name to report under.
func c20VMPool(c *core.Ctx, rule string) {
	var runners []*ssa.Function
	setSites := map[*ssa.Function][]ssa.CallInstruction{}
	for _, f := range c.RepoFunctions() {
		if core.IsCLIOrSample(core.FuncPkg(f)) {
			continue
		}
		for _, ci := range core.Calls(f) {
			if isGojaMethod(ci, "Runtime", "RunProgram") || isGojaMethod(ci, "Runtime", "RunString") || isGojaMethod(ci, "Runtime", "RunScript") {
				runners = append(runners, f)
			}
			if isGojaMethod(ci, "Runtime", "Set") || isGojaMethod(ci, "Object", "Set") || isGojaMethod(ci, "Runtime", "SetFieldNameMapper") {
				setSites[f] = append(setSites[f], ci)
			} else if o := core.CalleeObj(ci); o != nil && o.Pkg() != nil && o.Pkg().Path() == gojaPath && strings.HasPrefix(core.FuncName(o), "Runtime.Set") {
				// any other configuration of a runtime (SetMaxCallStackSize, SetParserOptions, SetRandSource, ...): a runtime
				// configured where it is created for the pool differs from the one created for the uncached path
				setSites[f] = append(setSites[f], ci)
			}
		}
	}
	if len(runners) == 0 {
		c.Unresolved(rule, "program runner", "no repository function calls goja Runtime.RunProgram")
		return
	}
	isRunner := map[*ssa.Function]bool{}
	for _, f := range runners {
		isRunner[f] = true
	}
	for f, sites := range setSites {
		if !isRunner[f] {
			for _, s := range sites {
				c.Bad(rule, core.FuncKey(f)+" sets VM global", core.InstrPos(s), "a goja global is defined outside the function that runs the program and wipes its arguments: it would survive in a pooled VM")
			}
		}
	}
	for _, f := range runners {
		key := core.FuncKey(f)
		var run ssa.CallInstruction
		for _, ci := range core.Calls(f) {
			if isGojaMethod(ci, "Runtime", "RunProgram") {
				run = ci
			}
		}
		sets := setSites[f]
		usesPool := false
		var scan func(g *ssa.Function, d int)
		scanned := map[*ssa.Function]bool{}
		scan = func(g *ssa.Function, d int) {
			if g == nil || scanned[g] || g.Blocks == nil || d > 2 {
				return
			}
			scanned[g] = true
			for _, ci := range core.Calls(g) {
				if _, isPut := poolPutArg(ci); isPut || poolGetCall(ci) {
					usesPool = true
				}
				if cf := ci.Common().StaticCallee(); cf != nil && core.InRepo(core.FuncPkg(cf)) {
					scan(cf, d+1)
				}
			}
			for _, a := range g.AnonFuncs {
				scan(a, d)
			}
		}
		scan(f, 0)
		if !usesPool {
			c.OK(rule, key+" VM not pooled", f.Pos(), "this runner does not take VMs from a pool")
			continue
		}
		// (a) set names come from ranging over a map cell A
		var setCell ssa.Value
		okSets := len(sets) > 0
		for _, s := range sets {
			m := rangedMap(s.Common().Args[1])
			var cell ssa.Value
			if m != nil {
				cell = cellOf(m, nil)
			}
			if cell == nil {
				c.Bad(rule, key+" Set name source", core.InstrPos(s), "a VM global is defined whose name does not come from ranging over the argument map: the cleanup cannot know it")
				okSets = false
				continue
			}
			if setCell != nil && setCell != cell {
				c.Bad(rule, key+" Set name source", core.InstrPos(s), "VM globals are defined from two different maps")
				okSets = false
			}
			setCell = cell
		}
		if !okSets {
			if len(sets) == 0 {
				c.Unknown(rule, key+" Set sites", f.Pos(), "no Runtime.Set call found in the runner although it pools VMs")
			}
			continue
		}
		c.OK(rule, key+" Set name source", core.InstrPos(sets[0]), "names come from ranging over one map variable")
		// the cell is assigned exactly once (the parameter / initial value)
		if a, ok := setCell.(*ssa.Alloc); ok {
			n := 0
			for _, g := range append([]*ssa.Function{f}, f.AnonFuncs...) {
				for _, w := range core.Writes(g) {
					if w.Instr.(*ssa.Store).Addr == ssa.Value(a) {
						n++
					}
					if st, ok := w.Instr.(*ssa.Store); ok {
						if fv, ok := st.Addr.(*ssa.FreeVar); ok && closureBinding(g, fv) == ssa.Value(a) {
							n++
						}
					}
				}
			}
			c.Check(n <= 1, rule, key+" argument map reassigned", a.Pos(), "the argument map variable is assigned once", "the argument map variable is reassigned between Set and cleanup: deleted names may differ from defined names")
		}
		// (b) deferred functions, in registration order
		var defers []c20Deferred
		for _, b := range f.Blocks {
			for _, in := range b.Instrs {
				d, ok := in.(*ssa.Defer)
				if !ok {
					continue
				}
				cd := c20Deferred{deferInstr: d, bindings: map[*ssa.FreeVar]ssa.Value{}}
				switch v := d.Call.Value.(type) {
				case *ssa.MakeClosure:
					cd.fn = v.Fn.(*ssa.Function)
					for i, fv := range cd.fn.FreeVars {
						cd.bindings[fv] = v.Bindings[i]
					}
				case *ssa.Function:
					cd.fn = v
					cd.params = map[*ssa.Parameter]ssa.Value{}
					for i, p := range v.Params {
						if i < len(d.Call.Args) {
							cd.params[p] = d.Call.Args[i]
						}
					}
				}
				defers = append(defers, cd)
			}
		}
		// locate delete loop(s) and Put(s)
		type located struct {
			in   *c20Deferred
			call ssa.CallInstruction
		}
		var dels, puts []located
		var delInline, putInline ssa.CallInstruction
		for i := range defers {
			d := &defers[i]
			if isPoolCall(d.deferInstr, "Put") {
				puts = append(puts, located{d, d.deferInstr})
			}
			if d.fn == nil || d.fn.Blocks == nil {
				continue
			}
			for _, ci := range core.Calls(d.fn) {
				if isGojaMethod(ci, "Object", "Delete") {
					dels = append(dels, located{d, ci})
				}
				if _, isPut := poolPutArg(ci); isPut {
					puts = append(puts, located{d, ci})
				}
			}
		}
		for _, ci := range core.Calls(f) {
			if _, isDefer := ci.(*ssa.Defer); isDefer {
				continue
			}
			if isGojaMethod(ci, "Object", "Delete") {
				delInline = ci
			}
			if _, isPut := poolPutArg(ci); isPut {
				putInline = ci
			}
		}
		if len(dels) == 0 {
			pos := f.Pos()
			why := "no deferred function deletes the defined globals from the VM: arguments of one call stay visible to the next call on the pooled VM"
			if delInline != nil {
				pos = core.InstrPos(delInline)
				why = "the arguments are wiped inline, not in a deferred function: on the error/panic path of RunProgram the VM returns to the pool with the arguments still defined"
			}
			c.Bad(rule, key+" cleanup deferred", pos, why)
			continue
		}
		// one delete loop must range over the same cell and delete from the VM's global object
		var delIn *c20Deferred
		var delCall ssa.CallInstruction
		for _, d := range dels {
			dm := rangedMap(d.call.Common().Args[1])
			if dm != nil && d.in.resolve(dm) == setCell {
				delIn, delCall = d.in, d.call
			}
		}
		if delIn == nil {
			c.Bad(rule, key+" cleanup covers defined names", core.InstrPos(dels[0].call), "the deferred cleanup does not delete exactly the names that were defined (it does not range over the same map variable)")
			continue
		}
		c.OK(rule, key+" cleanup covers defined names", core.InstrPos(delCall), "the deferred cleanup ranges over the same map variable the globals were defined from")
		recvOK := false
		if g, ok := delCall.Common().Args[0].(*ssa.Call); ok && isGojaMethod(g, "Runtime", "GlobalObject") {
			recvOK = true
		}
		c.Check(recvOK, rule, key+" cleanup target", core.InstrPos(delCall), "names are deleted from the VM's global object", "names are not deleted from the VM's global object")
		// Defer dominates first Set and RunProgram
		domOK := true
		for _, s := range sets {
			if !core.Dominates(delIn.deferInstr, s) {
				domOK = false
			}
		}
		if run != nil && !core.Dominates(delIn.deferInstr, run) {
			domOK = false
		}
		c.Check(domOK, rule, key+" cleanup registered first", core.InstrPos(delIn.deferInstr), "the cleanup is deferred before any global is defined and before the program runs", "a global can be defined (or the program run) on a path on which the cleanup has not been deferred")
		// Put discipline
		if putInline != nil {
			c.Bad(rule, key+" Put order", core.InstrPos(putInline), "the VM is returned to the pool inline while its globals are wiped in a deferred function that runs later: another goroutine can Get the VM with the arguments still defined")
			continue
		}
		if len(puts) == 0 {
			c.OK(rule, key+" Put order", f.Pos(), "the VM is never returned to the pool (nothing can leak through it)")
			continue
		}
		var putIn *c20Deferred
		var putCall ssa.CallInstruction
		for _, pt := range puts {
			putIn, putCall = pt.in, pt.call
			orderOK := false
			why := ""
			_, direct := putCall.(*ssa.Defer)
			if putIn == delIn && !direct {
				reach := false
				core.WalkAfter(putCall, func(in ssa.Instruction) bool {
					if in == delCall.(ssa.Instruction) {
						reach = true
					}
					return true
				})
				orderOK = !reach
				why = "a global can be deleted after the VM was already returned to the pool"
			} else {
				// LIFO: the Put must be registered before the cleanup
				orderOK = core.Dominates(putIn.deferInstr, delIn.deferInstr) && putIn.deferInstr != delIn.deferInstr
				why = "deferred calls run last-in-first-out: the Put is registered after the cleanup and therefore runs before it"
			}
			c.Check(orderOK, rule, key+" Put order", core.InstrPos(putCall), "the VM is returned to the pool only after its globals were wiped", why)
		}
		// Put receives the Get result
		pvRaw, _ := poolPutArg(putCall)
		pv := core.Unwrap(pvRaw, true)
		putOK := false
		if p, ok := pv.(*ssa.Parameter); ok && putIn.params != nil {
			if a, ok := putIn.params[p]; ok {
				putOK = c20IsGetResult(core.Unwrap(a, true), f, 0)
			}
		} else {
			pcell := cellOf(pv, putIn.bindings)
			if a, ok := pcell.(*ssa.Alloc); ok {
				putOK = true
				nStores := 0
				for _, st := range storesToCell(a) {
					nStores++
					if !core.IsNilConst(st.Val) && !c20IsGetResult(core.Unwrap(st.Val, true), f, 0) {
						putOK = false
					}
				}
				if nStores == 0 {
					putOK = false
				}
			} else {
				putOK = c20IsGetResult(pv, f, 0)
			}
		}
		c.Check(putOK, rule, key+" Put object", core.InstrPos(putCall), "Put receives exactly the object obtained from Get", "the object returned to the pool is not (only) the one obtained from Get")
		// VM not used after Put
		used := token.NoPos
		if _, direct := putCall.(*ssa.Defer); direct {
			c.OK(rule, key+" VM unused after Put", core.InstrPos(putCall), "Put is itself deferred and registered before the cleanup: it runs last")
			continue
		}
		core.WalkAfter(putCall, func(in ssa.Instruction) bool {
			if ci, ok := in.(ssa.CallInstruction); ok {
				if o := core.CalleeObj(ci); o != nil && o.Pkg() != nil && o.Pkg().Path() == gojaPath {
					used = core.InstrPos(in)
				}
			}
			return true
		})
		c.Check(!used.IsValid(), rule, key+" VM unused after Put", core.InstrPos(putCall), "no goja call after the VM was returned", "the VM is still used after it was returned to the pool")
	}
}

func closureBinding(fn *ssa.Function, fv *ssa.FreeVar) ssa.Value {
	p := fn.Parent()
	if p == nil {
		return nil
	}
	idx := -1
	for i, x := range fn.FreeVars {
		if x == fv {
			idx = i
		}
	}
	if idx < 0 {
		return nil
	}
	for _, b := range p.Blocks {
		for _, in := range b.Instrs {
			if mc, ok := in.(*ssa.MakeClosure); ok && mc.Fn == fn {
				return mc.Bindings[idx]
			}
		}
	}
	return nil
}

func runC20(c *core.Ctx) {
	c.SSA()
	c20VMPool(c, "R20a")
	c.Floor("R20a", 7, "set source, cleanup coverage/target/registration, Put order/object/unused")

	pkg := c.Pkg("extensions/omniv21/customfuncs")
	if pkg == nil {
		c.Unresolved("R20", "package extensions/omniv21/customfuncs", "not loaded")
		return
	}
	var pkgFns []*ssa.Function
	for _, f := range c.RepoFunctions() {
		if core.FuncPkg(f) == pkg.Types {
			pkgFns = append(pkgFns, f)
		}
	}
	c20LoaderPurity(c, "R20b", pkgFns)
	c20NodeArg(c, pkgFns)
	c.Floor("R20b", 2, "loader purity + _node provenance")
	c20Export(c, pkgFns)
	c.Floor("R20c", 5, "four predicates + error test")
	c20Pairing(c, pkgFns)
	c.Floor("R20d", 2, "odd-length test, comma-ok name")
	// R20f: a javascript result is memoised only within one record (fresh evaluation context per Read)
	c10FreshCtx(c, "R20f")
	c.Floor("R20f", 3, "ParseNode receiver, context use, cache map")
	// R20e
	n := 0
	for _, f := range pkgFns {
		for _, ci := range core.Calls(f) {
			for i, a := range ci.Common().Args {
				nt := core.NamedOf(a.Type())
				if nt == nil || nt.Obj().Pkg() == nil || nt.Obj().Pkg().Path() != gojaPath || nt.Obj().Name() != "Program" {
					continue
				}
				n++
				key := core.FuncKey(f) + " passes compiled program"
				ok := isGojaMethod(ci, "Runtime", "RunProgram") && i == 1
				if cf := ci.Common().StaticCallee(); cf != nil && core.FuncPkg(cf) == pkg.Types {
					ok = true // handed to a function of the package (checked there)
				}
				c.Check(ok, "R20e", key, core.InstrPos(ci), "compiled program only handed to RunProgram / package functions", "a shared compiled program is passed to "+ci.Common().String())
			}
		}
	}
	if n == 0 {
		c.Unresolved("R20e", "compiled program uses", "no use of *goja.Program found")
	}
}

// c20LoaderPurity: for every (*LoadingCache).Get(key, loader) in the given functions, the loader closure's
// free variables are the key itself or immutable (basic types / strings).
func c20LoaderPurity(c *core.Ctx, rule string, fns []*ssa.Function) int {
	n := 0
	for _, f := range fns {
		for _, ci := range core.Calls(f) {
			if !core.IsCallTo(ci, "github.com/jf-tech/go-corelib/caches", "LoadingCache.Get") {
				continue
			}
			n++
			key := core.FuncKey(f) + " cache loader"
			args := ci.Common().Args
			keyV := core.Unwrap(args[1], true)
			loader := args[2]
			if ct, ok := loader.(*ssa.ChangeType); ok {
				loader = ct.X
			}
			switch l := loader.(type) {
			case *ssa.Function:
				c.OK(rule, key, core.InstrPos(ci), "loader is a plain function of the key")
			case *ssa.MakeClosure:
				bad := ""
				for i, b := range l.Bindings {
					fv := l.Fn.(*ssa.Function).FreeVars[i]
					// binding is a cell (Alloc) holding a variable, or a value
					vt := fv.Type()
					if p, ok := vt.(*types.Pointer); ok {
						vt = p.Elem()
					}
					immutable := false
					if bt, ok := vt.Underlying().(*types.Basic); ok {
						immutable = true
						_ = bt
					}
					sameAsKey := false
					if a, ok := b.(*ssa.Alloc); ok {
						if ku, ok := keyV.(*ssa.UnOp); ok && ku.X == ssa.Value(a) {
							sameAsKey = true
						}
					} else if b == keyV {
						sameAsKey = true
					}
					_ = immutable
					if !sameAsKey {
						// an immutable captured value that is not the key: the loader's result depends on it, so the key must
						// determine it — only the identity is accepted (a digest or a normalised form of it is not injective)
						bad = fv.Name() + " (" + vt.String() + ")"
					}
				}
				if bad != "" {
					c.Bad(rule, key, core.InstrPos(ci), "the cache loader reads captured state "+core.Rel(bad)+" that is not the cache key itself (mutable, or a value the key is merely derived from): a hit can return what a miss would not compute")
				} else {
					c.OK(rule, key, core.InstrPos(ci), "loader captures only the key / immutable values")
				}
			default:
				c.Unknown(rule, key, core.InstrPos(ci), fmt.Sprintf("loader is a %T: purity not decidable", loader))
			}
		}
	}
	return n
}

func constString(v ssa.Value) (string, bool) {
	cst, ok := core.Unwrap(v, true).(*ssa.Const)
	if !ok || cst.Value == nil || cst.Value.Kind() != constant.String {
		return "", false
	}
	return constant.StringVal(cst.Value), true
}

// c20NodeArg: the value stored under the "_node" name derives from the function's own *Node parameter via a
// cache-free call chain.
func c20NodeArg(c *core.Ctx, fns []*ssa.Function) {
	found := false
	for _, f := range fns {
		for _, b := range f.Blocks {
			for _, in := range b.Instrs {
				mu, ok := in.(*ssa.MapUpdate)
				if !ok {
					continue
				}
				ks, ok := constString(mu.Key)
				if !ok || !strings.HasPrefix(ks, "_") {
					continue
				}
				found = true
				key := core.FuncKey(f) + " sets " + ks
				call, ok := core.Unwrap(mu.Value, true).(*ssa.Call)
				if !ok {
					c.Unknown("R20b", key, core.InstrPos(in), "the context value is not the result of a call")
					continue
				}
				// argument must be the node parameter of f
				argOK := false
				for _, a := range call.Call.Args {
					if p, ok := a.(*ssa.Parameter); ok && p.Parent() == f && core.NamedOf(p.Type()) != nil && core.NamedOf(p.Type()).Obj().Name() == "Node" {
						argOK = true
					}
				}
				if !argOK {
					c.Bad("R20b", key, core.InstrPos(in), "the context JSON is not computed from the current node parameter")
					continue
				}
				cf := call.Call.StaticCallee()
				if cf == nil {
					c.Unknown("R20b", key, core.InstrPos(in), "dynamic callee")
					continue
				}
				if via, what := usesCache(cf, 0, map[*ssa.Function]bool{}); via != nil {
					c.Bad("R20b", core.FuncKey(via)+" serves "+ks, via.Pos(), "the context JSON passes through "+what+": a node's ID does not change when its subtree changes, so ancestors of the target would be served stale JSON")
				} else if why, ok := returnsConverterResult(cf, 0); !ok {
					c.Bad("R20b", key+" unmodified", core.InstrPos(in), "the context JSON is not the node converter's result as it is: "+why+" — text that happens to contain the rewritten sequence inside a string value is altered, and _node no longer reflects the node (possibly no longer valid JSON)")
				} else {
					c.OK("R20b", key, core.InstrPos(in), "computed from the current node by a cache-free call chain ("+core.FuncKey(cf)+"), handed on unmodified")
				}
			}
		}
	}
	if !found {
		c.Unresolved("R20b", "_node argument", "no map update with a constant \"_…\" key found in the package")
	}
}

// returnsConverterResult: every value f returns is the result of a call to one of idr's JSON converters (JSONify*,
// J2NodeToInterface + json.Marshal are the converter itself), directly or through a repository helper of which the same
// holds; no call on the way takes the converter's text as an argument (a rewrite of the text).
func returnsConverterResult(f *ssa.Function, depth int) (string, bool) {
	if depth > 4 || f.Blocks == nil {
		return "call chain too deep", false
	}
	if p := core.FuncPkg(f); p != nil && core.Rel(p.Path()) == "idr" {
		return "", true // the converter package itself
	}
	for _, b := range f.Blocks {
		for _, in := range b.Instrs {
			rt, ok := in.(*ssa.Return)
			if !ok || len(rt.Results) == 0 {
				continue
			}
			v := core.Unwrap(rt.Results[0], true)
			call, ok := v.(*ssa.Call)
			if !ok {
				return "a returned value is not a call result", false
			}
			cf := call.Call.StaticCallee()
			if cf == nil {
				return "dynamic callee " + call.Call.String(), false
			}
			if p := core.FuncPkg(cf); p != nil && core.Rel(p.Path()) == "idr" {
				continue
			}
			if !core.InRepo(core.FuncPkg(cf)) {
				return "the text passes through " + core.FuncKey(cf), false
			}
			if why, ok := returnsConverterResult(cf, depth+1); !ok {
				return why, false
			}
		}
	}
	return "", true
}

// usesCache: f or its static repo callees call LoadingCache.Get or look up a map held in a package-level variable.
func usesCache(f *ssa.Function, depth int, seen map[*ssa.Function]bool) (*ssa.Function, string) {
	if depth > 6 || seen[f] || f.Blocks == nil {
		return nil, ""
	}
	seen[f] = true
	for _, b := range f.Blocks {
		for _, in := range b.Instrs {
			switch x := in.(type) {
			case ssa.CallInstruction:
				if core.IsCallTo(x, "github.com/jf-tech/go-corelib/caches", "LoadingCache.Get") {
					return f, "a LoadingCache"
				}
				if o := core.CalleeObj(x); o != nil && o.Pkg() != nil && o.Pkg().Path() == "github.com/hashicorp/golang-lru" {
					return f, "an LRU cache"
				}
				if cf := x.Common().StaticCallee(); cf != nil && core.InRepo(core.FuncPkg(cf)) {
					if via, w := usesCache(cf, depth+1, seen); via != nil {
						return via, w
					}
				}
			case *ssa.Lookup:
				if _, root := core.TraceAddr(x.X); root != nil {
					if _, isG := root.(*ssa.Global); isG {
						return f, "a package-level map"
					}
				}
			}
		}
	}
	return nil, ""
}

// c20Export: Export() dominated by the false edge of the four goja predicates on the same value and by the nil
// edge of the run error.
func c20Export(c *core.Ctx, fns []*ssa.Function) {
	found := false
	for _, f := range fns {
		for _, ci := range core.Calls(f) {
			cc := ci.Common()
			if !(cc.IsInvoke() && cc.Method.Name() == "Export" && cc.Method.Pkg() != nil && cc.Method.Pkg().Path() == gojaPath) {
				continue
			}
			found = true
			v := cc.Value
			key := core.FuncKey(f) + " Export"
			for _, pred := range []string{"IsNaN", "IsInfinity", "IsNull", "IsUndefined"} {
				pred := pred
				// the predicate is found false for the same value on every path to the Export: in this function, or — when the
				// value is a parameter of an extracted helper — at every call site of the helper for the bound argument
				ok := f2GuardedAt(c, v, ci, func(v ssa.Value, blk *ssa.BasicBlock) bool {
					for _, cj := range core.Calls(blk.Parent()) {
						if !isGojaFunc(cj, pred) || cj.Common().Args[0] != v {
							continue
						}
						if pv := cj.Value(); pv != nil && falseEdgeDominates(pv, blk, false) {
							return true
						}
					}
					// or through a boolean classification helper handed the value (isUnusable(v) = IsNaN(v) || ...): the
					// outcome of the helper that dominates the Export implies, inside the helper, the predicate's false edge
					return g3GuardedByBoolHelper(v, blk, func(cj ssa.CallInstruction, x ssa.Value) bool {
						return isGojaFunc(cj, pred) && len(cj.Common().Args) > 0 && cj.Common().Args[0] == x
					})
				}, 0)
				c.Check(ok, "R20c", key+" after !"+pred, core.InstrPos(ci), "Export is reachable only when goja."+pred+" is false for the same value",
					"Export can be reached without goja."+pred+"(v) having been found false: a "+strings.TrimPrefix(pred, "Is")+" result would be emitted instead of an error")
			}
			// error test: v derives from a call whose error result is tested
			// (the exported value may have been handed to a result-classification helper: then the test is looked for at
			// every call site of the helper, for the argument bound to the parameter)
			okErr := f2GuardedAt(c, v, ci, func(v ssa.Value, blk *ssa.BasicBlock) bool {
				ex, ok := v.(*ssa.Extract)
				if !ok {
					return false
				}
				for _, u := range core.Referrers(ex.Tuple) {
					if e2, ok := u.(*ssa.Extract); ok && e2.Index != ex.Index && types.Identical(e2.Type(), types.Universe.Lookup("error").Type()) {
						for _, u2 := range core.Referrers(e2) {
							if bo, ok := u2.(*ssa.BinOp); ok && (core.IsNilConst(bo.X) || core.IsNilConst(bo.Y)) {
								if falseEdgeDominates(bo, blk, bo.Op == token.EQL) {
									return true
								}
							}
						}
					}
				}
				return false
			}, 0)
			c.Check(okErr, "R20c", key+" after error test", core.InstrPos(ci), "Export is reached only when the run error is nil", "the result value is used although the run error was not found nil (thrown exceptions must be reported as errors)")
		}
	}
	if !found {
		c.Unresolved("R20c", "Export call", "no goja Value.Export call found")
	}
}

// falseEdgeDominates: cond (a bool value) is the condition of an If whose false successor (true successor if
// wantTrue) dominates block b and is not also reachable by the other edge.
func falseEdgeDominates(cond ssa.Value, b *ssa.BasicBlock, wantTrue bool) bool {
	for _, u := range core.Referrers(cond) {
		switch x := u.(type) {
		case *ssa.If:
			idx := 1
			if wantTrue {
				idx = 0
			}
			s := x.Block().Succs[idx]
			if x.Block().Succs[0] == x.Block().Succs[1] {
				continue
			}
			if len(s.Preds) == 1 && s.Dominates(b) {
				return true
			}
		case *ssa.UnOp:
			if x.Op == token.NOT && falseEdgeDominates(x, b, !wantTrue) {
				return true
			}
		}
	}
	return false
}

// c20Pairing: in the function that pairs variadic args into the VM argument map.
func c20Pairing(c *core.Ctx, fns []*ssa.Function) {
	found := false
	for _, f := range fns {
		var firstUpdate *ssa.MapUpdate
		var pairedParam *ssa.Parameter
		var nameAsserts []*ssa.TypeAssert
		for _, b := range f.Blocks {
			for _, in := range b.Instrs {
				if mu, ok := in.(*ssa.MapUpdate); ok {
					// key derived from a type assertion of an element of a []interface{} parameter
					kv := mu.Key
					if ex, ok := kv.(*ssa.Extract); ok {
						kv = ex.Tuple
					}
					if ta, ok := kv.(*ssa.TypeAssert); ok && fromVariadicParam(ta.X, f) {
						if firstUpdate == nil {
							firstUpdate = mu
							pairedParam = ta.X.(*ssa.UnOp).X.(*ssa.IndexAddr).X.(*ssa.Parameter)
						}
						nameAsserts = append(nameAsserts, ta)
					}
				}
			}
		}
		if firstUpdate == nil {
			continue
		}
		found = true
		key := core.FuncKey(f)
		// odd-length test on the paired slice: in this function before the first pairing, or — when the pairing loop was
		// extracted into a helper that receives the slice — at every call site of the helper, on the argument, before the call
		okOdd := f2GuardedAt(c, pairedParam, firstUpdate, c20OddLenRejected, 0)
		c.Check(okOdd, "R20d", key+" odd argument count", core.InstrPos(firstUpdate), "an odd number of arguments is rejected before the pairing loop", "the pairing loop is reachable with an odd number of arguments: the last name is silently dropped or mis-paired")
		for _, ta := range nameAsserts {
			c.Check(ta.CommaOk, "R20d", key+" name assertion", core.InstrPos(ta), "argument name assertion is comma-ok", "unchecked type assertion on an argument name: a non-string name panics inside Read")
		}
	}
	if !found {
		c.Unresolved("R20d", "argument pairing function", "no function pairs variadic arguments into a name->value map")
	}
}

// c20OddLenRejected: the function of block blk tests len(v)%2 against 0, the even outcome is the only way into a block
// that dominates blk, and the odd outcome returns a non-nil error.
func c20OddLenRejected(v ssa.Value, blk *ssa.BasicBlock) bool {
	for _, b := range blk.Parent().Blocks {
		ifi, ok := b.Instrs[len(b.Instrs)-1].(*ssa.If)
		if !ok {
			continue
		}
		bo, ok := ifi.Cond.(*ssa.BinOp)
		if !ok || !(bo.Op == token.NEQ || bo.Op == token.EQL) {
			continue
		}
		cmp, ok := bo.Y.(*ssa.Const)
		if !ok || cmp.Value == nil || (cmp.Value.ExactString() != "0" && cmp.Value.ExactString() != "1") {
			continue
		}
		rem, ok := bo.X.(*ssa.BinOp)
		if !ok || rem.Op != token.REM {
			continue
		}
		if two, ok := rem.Y.(*ssa.Const); !ok || two.Value == nil || two.Value.ExactString() != "2" {
			continue
		}
		call, ok := rem.X.(*ssa.Call)
		if !ok {
			continue
		}
		if bi, ok := call.Call.Value.(*ssa.Builtin); !ok || bi.Name() != "len" || core.Unwrap(call.Call.Args[0], false) != v {
			continue
		}
		// which successor is taken for an even length
		contIdx := 1 // len%2 != 0, len%2 == 1: even continues on the false edge
		if (bo.Op == token.EQL) == (cmp.Value.ExactString() == "0") {
			contIdx = 0 // len%2 == 0, len%2 != 1
		}
		cont := b.Succs[contIdx]
		other := b.Succs[1-contIdx]
		if cont != other && cont.Dominates(blk) && len(cont.Preds) == 1 && returnsNonNilError(other) {
			return true
		}
	}
	return false
}

func fromVariadicParam(v ssa.Value, f *ssa.Function) bool {
	u, ok := v.(*ssa.UnOp)
	if !ok || u.Op != token.MUL {
		return false
	}
	ia, ok := u.X.(*ssa.IndexAddr)
	if !ok {
		return false
	}
	p, ok := ia.X.(*ssa.Parameter)
	return ok && p.Parent() == f
}

func returnsNonNilError(b *ssa.BasicBlock) bool {
	rt, ok := b.Instrs[len(b.Instrs)-1].(*ssa.Return)
	if !ok || len(rt.Results) == 0 {
		return false
	}
	last := rt.Results[len(rt.Results)-1]
	return types.Identical(last.Type(), types.Universe.Lookup("error").Type()) && !core.IsNilConst(last)
}

// c20IsGetResult: v is the result of sync.Pool.Get (possibly nil on other paths), directly, through a local cell, or as
// a result of a repository helper whose corresponding return values are Get results or nil.
func c20IsGetResult(v ssa.Value, f *ssa.Function, d int) bool {
	if d > 4 || v == nil {
		return false
	}
	if core.IsNilConst(v) {
		return true
	}
	switch x := v.(type) {
	case *ssa.Call:
		return poolGetCall(x)
	case *ssa.Phi:
		for _, e := range x.Edges {
			if !c20IsGetResult(core.Unwrap(e, true), f, d+1) {
				return false
			}
		}
		return true
	case *ssa.UnOp:
		if x.Op == token.MUL {
			if a, ok := x.X.(*ssa.Alloc); ok {
				sts := storesToCell(a)
				if len(sts) == 0 {
					return false
				}
				for _, st := range sts {
					if !c20IsGetResult(core.Unwrap(st.Val, true), f, d+1) {
						return false
					}
				}
				return true
			}
		}
	case *ssa.Extract:
		call, ok := x.Tuple.(*ssa.Call)
		if !ok {
			return false
		}
		cf := call.Call.StaticCallee()
		if cf == nil || cf.Blocks == nil || !core.InRepo(core.FuncPkg(cf)) {
			return false
		}
		for _, b := range cf.Blocks {
			for _, in := range b.Instrs {
				if rt, ok := in.(*ssa.Return); ok && x.Index < len(rt.Results) {
					if !c20IsGetResult(core.Unwrap(rt.Results[x.Index], true), cf, d+1) {
						return false
					}
				}
			}
		}
		return true
	}
	return false
}
