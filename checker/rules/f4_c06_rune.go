package rules

// R06b support: where does the rune stored into csv.Reader.Comma come from?
//
// The rule wants "the delimiter handed to the decoder is []rune(s)[0] / utf8.DecodeRuneInString(s) of the declared
// delimiter". The rune need not be computed in the statement that stores it: it may travel through an options struct
// (a local, a parameter passed by value or by pointer, a result), through helper functions and their parameters /
// results, and through local variables. c06RuneOrigins walks BACKWARDS from the stored value through such
// value-preserving conveyance steps only and returns the expressions the rune is computed by (the leaves); the rule
// then applies its shape test to every leaf. Anything the walk does not understand is a leaf itself (so the shape
// test fails on it) or a failure - never a silent pass.
//
// Struct fields: a field of a non-escaping local is resolved by the stores of that function into that local (at least
// one of them must dominate the load, otherwise the zero value is a possible origin); every other object is resolved
// field-based: every store in the repository into that field (types.Var identity) and every by-value copy of the
// owning struct type.

import (
	"fmt"
	"go/token"
	"go/types"

	"golang.org/x/tools/go/ssa"

	"omnilint/core"
)

type f4RuneTrace struct {
	prov   *c08Prov
	e      *ecEngine // error-class engine (nil when its roles do not resolve: then no return is ever skipped)
	seen   map[string]bool
	leaves []ssa.Value
	fail   string
}

// c06RuneOrigins returns the expressions that compute the value v consumed by instruction at (see the file
// comment); why != "" when the walk had to give up.
//
// `at` is the instruction of the function currently walked that consumes the value (the store into the decoder, a
// return, a call passing it on; nil: unknown). It serves one purpose: the result `T` of a `(T, error)` helper is
// not consumed on the helper's failure returns when the consumer is dominated by the `err == nil` edge of that
// very call, so the (zero) value returned next to a non-nil error is not an origin.
func c06RuneOrigins(prov *c08Prov, v ssa.Value, at ssa.Instruction) (leaves []ssa.Value, why string) {
	t := &f4RuneTrace{prov: prov, seen: map[string]bool{}}
	if r := ecResolve(prov.c, "R06b"); r.ok {
		t.e = ecNewEngine(r)
	}
	t.val(v, nil, at, 0)
	return t.leaves, t.fail
}

// c06DelimiterRune: every expression the rune stored by w is computed by is the first rune of the declared delimiter.
func c06DelimiterRune(prov *c08Prov, w core.WriteSite) (bool, string) {
	leaves, why := c06RuneOrigins(prov, w.Val, w.Instr)
	if why != "" {
		return false, why
	}
	if len(leaves) == 0 {
		return false, "the value has no origin"
	}
	for _, l := range leaves {
		if ok, why := c06FirstRuneOfDelimiter(prov, l); !ok {
			return false, why
		}
	}
	return true, ""
}

func (t *f4RuneTrace) failf(format string, a ...interface{}) {
	if t.fail == "" {
		t.fail = fmt.Sprintf(format, a...)
	}
}

// val: the part `path` (struct fields only) of value v; for a pointer-typed v the path applies to the pointee.
func (t *f4RuneTrace) val(v ssa.Value, path []c08Sel, at ssa.Instruction, depth int) {
	if t.fail != "" {
		return
	}
	key := fmt.Sprintf("%p|%s|%p", v, c08PathKey(path), at)
	if t.seen[key] {
		return
	}
	t.seen[key] = true
	if depth > 32 || len(path) > 6 || len(t.seen) > 4000 {
		t.failf("the origin of the value is too deep to follow")
		return
	}
	leaf := func() {
		if len(path) == 0 {
			t.leaves = append(t.leaves, v)
		} else {
			t.failf("field %s of a value the analysis cannot look into (%s)", c08PathString(path), c08Describe(v))
		}
	}
	switch x := v.(type) {
	case *ssa.Phi:
		for _, e := range x.Edges {
			t.val(e, path, at, depth+1)
		}
	case *ssa.ChangeType:
		t.val(x.X, path, at, depth+1)
	case *ssa.Convert:
		if types.Identical(x.Type().Underlying(), x.X.Type().Underlying()) {
			t.val(x.X, path, at, depth+1)
			return
		}
		leaf()
	case *ssa.Field:
		t.val(x.X, c08Prepend(c08Sel{F: core.FieldOfField(x)}, path), at, depth+1)
	case *ssa.Extract:
		if call, ok := x.Tuple.(*ssa.Call); ok {
			t.result(v, call, x.Index, path, at, depth)
			return
		}
		leaf()
	case *ssa.Call:
		t.result(v, x, 0, path, at, depth)
	case *ssa.Parameter:
		t.param(x, path, depth)
	case *ssa.Alloc:
		t.object(x, nil, path, at, depth)
	case *ssa.UnOp:
		if x.Op != token.MUL {
			leaf()
			return
		}
		chain, root := c08AddrChain(x.X)
		for _, s := range chain {
			if s.F == nil {
				leaf() // an element of something: an expression for the shape test ([]rune(s)[0])
				return
			}
		}
		if _, isGlobal := root.(*ssa.Global); isGlobal {
			leaf()
			return
		}
		t.object(root, x, c08Concat(chain, path), at, depth)
	default:
		leaf()
	}
}

func (t *f4RuneTrace) result(v ssa.Value, call *ssa.Call, idx int, path []c08Sel, at ssa.Instruction, depth int) {
	cf := c08RepoCallee(call)
	if cf == nil || cf.Blocks == nil {
		if len(path) == 0 {
			t.leaves = append(t.leaves, v)
		} else {
			t.failf("field %s of the result of %s", c08PathString(path), c08CalleeName(call))
		}
		return
	}
	// failure returns of a (T, error) helper whose error the consumer has tested
	errIdx := -1
	if ix := ecErrResultIdx(cf.Signature); len(ix) == 1 && ix[0] != idx {
		errIdx = ix[0]
	}
	guarded := false
	if t.e != nil && errIdx >= 0 && at != nil && at.Parent() == call.Parent() && f4Before(call, at) {
		if ev := ecErrValueOf(call, errIdx); ev != nil {
			for _, f := range t.e.factsAt(ecPoint{B: at.Block()}) {
				if f.Kind == "nil" && f.Pos && f.V == ecUnwrapIface(ev) {
					guarded = true
				}
			}
		}
	}
	n := 0
	for _, rt := range ecReturns(cf) {
		if idx >= len(rt.Results) {
			continue
		}
		if guarded && errIdx < len(rt.Results) && ecDefinitelyNonNil(t.e.classAt(rt.Results[errIdx], ecPointOf(rt))) {
			continue // the consumer never sees this result
		}
		n++
		t.val(rt.Results[idx], path, rt, depth+1)
	}
	if n == 0 {
		t.failf("%s never returns a value the consumer uses", c08FuncName(cf))
	}
}

func (t *f4RuneTrace) param(x *ssa.Parameter, path []c08Sel, depth int) {
	if c08IsPointer(x.Type()) && len(path) > 0 {
		t.fieldBased(path, depth)
		return
	}
	fn := x.Parent()
	idx := c08ParamIndex(x)
	cs := t.prov.callers[fn]
	if idx < 0 || len(cs) == 0 || fn.Parent() != nil {
		t.failf("parameter %s of %s has no static call site", x.Name(), c08FuncName(fn))
		return
	}
	for _, call := range cs {
		if idx >= len(call.Call.Args) {
			t.failf("call of %s without argument %d", c08FuncName(fn), idx)
			return
		}
		t.val(call.Call.Args[idx], path, call, depth+1)
	}
}

// object: the part `path` of the object root points to; load is the reading instruction (nil: unknown place).
func (t *f4RuneTrace) object(root ssa.Value, load ssa.Instruction, path []c08Sel, at ssa.Instruction, depth int) {
	al, ok := root.(*ssa.Alloc)
	if !ok || al.Heap {
		if len(path) == 0 {
			t.failf("a variable the analysis cannot follow (%s)", c08Describe(root))
			return
		}
		t.fieldBased(path, depth)
		return
	}
	name := c08Describe(root)
	if al.Comment != "" {
		name = "the local variable " + al.Comment
	}
	found, dominated := false, false
	for _, i := range t.prov.byRoot[al] {
		s := t.prov.stores[i]
		if len(s.valPre) > 0 {
			continue
		}
		rest, ok := c08Match(s.chain, path)
		if !ok {
			continue
		}
		found = true
		if st, isStore := f4StoreInstr(al, s); isStore && load != nil && f4Before(st, load) {
			dominated = true
		}
		t.val(s.val, rest, at, depth+1)
	}
	switch {
	case !found:
		t.failf("the value is read from %s which is never set (zero value)", name)
	case load != nil && !dominated:
		t.failf("the value is read from %s which is not set on every path to the read (zero value)", name)
	}
}

// f4StoreInstr finds the store instruction of a c08Store record rooted at al.
func f4StoreInstr(al *ssa.Alloc, s c08Store) (*ssa.Store, bool) {
	for _, b := range s.fn.Blocks {
		for _, in := range b.Instrs {
			st, ok := in.(*ssa.Store)
			if !ok || st.Val != s.val {
				continue
			}
			if ch, root := c08AddrChain(st.Addr); root == ssa.Value(al) && c08PathKey(ch) == c08PathKey(s.chain) {
				return st, true
			}
		}
	}
	return nil, false
}

// f4Before: instruction a is executed before b on every path that reaches b.
func f4Before(a, b ssa.Instruction) bool {
	if a.Block() != b.Block() {
		return a.Block().Dominates(b.Block())
	}
	for _, in := range a.Block().Instrs {
		if in == a {
			return true
		}
		if in == b {
			return false
		}
	}
	return false
}

// fieldBased: the last field f of the path, of whatever object: every store into f in the repository, and the
// field f of every struct value of the owning type that is copied as a whole.
func (t *f4RuneTrace) fieldBased(path []c08Sel, depth int) {
	f := path[len(path)-1].F
	if f == nil {
		t.failf("not a struct field")
		return
	}
	key := fmt.Sprintf("field|%p", f)
	if t.seen[key] {
		return
	}
	t.seen[key] = true
	var owner types.Type
	found := false
	for _, s := range t.prov.stores {
		if n := len(s.chain); n > 0 && s.chain[n-1].F == f && len(s.valPre) == 0 {
			found = true
			t.val(s.val, nil, nil, depth+1)
		}
	}
	// the struct type that declares f
	for _, s := range t.prov.stores {
		if st, ok := s.val.Type().Underlying().(*types.Struct); ok && len(s.valPre) == 0 {
			for i := 0; i < st.NumFields(); i++ {
				if st.Field(i) == f {
					owner = s.val.Type()
				}
			}
		}
	}
	if owner != nil {
		for _, s := range t.prov.stores {
			if len(s.valPre) == 0 && types.Identical(s.val.Type(), owner) {
				found = true
				t.val(s.val, []c08Sel{{F: f}}, nil, depth+1)
			}
		}
	}
	if !found {
		t.failf("field %s is never stored", f.Name())
	}
}
