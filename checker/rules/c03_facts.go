package rules

// C03 helper: symbolic terms over SSA values, branch facts (atoms) that dominate an instruction,
// predicate summaries of small boolean functions, and an interprocedural goal prover ("the callers
// establish this fact about the argument"). Everything is derived from go/ssa and the VTA call graph.

import (
	"fmt"
	"go/constant"
	"go/token"
	"go/types"
	"math"
	"sort"
	"strings"

	"golang.org/x/tools/go/ssa"

	"omnilint/core"
)

// ---------------------------------------------------------------- terms

type c03term struct {
	op   string // param free alloc global const field local gload cell deref index len call invoke lookup found extract conv assert assertok bin un
	idx  int
	name string
	fld  *types.Var
	typ  types.Type
	vt   types.Type // static type of param/val/free terms (not part of the identity)
	v    ssa.Value  // the SSA value of a val term (not part of the identity)
	args []*c03term
	str  string
}

func (t *c03term) String() string {
	if t == nil {
		return "<?>"
	}
	if t.str != "" {
		return t.str
	}
	var sb strings.Builder
	sb.WriteString(t.op)
	switch t.op {
	case "param", "free", "extract":
		fmt.Fprintf(&sb, "%d", t.idx)
	}
	if t.name != "" {
		sb.WriteString(":" + t.name)
	}
	if t.fld != nil {
		sb.WriteString("." + t.fld.Name())
		if t.fld.Pkg() != nil {
			sb.WriteString("@" + fmt.Sprintf("%p", t.fld))
		}
	}
	if t.typ != nil {
		sb.WriteString("<" + types.TypeString(t.typ, nil) + ">")
	}
	if len(t.args) > 0 {
		sb.WriteString("(")
		for i, a := range t.args {
			if i > 0 {
				sb.WriteString(",")
			}
			sb.WriteString(a.String())
		}
		sb.WriteString(")")
	}
	t.str = sb.String()
	return t.str
}

// pretty renders a term for humans (no pointer identities).
func (t *c03term) pretty() string {
	if t == nil {
		return "?"
	}
	switch t.op {
	case "param":
		return "p" + fmt.Sprint(t.idx)
	case "field":
		return t.args[0].pretty() + "." + t.fld.Name()
	case "len":
		return "len(" + t.args[0].pretty() + ")"
	case "const":
		return t.name
	case "call", "invoke":
		var as []string
		for _, a := range t.args {
			as = append(as, a.pretty())
		}
		return c03shortName(t.name) + "(" + strings.Join(as, ",") + ")"
	case "val", "alloc", "local", "cell", "free":
		return "_"
	case "index":
		return t.args[0].pretty() + "[" + t.args[1].pretty() + "]"
	case "bin":
		return t.args[0].pretty() + t.name + t.args[1].pretty()
	case "lookup":
		return t.args[0].pretty() + "[" + t.args[1].pretty() + "]"
	case "assert":
		return t.args[0].pretty() + ".(" + types.TypeString(t.typ, func(p *types.Package) string { return p.Name() }) + ")"
	case "none":
		return ""
	case "slice":
		return t.args[0].pretty() + "[" + t.args[1].pretty() + ":" + t.args[2].pretty() + "]"
	}
	var as []string
	for _, a := range t.args {
		as = append(as, a.pretty())
	}
	s := t.op
	if t.name != "" {
		s += ":" + t.name
	}
	if t.typ != nil {
		s += "<" + types.TypeString(t.typ, func(p *types.Package) string { return p.Name() }) + ">"
	}
	if len(as) > 0 {
		s += "(" + strings.Join(as, ",") + ")"
	}
	return s
}

// c03shortName strips import paths from a function name: "(*a/b/c.T).M" -> "(*c.T).M".
func c03shortName(n string) string {
	pre := ""
	for strings.HasPrefix(n, "(") || strings.HasPrefix(n, "*") {
		pre += n[:1]
		n = n[1:]
	}
	if i := strings.LastIndex(n, "/"); i >= 0 {
		n = n[i+1:]
	}
	return pre + n
}

func c03eq(a, b *c03term) bool { return a != nil && b != nil && a.String() == b.String() }

// walk visits all subterms.
func (t *c03term) walk(f func(*c03term)) {
	if t == nil {
		return
	}
	f(t)
	for _, a := range t.args {
		a.walk(f)
	}
}

// paramRooted: the term depends only on parameters, constants and memory reachable from them (fields,
// indexes, derefs, globals), i.e. it can be re-expressed in a caller's frame.
func (t *c03term) paramRooted() bool {
	ok := true
	t.walk(func(s *c03term) {
		switch s.op {
		case "free", "alloc", "local", "cell", "val":
			ok = false
		}
	})
	return ok
}

// c03norm rewrites reflect.TypeOf(x).Kind() to reflect.ValueOf(x).Kind() (equal for every x).
func c03norm(t *c03term) *c03term {
	if t != nil && t.op == "invoke" && t.name == "(reflect.Type).Kind" && len(t.args) == 1 && t.args[0].op == "call" && t.args[0].name == "reflect.TypeOf" {
		return &c03term{op: "call", name: "(reflect.Value).Kind", args: []*c03term{{op: "call", name: "reflect.ValueOf", args: t.args[0].args}}}
	}
	return t
}

func (t *c03term) subst(args []*c03term) *c03term {
	if t == nil {
		return nil
	}
	if t.op == "param" {
		if t.idx < len(args) {
			return args[t.idx]
		}
		return nil
	}
	n := &c03term{op: t.op, idx: t.idx, name: t.name, fld: t.fld, typ: t.typ, vt: t.vt, v: t.v}
	for _, a := range t.args {
		s := a.subst(args)
		if s == nil {
			return nil
		}
		n.args = append(n.args, s)
	}
	return c03norm(n)
}

// memFields lists the struct fields / globals / locals the term reads from memory.
func (t *c03term) memFields() (flds []*types.Var, other []string) {
	t.walk(func(s *c03term) {
		switch s.op {
		case "field":
			flds = append(flds, s.fld)
		case "gload", "local", "cell", "deref", "index", "lookup":
			other = append(other, s.op+":"+s.name)
		}
	})
	return
}

func c03constTerm(c *ssa.Const) *c03term {
	if c.Value == nil {
		return &c03term{op: "const", name: "nil"}
	}
	return &c03term{op: "const", name: c.Value.ExactString()}
}

func c03paramIndex(p *ssa.Parameter) int {
	for i, q := range p.Parent().Params {
		if q == p {
			return i
		}
	}
	return -1
}

func c03calleeKey(f *ssa.Function) string {
	if f == nil {
		return ""
	}
	return f.String()
}

// termOf converts an SSA value into a symbolic term (nil when not representable).
func (e *c03eng) termOf(v ssa.Value) *c03term { return e.termOfD(v, 0) }

func (e *c03eng) termOfD(v ssa.Value, d int) *c03term {
	if v == nil {
		return nil
	}
	if d <= 12 {
		if t := e.termStruct(v, d); t != nil {
			return t
		}
	}
	// fallback: the SSA value itself (immutable, so identity is a sound notion of equality)
	name := v.Name()
	if p := c03parentOf(v); p != nil {
		name = p.String() + "#" + name
	}
	return &c03term{op: "val", name: name, vt: v.Type(), v: v}
}

func c03parentOf(v ssa.Value) *ssa.Function {
	if in, ok := v.(ssa.Instruction); ok {
		return in.Parent()
	}
	return nil
}

// addrBase: the term of the object an address is taken in. `&x.inner` (an embedded or nested struct held by value)
// is the struct x.inner itself, so that x.inner.f reads as field(f, field(inner, x)) wherever the address is
// recomputed (go/ssa has no CSE).
func (e *c03eng) addrBase(v ssa.Value, d int) *c03term {
	if fa, ok := v.(*ssa.FieldAddr); ok && d <= 12 {
		b := e.addrBase(fa.X, d+1)
		if b == nil {
			return nil
		}
		return &c03term{op: "field", fld: core.FieldOfAddr(fa), args: []*c03term{b}}
	}
	return e.termOfD(v, d)
}

// c03getter: f is a trivial accessor — one block, no calls, returning a term over its parameters (a field of the
// receiver, possibly through embedded structs). Its call reads as that term.
func (e *c03eng) getter(f *ssa.Function) *c03term {
	if t, ok := e.getters[f]; ok {
		return t
	}
	e.getters[f] = nil
	if f.Blocks == nil || len(f.Blocks) != 1 || f.Signature.Results().Len() != 1 {
		return nil
	}
	if p := core.FuncPkg(f); p == nil || !core.InRepo(p) {
		return nil
	}
	b := f.Blocks[0]
	for _, in := range b.Instrs {
		switch y := in.(type) {
		case *ssa.FieldAddr, *ssa.Field, *ssa.UnOp, *ssa.Return, *ssa.DebugRef:
		case *ssa.Call:
			if bi, ok := y.Call.Value.(*ssa.Builtin); !ok || bi.Name() != "len" {
				return nil
			}
		default:
			return nil
		}
	}
	rt, ok := b.Instrs[len(b.Instrs)-1].(*ssa.Return)
	if !ok {
		return nil
	}
	t := e.termOf(rt.Results[0])
	if t == nil || !t.paramRooted() || (t.op != "field" && t.op != "deref" && t.op != "len") {
		return nil
	}
	e.getters[f] = t
	return t
}

// termStruct builds a structural term; nil if the value has no structural representation.
func (e *c03eng) termStruct(v ssa.Value, d int) *c03term {
	sub := func(x ssa.Value) *c03term { return e.termOfD(x, d+1) }
	switch x := v.(type) {
	case *ssa.Parameter:
		return &c03term{op: "param", idx: c03paramIndex(x), vt: x.Type()}
	case *ssa.FreeVar:
		for i, fv := range x.Parent().FreeVars {
			if fv == x {
				return &c03term{op: "free", idx: i}
			}
		}
		return nil
	case *ssa.Alloc:
		return &c03term{op: "alloc", name: x.Parent().String() + "." + x.Name()}
	case *ssa.Global:
		return &c03term{op: "global", name: x.String()}
	case *ssa.Const:
		return c03constTerm(x)
	case *ssa.Field:
		b := sub(x.X)
		if b == nil {
			return nil
		}
		return &c03term{op: "field", fld: core.FieldOfField(x), args: []*c03term{b}}
	case *ssa.UnOp:
		switch x.Op {
		case token.MUL:
			switch a := x.X.(type) {
			case *ssa.FieldAddr:
				b := e.addrBase(a.X, d+1)
				if b == nil {
					return nil
				}
				return e.epochLoad(&c03term{op: "field", fld: core.FieldOfAddr(a), args: []*c03term{b}}, x)
			case *ssa.Alloc:
				if sv := e.reachingStore(x, a); sv != nil {
					return sub(sv)
				}
				return &c03term{op: "local", name: a.Parent().String() + "." + a.Name()}
			case *ssa.Global:
				return &c03term{op: "gload", name: a.String()}
			case *ssa.FreeVar:
				for i, fv := range a.Parent().FreeVars {
					if fv == a {
						return &c03term{op: "cell", idx: i, name: fmt.Sprint(i)}
					}
				}
				return nil
			case *ssa.IndexAddr:
				b, i := sub(a.X), sub(a.Index)
				if b == nil || i == nil {
					return nil
				}
				return &c03term{op: "index", args: []*c03term{b, i}}
			default:
				b := sub(x.X)
				if b == nil {
					return nil
				}
				return &c03term{op: "deref", args: []*c03term{b}}
			}
		case token.NOT, token.SUB, token.XOR:
			b := sub(x.X)
			if b == nil {
				return nil
			}
			return &c03term{op: "un", name: x.Op.String(), args: []*c03term{b}}
		}
		return nil
	case *ssa.BinOp:
		a, b := sub(x.X), sub(x.Y)
		if a == nil || b == nil {
			return nil
		}
		return &c03term{op: "bin", name: x.Op.String(), vt: x.Type(), args: []*c03term{a, b}}
	case *ssa.Slice:
		// s[lo:hi] of a slice or string (not of an array pointer, whose length is a property of the type). Only built
		// while a stored value is being evaluated (f1_c03.go); everywhere else a slice stays an opaque value.
		if e.epoch == nil {
			return nil
		}
		switch x.X.Type().Underlying().(type) {
		case *types.Slice, *types.Basic:
		default:
			return nil
		}
		if x.Max != nil {
			return nil
		}
		parts := []*c03term{sub(x.X), {op: "none"}, {op: "none"}}
		if x.Low != nil {
			parts[1] = sub(x.Low)
		}
		if x.High != nil {
			parts[2] = sub(x.High)
		}
		for _, pt := range parts {
			if pt == nil {
				return nil
			}
		}
		return &c03term{op: "slice", args: parts}
	case *ssa.Call:
		cc := x.Common()
		if b, ok := cc.Value.(*ssa.Builtin); ok {
			if b.Name() == "len" && len(cc.Args) == 1 {
				a := sub(cc.Args[0])
				if a == nil {
					return nil
				}
				return &c03term{op: "len", args: []*c03term{a}}
			}
			return nil
		}
		var args []*c03term
		name := ""
		op := "call"
		if !e.pureCall(cc) {
			return nil
		}
		if cc.IsInvoke() {
			op = "invoke"
			name = cc.Method.FullName()
			r := sub(cc.Value)
			if r == nil {
				return nil
			}
			args = append(args, r)
		} else if f := cc.StaticCallee(); f != nil {
			name = c03calleeKey(f)
			if _, isClosure := cc.Value.(*ssa.MakeClosure); isClosure {
				return nil
			}
			if gt := e.getter(f); gt != nil {
				var as []*c03term
				for _, a := range cc.Args {
					as = append(as, e.addrBase(a, d+1))
				}
				if t := gt.subst(as); t != nil {
					return e.epochRead(t, x)
				}
			}
		} else {
			return nil
		}
		for _, a := range cc.Args {
			t := sub(a)
			if t == nil {
				return nil
			}
			args = append(args, t)
		}
		return c03norm(&c03term{op: op, name: name, args: args})
	case *ssa.Extract:
		switch tu := x.Tuple.(type) {
		case *ssa.Lookup:
			lt := sub(tu)
			if lt == nil {
				return nil
			}
			if x.Index == 0 {
				return lt
			}
			return &c03term{op: "found", args: []*c03term{lt}}
		case *ssa.TypeAssert:
			b := sub(tu.X)
			if b == nil {
				return nil
			}
			if x.Index == 0 {
				return &c03term{op: "assert", typ: tu.AssertedType, args: []*c03term{b}}
			}
			return &c03term{op: "assertok", typ: tu.AssertedType, args: []*c03term{b}}
		case *ssa.Call:
			ct := sub(tu)
			if ct == nil {
				return nil
			}
			return &c03term{op: "extract", idx: x.Index, args: []*c03term{ct}}
		}
		return nil
	case *ssa.Lookup:
		m, k := sub(x.X), sub(x.Index)
		if m == nil || k == nil {
			return nil
		}
		return &c03term{op: "lookup", args: []*c03term{m, k}}
	case *ssa.MakeInterface:
		return sub(x.X)
	case *ssa.ChangeType:
		return sub(x.X)
	case *ssa.ChangeInterface:
		return sub(x.X)
	case *ssa.Convert:
		b := sub(x.X)
		if b == nil {
			return nil
		}
		return &c03term{op: "conv", name: types.TypeString(x.Type(), nil), args: []*c03term{b}}
	case *ssa.TypeAssert:
		if x.CommaOk {
			return nil
		}
		b := sub(x.X)
		if b == nil {
			return nil
		}
		return &c03term{op: "assert", typ: x.AssertedType, args: []*c03term{b}}
	case *ssa.Phi:
		// a phi whose incoming values are all the same term (under a call-site binding: the incoming values of the
		// edges that are feasible for the bound arguments)
		var first *c03term
		for i, ed := range x.Edges {
			if ed == v {
				continue
			}
			if e.bind != nil && e.bind.fn == x.Parent() && e.edgeInfeasible(x, i) {
				continue
			}
			t := sub(ed)
			if t == nil {
				return nil
			}
			if first == nil {
				first = t
			} else if !c03eq(first, t) {
				return nil
			}
		}
		return first
	}
	return nil
}

// reachingStore: the unique store to a local cell that reaches the load (walking back through single-predecessor
// blocks), provided the cell's address does not escape and no closure capturing it stores to it.
func (e *c03eng) reachingStore(load *ssa.UnOp, al *ssa.Alloc) ssa.Value {
	for _, u := range core.Referrers(al) {
		switch y := u.(type) {
		case *ssa.Store:
			if y.Val == ssa.Value(al) {
				return nil
			}
		case *ssa.UnOp, *ssa.DebugRef:
		case *ssa.MakeClosure:
			fn, _ := y.Fn.(*ssa.Function)
			if fn == nil {
				return nil
			}
			for i, b := range y.Bindings {
				if b != ssa.Value(al) || i >= len(fn.FreeVars) {
					continue
				}
				for _, fu := range core.Referrers(fn.FreeVars[i]) {
					if st, ok := fu.(*ssa.Store); ok && st.Addr == ssa.Value(fn.FreeVars[i]) {
						return nil
					}
					if _, ok := fu.(*ssa.UnOp); !ok {
						if _, isDbg := fu.(*ssa.DebugRef); !isDbg {
							if _, isSt := fu.(*ssa.Store); !isSt {
								return nil
							}
						}
					}
				}
			}
		default:
			return nil
		}
	}
	b := load.Block()
	idx := core.InstrIndex(load) - 1
	for steps := 0; steps < 32; steps++ {
		for i := idx; i >= 0; i-- {
			if st, ok := b.Instrs[i].(*ssa.Store); ok && st.Addr == ssa.Value(al) {
				return st.Val
			}
		}
		if len(b.Preds) != 1 {
			return nil
		}
		b = b.Preds[0]
		idx = len(b.Instrs) - 1
	}
	return nil
}

// nonNilPtr: the pointer value is never nil (address-of, allocation, or a function all of whose returns are).
func (e *c03eng) nonNilPtr(v ssa.Value, depth int) bool {
	if depth > 4 {
		return false
	}
	switch y := v.(type) {
	case *ssa.Alloc, *ssa.FieldAddr, *ssa.IndexAddr, *ssa.MakeClosure, *ssa.Function, *ssa.Global:
		return true
	case *ssa.ChangeType:
		return e.nonNilPtr(y.X, depth)
	case *ssa.Phi:
		for _, ed := range y.Edges {
			if !e.nonNilPtr(ed, depth+1) {
				return false
			}
		}
		return len(y.Edges) > 0
	case *ssa.Call:
		f := y.Call.StaticCallee()
		if f == nil || f.Blocks == nil || f.Signature.Results().Len() != 1 {
			return false
		}
		n := 0
		for _, b := range f.Blocks {
			if rt, ok := b.Instrs[len(b.Instrs)-1].(*ssa.Return); ok {
				n++
				if !e.nonNilPtr(rt.Results[0], depth+1) {
					return false
				}
			}
		}
		return n > 0
	}
	return false
}

// nonNilOnAllPaths: for a load p = *(&base.f): on every path to the load either a dominating/edge condition says
// base.f != nil or the latest store to base.f stored a never-nil pointer.
func (e *c03eng) nonNilOnAllPaths(load *ssa.UnOp) (bool, string) {
	fa, ok := load.X.(*ssa.FieldAddr)
	if !ok {
		return false, ""
	}
	fld := core.FieldOfAddr(fa)
	t := e.termOf(load)
	set := map[*types.Var]bool{fld: true}
	implies := func(a c03atom) bool {
		return (a.kind == "nil" && !a.pos && c03eq(a.t, t)) || (a.kind == "type" && a.pos && c03eq(a.t, t))
	}
	stored := false
	seen := map[*ssa.BasicBlock]bool{}
	var walk func(b *ssa.BasicBlock, idx int, depth int) bool
	walk = func(b *ssa.BasicBlock, idx int, depth int) bool {
		if depth > 24 {
			return false
		}
		for i := idx; i >= 0; i-- {
			in := b.Instrs[i]
			if st, ok := in.(*ssa.Store); ok {
				if sfa, ok := st.Addr.(*ssa.FieldAddr); ok && core.FieldOfAddr(sfa) == fld {
					if c03eq(e.termOf(sfa.X), e.termOf(fa.X)) && e.nonNilPtr(st.Val, 0) {
						stored = true
						return true
					}
					return false
				}
			}
			if e.mayWrite(in, set) {
				return false
			}
		}
		if seen[b] {
			return false
		}
		seen[b] = true
		if len(b.Preds) == 0 {
			return false
		}
		for _, p := range b.Preds {
			if ifi, ok := p.Instrs[len(p.Instrs)-1].(*ssa.If); ok && len(p.Succs) == 2 && p.Succs[0] != p.Succs[1] {
				if a, ok := e.atomOf(ifi.Cond, p.Succs[0] == b); ok && implies(a) {
					continue
				}
			}
			if !walk(p, len(p.Instrs)-1, depth+1) {
				return false
			}
		}
		return true
	}
	if walk(load.Block(), core.InstrIndex(load)-1, 0) && stored {
		return true, "on every path the field is either tested != nil or was just assigned a never-nil pointer"
	}
	return false, ""
}

// pure callees: calls whose result depends only on their arguments and on memory reachable from them.
var c03purePkgs = map[string]bool{"reflect": true, "strings": true, "strconv": true, "unicode": true, "unicode/utf8": true, "math": true, "fmt": true,
	"github.com/jf-tech/go-corelib/strs": true, "github.com/jf-tech/go-corelib/maths": true, "errors": true}

func (e *c03eng) pureCall(cc *ssa.CallCommon) bool {
	if cc.IsInvoke() {
		if cc.Method.Pkg() != nil && cc.Method.Pkg().Path() == "reflect" {
			return true
		}
		// an interface method all of whose implementations in the repository are pure observers
		if cc.Method.Pkg() == nil || !core.InRepo(cc.Method.Pkg()) {
			return false
		}
		impls := e.implsOf(cc.Method)
		if len(impls) == 0 {
			return false
		}
		for _, f := range impls {
			if !e.pureFn(f) {
				return false
			}
		}
		return true
	}
	f := cc.StaticCallee()
	if f == nil {
		return false
	}
	return e.pureFn(f)
}

// implsOf: the repository methods implementing an interface method (by method sets of all repository named types).
func (e *c03eng) implsOf(m *types.Func) []*ssa.Function {
	if r, ok := e.impls[m]; ok {
		return r
	}
	var out []*ssa.Function
	sig := m.Type().(*types.Signature)
	iface, _ := sig.Recv().Type().Underlying().(*types.Interface)
	if iface != nil {
		for _, p := range e.c.Pkgs {
			sc := p.Types.Scope()
			for _, n := range sc.Names() {
				tn, ok := sc.Lookup(n).(*types.TypeName)
				if !ok || tn.IsAlias() {
					continue
				}
				if _, isI := tn.Type().Underlying().(*types.Interface); isI {
					continue
				}
				for _, t := range []types.Type{tn.Type(), types.NewPointer(tn.Type())} {
					if !types.Implements(t, iface) {
						continue
					}
					if sel := e.c.Prog.MethodSets.MethodSet(t).Lookup(m.Pkg(), m.Name()); sel != nil {
						if fn := e.c.Prog.MethodValue(sel); fn != nil {
							if fn.Synthetic != "" {
								if o, ok := sel.Obj().(*types.Func); ok {
									if d := e.c.Prog.FuncValue(o); d != nil {
										fn = d
									}
								}
							}
							out = append(out, fn)
						}
					}
					break
				}
			}
		}
	}
	e.impls[m] = out
	return out
}

func (e *c03eng) pureFn(f *ssa.Function) bool {
	if v, ok := e.pure[f]; ok {
		return v
	}
	p := core.FuncPkg(f)
	if p == nil {
		return false
	}
	if !core.InRepo(p) {
		return c03purePkgs[p.Path()]
	}
	e.pure[f] = false // recursion is not pure
	if f.Blocks == nil || len(e.writeSet(f)) > 0 {
		return false
	}
	for _, b := range f.Blocks {
		for _, in := range b.Instrs {
			switch x := in.(type) {
			case ssa.CallInstruction:
				cc := x.Common()
				if _, isB := cc.Value.(*ssa.Builtin); isB {
					continue
				}
				if _, isCall := in.(*ssa.Call); !isCall {
					return false
				}
				if !e.pureCall(cc) {
					return false
				}
			case *ssa.Store:
				if _, root := core.TraceAddr(x.Addr); root == nil {
					return false
				} else if _, isAlloc := root.(*ssa.Alloc); !isAlloc {
					return false
				}
			case *ssa.MapUpdate, *ssa.Send:
				return false
			}
		}
	}
	e.pure[f] = true
	return true
}

// ---------------------------------------------------------------- atoms

type c03atom struct {
	kind string // nil | cmp | eq | true | type | rel
	t    *c03term
	u    *c03term // rel: t op u
	pos  bool
	op   token.Token // cmp/rel (already normalised for polarity: pos is always true for cmp/rel)
	k    int64
	cst  string
	typ  types.Type
}

func (a c03atom) String() string {
	neg := ""
	if !a.pos {
		neg = "!"
	}
	switch a.kind {
	case "nil":
		return neg + "nil(" + a.t.String() + ")"
	case "cmp":
		return fmt.Sprintf("%s %s %d", a.t.String(), a.op, a.k)
	case "rel":
		return fmt.Sprintf("%s %s %s", a.t.String(), a.op, a.u.String())
	case "eq":
		return neg + "eq(" + a.t.String() + "," + a.cst + ")"
	case "true":
		return neg + a.t.String()
	case "type":
		return neg + "type(" + a.t.String() + "," + types.TypeString(a.typ, nil) + ")"
	}
	return "?"
}

func (a c03atom) pretty() string {
	neg := ""
	if !a.pos {
		neg = "!"
	}
	switch a.kind {
	case "nil":
		if a.pos {
			return a.t.pretty() + " == nil"
		}
		return a.t.pretty() + " != nil"
	case "cmp":
		return fmt.Sprintf("%s %s %d", a.t.pretty(), a.op, a.k)
	case "rel":
		return fmt.Sprintf("%s %s %s", a.t.pretty(), a.op, a.u.pretty())
	case "eq":
		return neg + "(" + a.t.pretty() + " == " + a.cst + ")"
	case "true":
		return neg + a.t.pretty()
	case "type":
		return neg + "(" + a.t.pretty() + " is " + types.TypeString(a.typ, func(p *types.Package) string { return p.Name() }) + ")"
	}
	return "?"
}

func (a c03atom) subst(args []*c03term) (c03atom, bool) {
	b := a
	b.t = a.t.subst(args)
	if b.t == nil {
		return b, false
	}
	if a.u != nil {
		b.u = a.u.subst(args)
		if b.u == nil {
			return b, false
		}
	}
	return c03normAtom(b), true
}

func (a c03atom) negate() c03atom {
	b := a
	switch a.kind {
	case "cmp", "rel":
		b.op = c03negOp(a.op)
	default:
		b.pos = !a.pos
	}
	return b
}

func (a c03atom) paramRooted() bool {
	return a.t.paramRooted() && (a.u == nil || a.u.paramRooted())
}

func c03negOp(op token.Token) token.Token {
	switch op {
	case token.EQL:
		return token.NEQ
	case token.NEQ:
		return token.EQL
	case token.LSS:
		return token.GEQ
	case token.GEQ:
		return token.LSS
	case token.GTR:
		return token.LEQ
	case token.LEQ:
		return token.GTR
	}
	return token.ILLEGAL
}

func c03flipOp(op token.Token) token.Token {
	switch op {
	case token.LSS:
		return token.GTR
	case token.GTR:
		return token.LSS
	case token.LEQ:
		return token.GEQ
	case token.GEQ:
		return token.LEQ
	}
	return op
}

func c03isCmp(op token.Token) bool {
	switch op {
	case token.EQL, token.NEQ, token.LSS, token.LEQ, token.GTR, token.GEQ:
		return true
	}
	return false
}

func c03intConst(v ssa.Value) (int64, bool) {
	c, ok := core.Unwrap(v, false).(*ssa.Const)
	if !ok || c.Value == nil {
		return 0, false
	}
	if c.Value.Kind() != constant.Int {
		return 0, false
	}
	if b, ok := c.Type().Underlying().(*types.Basic); !ok || b.Info()&types.IsInteger == 0 {
		return 0, false
	}
	if i, exact := constant.Int64Val(c.Value); exact {
		return i, true
	}
	if u, exact := constant.Uint64Val(c.Value); exact && u <= math.MaxInt64 {
		return int64(u), true
	}
	return 0, false
}

// atomOf turns a branch condition (with the polarity of the edge taken) into an atom.
func (e *c03eng) atomOf(cond ssa.Value, pol bool) (c03atom, bool) {
	switch x := cond.(type) {
	case *ssa.UnOp:
		if x.Op == token.NOT {
			return e.atomOf(x.X, !pol)
		}
		if x.Op == token.MUL {
			if t := e.termOf(x); t != nil {
				return c03atom{kind: "true", t: t, pos: pol}, true
			}
		}
	case *ssa.BinOp:
		if !c03isCmp(x.Op) {
			return c03atom{}, false
		}
		op := x.Op
		X, Y := x.X, x.Y
		if core.IsNilConst(X) || func() bool { _, ok := c03intConst(X); return ok }() {
			X, Y = Y, X
			op = c03flipOp(op)
		}
		if core.IsNilConst(Y) && (op == token.EQL || op == token.NEQ) {
			t := e.termOf(X)
			if t == nil {
				return c03atom{}, false
			}
			return c03atom{kind: "nil", t: t, pos: (op == token.EQL) == pol}, true
		}
		if k, ok := c03intConst(Y); ok {
			t := e.termOf(X)
			if t == nil {
				return c03atom{}, false
			}
			if !pol {
				op = c03negOp(op)
			}
			return c03normAtom(c03atom{kind: "cmp", t: t, op: op, k: k, pos: true}), true
		}
		if c, ok := core.Unwrap(Y, false).(*ssa.Const); ok && c.Value != nil && (op == token.EQL || op == token.NEQ) {
			t := e.termOf(X)
			if t == nil {
				return c03atom{}, false
			}
			return c03atom{kind: "eq", t: t, cst: c.Value.ExactString(), pos: (op == token.EQL) == pol}, true
		}
		if c, ok := core.Unwrap(X, false).(*ssa.Const); ok && c.Value != nil && (op == token.EQL || op == token.NEQ) {
			t := e.termOf(Y)
			if t == nil {
				return c03atom{}, false
			}
			return c03atom{kind: "eq", t: t, cst: c.Value.ExactString(), pos: (op == token.EQL) == pol}, true
		}
		// relation between two integer terms
		if b, ok := X.Type().Underlying().(*types.Basic); ok && b.Info()&types.IsInteger != 0 {
			t, u := e.termOf(X), e.termOf(Y)
			if t == nil || u == nil {
				return c03atom{}, false
			}
			if !pol {
				op = c03negOp(op)
			}
			return c03normAtom(c03atom{kind: "rel", t: t, u: u, op: op, pos: true}), true
		}
		return c03atom{}, false
	case *ssa.Call:
		t := e.termOf(x)
		if t == nil {
			return c03atom{}, false
		}
		return c03atom{kind: "true", t: t, pos: pol}, true
	case *ssa.Extract:
		if ta, ok := x.Tuple.(*ssa.TypeAssert); ok && x.Index == 1 {
			t := e.termOf(ta.X)
			if t == nil {
				return c03atom{}, false
			}
			return c03atom{kind: "type", t: t, typ: ta.AssertedType, pos: pol}, true
		}
		t := e.termOf(x)
		if t == nil {
			return c03atom{}, false
		}
		return c03atom{kind: "true", t: t, pos: pol}, true
	case *ssa.Parameter, *ssa.Field:
		t := e.termOf(cond)
		if t == nil {
			return c03atom{}, false
		}
		return c03atom{kind: "true", t: t, pos: pol}, true
	}
	return c03atom{}, false
}

// ---------------------------------------------------------------- facts

// c03clause is a disjunction of atoms established on entry to block `at` (and valid wherever `at` dominates).
type c03clause struct {
	atoms []c03atom
	at    *ssa.BasicBlock // nil for clauses imported from summaries
}

func (c c03clause) String() string {
	var s []string
	for _, a := range c.atoms {
		s = append(s, a.String())
	}
	sort.Strings(s)
	return strings.Join(s, " | ")
}

type c03eng struct {
	c       *core.Ctx
	reach   map[*ssa.Function]bool
	byKey   map[string]*ssa.Function
	sumT    map[*ssa.Function][]c03clause
	sumF    map[*ssa.Function][]c03clause
	sumBusy map[*ssa.Function]bool
	pure    map[*ssa.Function]bool
	getters map[*ssa.Function]*c03term
	impls   map[*types.Func][]*ssa.Function
	wr      map[*ssa.Function]map[*types.Var]bool // transitive field write sets
	wrBusy  map[*ssa.Function]bool
	callers map[*ssa.Function][]ssa.CallInstruction
	hook    func(g c03goal) (bool, string) // facts validated at load time (optional)
	bind    *c03bind                       // call-site binding under which phis are resolved (f1_c03.go)
	epoch   *c03epoch                      // a store after which loads of one field read the stored value (f1_c03.go)
	sumIdx  map[c03sumKey][2][]c03clause   // summaries of one boolean result of a multi-result function
}

func c03newEng(c *core.Ctx, reach map[*ssa.Function]bool) *c03eng {
	e := &c03eng{c: c, reach: reach, sumIdx: map[c03sumKey][2][]c03clause{}, byKey: map[string]*ssa.Function{}, sumT: map[*ssa.Function][]c03clause{}, sumF: map[*ssa.Function][]c03clause{},
		sumBusy: map[*ssa.Function]bool{}, pure: map[*ssa.Function]bool{}, getters: map[*ssa.Function]*c03term{}, impls: map[*types.Func][]*ssa.Function{}, wr: map[*ssa.Function]map[*types.Var]bool{}, wrBusy: map[*ssa.Function]bool{}, callers: map[*ssa.Function][]ssa.CallInstruction{}}
	for f := range c.AllFunctions() {
		if p := core.FuncPkg(f); p != nil && (core.InRepo(p) || strings.HasPrefix(p.Path(), "github.com/jf-tech/")) && f.Blocks != nil {
			e.byKey[c03calleeKey(f)] = f
		}
	}
	cg := c.CallGraph()
	for f, n := range cg.Nodes {
		if f == nil || !reach[f] {
			continue
		}
		for _, ed := range n.Out {
			if ed.Site == nil || ed.Callee.Func == nil {
				continue
			}
			e.callers[ed.Callee.Func] = append(e.callers[ed.Callee.Func], ed.Site)
		}
	}
	for f, cs := range e.callers {
		sort.Slice(cs, func(i, j int) bool {
			a, b := core.FuncKey(cs[i].Parent()), core.FuncKey(cs[j].Parent())
			if a != b {
				return a < b
			}
			return cs[i].Pos() < cs[j].Pos()
		})
		e.callers[f] = cs
	}
	return e
}

// entryClause: the disjunction of edge conditions under which block d is entered (back edges excluded).
func (e *c03eng) entryClause(d *ssa.BasicBlock) (c03clause, bool) {
	var atoms []c03atom
	n := 0
	for _, p := range d.Preds {
		if d.Dominates(p) {
			continue // back edge
		}
		n++
		ifi, ok := p.Instrs[len(p.Instrs)-1].(*ssa.If)
		if !ok || len(p.Succs) != 2 || p.Succs[0] == p.Succs[1] {
			return c03clause{}, false
		}
		a, ok := e.atomOf(ifi.Cond, p.Succs[0] == d)
		if !ok {
			return c03clause{}, false
		}
		atoms = append(atoms, a)
	}
	if n == 0 {
		return c03clause{}, false
	}
	return c03clause{atoms: atoms, at: d}, true
}

// condFacts: the unit facts implied by a branch condition having the given truth value. Besides a plain atom it
// decomposes a materialised short-circuit (`a && b` / `a || b` compiled to a phi of booleans, as go/ssa does for
// switch-case conditions and assigned booleans): if exactly one incoming edge of the phi can carry the value, the
// facts of that edge hold.
func (e *c03eng) condFacts(cond ssa.Value, pol bool, depth int) []c03clause {
	if a, ok := e.atomOf(cond, pol); ok {
		return []c03clause{{atoms: []c03atom{a}}}
	}
	if u, ok := cond.(*ssa.UnOp); ok && u.Op == token.NOT {
		return e.condFacts(u.X, !pol, depth)
	}
	phi, ok := cond.(*ssa.Phi)
	if !ok || depth > 3 {
		return nil
	}
	pb := phi.Block()
	cand := -1
	var cands []int
	for i, ed := range phi.Edges {
		if k, isK := ed.(*ssa.Const); isK && k.Value != nil && k.Value.Kind() == constant.Bool {
			if constant.BoolVal(k.Value) != pol {
				continue
			}
		}
		cands = append(cands, i)
	}
	if len(cands) == 0 {
		return nil
	}
	if len(cands) > 1 {
		// several edges can carry the value: a disjunction of one deciding atom per edge (the constant edge is
		// decided by the branch that leads into it, the computed edge by its own value)
		var atoms []c03atom
		for _, i := range cands {
			p := pb.Preds[i]
			if _, isK := phi.Edges[i].(*ssa.Const); isK {
				ifi, ok := p.Instrs[len(p.Instrs)-1].(*ssa.If)
				if !ok || len(p.Succs) != 2 || p.Succs[0] == p.Succs[1] {
					return nil
				}
				a, ok := e.atomOf(ifi.Cond, p.Succs[0] == pb)
				if !ok {
					return nil
				}
				atoms = append(atoms, a)
			} else {
				a, ok := e.atomOf(phi.Edges[i], pol)
				if !ok {
					return nil
				}
				atoms = append(atoms, a)
			}
		}
		return []c03clause{{atoms: atoms}}
	}
	cand = cands[0]
	p := pb.Preds[cand]
	var out []c03clause
	if _, isK := phi.Edges[cand].(*ssa.Const); !isK {
		out = append(out, e.condFacts(phi.Edges[cand], pol, depth+1)...)
	}
	// the facts under which the chosen predecessor is entered, and of its own edge into the phi block
	for _, cl := range e.factsAtBlockD(p, depth+1) {
		cl.at = nil
		out = append(out, cl)
	}
	if ifi, ok := p.Instrs[len(p.Instrs)-1].(*ssa.If); ok && len(p.Succs) == 2 && p.Succs[0] != p.Succs[1] {
		out = append(out, e.condFacts(ifi.Cond, p.Succs[0] == pb, depth+1)...)
	}
	return out
}

// entryFacts: all clauses established on entry to d: the entry clause and, for a single forward predecessor, the
// decomposition of a short-circuit condition.
func (e *c03eng) entryFacts(d *ssa.BasicBlock, depth int) []c03clause {
	if cl, ok := e.entryClause(d); ok {
		return []c03clause{cl}
	}
	var fwd []*ssa.BasicBlock
	for _, p := range d.Preds {
		if !d.Dominates(p) {
			fwd = append(fwd, p)
		}
	}
	if len(fwd) != 1 {
		return nil
	}
	p := fwd[0]
	ifi, ok := p.Instrs[len(p.Instrs)-1].(*ssa.If)
	if !ok || len(p.Succs) != 2 || p.Succs[0] == p.Succs[1] {
		return nil
	}
	out := e.condFacts(ifi.Cond, p.Succs[0] == d, depth)
	for i := range out {
		out[i].at = d
	}
	return out
}

// factsAtBlock returns the clauses that hold on entry to b (from b and all its dominators).
func (e *c03eng) factsAtBlock(b *ssa.BasicBlock) []c03clause { return e.factsAtBlockD(b, 0) }

func (e *c03eng) factsAtBlockD(b *ssa.BasicBlock, depth int) []c03clause {
	var out []c03clause
	for d := b; d != nil; d = d.Idom() {
		out = append(out, e.entryFacts(d, depth)...)
	}
	return out
}

// ---------------------------------------------------------------- write sets (memory stability of terms)

func (e *c03eng) writeSet(f *ssa.Function) map[*types.Var]bool {
	if s, ok := e.wr[f]; ok {
		return s
	}
	if e.wrBusy[f] {
		return nil
	}
	e.wrBusy[f] = true
	s := map[*types.Var]bool{}
	if f.Blocks != nil {
		for _, w := range core.Writes(f) {
			if w.Field != nil {
				s[w.Field] = true
			}
			for _, st := range w.Chain {
				if st.Kind == "field" && st.Field != nil && w.Kind != "field" {
					s[st.Field] = true
				}
			}
		}
		for _, ci := range core.Calls(f) {
			for _, g := range e.c.Callees(ci) {
				if p := core.FuncPkg(g); p == nil || !core.InRepo(p) {
					continue
				}
				for fld := range e.writeSet(g) {
					s[fld] = true
				}
			}
		}
	}
	e.wrBusy[f] = false
	e.wr[f] = s
	return s
}

// mayWrite: instruction may store to one of the fields.
func (e *c03eng) mayWrite(in ssa.Instruction, flds map[*types.Var]bool) bool {
	switch x := in.(type) {
	case *ssa.Store:
		steps, _ := core.TraceAddr(x.Addr)
		for _, s := range steps {
			if s.Kind == "field" && flds[s.Field] {
				return true
			}
			if s.Kind == "load" {
				break
			}
		}
	case *ssa.MapUpdate:
		steps, _ := core.TraceAddr(x.Map)
		for _, s := range steps {
			if s.Kind == "field" && flds[s.Field] {
				return true
			}
		}
	case ssa.CallInstruction:
		for _, g := range e.c.Callees(x) {
			if p := core.FuncPkg(g); p == nil || !core.InRepo(p) {
				continue
			}
			ws := e.writeSet(g)
			for f := range flds {
				if ws[f] {
					return true
				}
			}
		}
	}
	return false
}

// stableBetween: no instruction that can execute after the (latest) entry of block d and before `use`
// may write one of the fields. d == nil means "from function entry".
func (e *c03eng) stableBetween(d *ssa.BasicBlock, use ssa.Instruction, flds []*types.Var, except ...ssa.Instruction) bool {
	if len(flds) == 0 {
		return true
	}
	set := map[*types.Var]bool{}
	for _, f := range flds {
		set[f] = true
	}
	fn := use.Parent()
	if d == nil {
		d = fn.Blocks[0]
	}
	ub := use.Block()
	// forward from d without re-entering d
	fwd := map[*ssa.BasicBlock]bool{d: true}
	work := []*ssa.BasicBlock{d}
	for len(work) > 0 {
		b := work[len(work)-1]
		work = work[:len(work)-1]
		if b == ub && b != d {
			// continue: blocks after use are irrelevant, but b itself matters
		}
		for _, s := range b.Succs {
			if s != d && !fwd[s] {
				fwd[s] = true
				work = append(work, s)
			}
		}
	}
	// backward from use block, stopping at d
	bwd := map[*ssa.BasicBlock]bool{ub: true}
	work = []*ssa.BasicBlock{ub}
	for len(work) > 0 {
		b := work[len(work)-1]
		work = work[:len(work)-1]
		if b == d {
			continue
		}
		for _, p := range b.Preds {
			if !bwd[p] {
				bwd[p] = true
				work = append(work, p)
			}
		}
	}
	// is the use block on a cycle that avoids d? then whole block counts
	for b := range fwd {
		if !bwd[b] {
			continue
		}
		for _, in := range b.Instrs {
			if b == ub && in == use {
				// instructions after use in ub only matter if ub can reach itself without d
				if !c03selfReach(ub, d) {
					break
				}
				continue
			}
			skip := false
			for _, x := range except {
				if x == in {
					skip = true
				}
			}
			if !skip && e.mayWrite(in, set) {
				return false
			}
		}
	}
	return true
}

func c03selfReach(b, avoid *ssa.BasicBlock) bool {
	if b == avoid {
		return false
	}
	seen := map[*ssa.BasicBlock]bool{}
	work := append([]*ssa.BasicBlock{}, b.Succs...)
	for len(work) > 0 {
		x := work[len(work)-1]
		work = work[:len(work)-1]
		if x == b {
			return true
		}
		if x == avoid || seen[x] {
			continue
		}
		seen[x] = true
		work = append(work, x.Succs...)
	}
	return false
}

// ---------------------------------------------------------------- predicate summaries

// summaries: clauses over the function's parameters that hold whenever the (single bool result) function returns
// true (resp. false).
func (e *c03eng) summary(f *ssa.Function) (t, fl []c03clause) {
	if f.Signature.Results().Len() != 1 {
		return nil, nil
	}
	return e.summaryAt(f, 0)
}

// summaryAt: the same for the idx-th result (a boolean) of a function with any number of results: `v, ok := f(x)`.
func (e *c03eng) summaryAt(f *ssa.Function, idx int) (t, fl []c03clause) {
	if s, ok := e.sumIdx[c03sumKey{f, idx}]; ok {
		return s[0], s[1]
	}
	if e.sumBusy[f] || f.Blocks == nil {
		return nil, nil
	}
	res := f.Signature.Results()
	if idx >= res.Len() {
		return nil, nil
	}
	if b, ok := res.At(idx).Type().Underlying().(*types.Basic); !ok || b.Kind() != types.Bool {
		return nil, nil
	}
	e.sumBusy[f] = true
	defer func() { e.sumBusy[f] = false }()
	// summaries are context free: no call-site binding, no store epoch while they are computed
	savedBind, savedEpoch := e.bind, e.epoch
	e.bind, e.epoch = nil, nil
	defer func() { e.bind, e.epoch = savedBind, savedEpoch }()
	type way struct {
		val bool
		cls []c03clause
	}
	var ways []way
	addWay := func(val bool, cls []c03clause, extra ...c03atom) {
		w := way{val: val, cls: append([]c03clause{}, cls...)}
		for _, a := range extra {
			w.cls = append(w.cls, c03clause{atoms: []c03atom{a}})
		}
		ways = append(ways, w)
	}
	var addValue func(v ssa.Value, cls []c03clause, depth int)
	addValue = func(v ssa.Value, cls []c03clause, depth int) {
		if c, ok := v.(*ssa.Const); ok && c.Value != nil && c.Value.Kind() == constant.Bool {
			addWay(constant.BoolVal(c.Value), cls)
			return
		}
		if phi, ok := v.(*ssa.Phi); ok && depth < 4 {
			pb := phi.Block()
			for i, ed := range phi.Edges {
				p := pb.Preds[i]
				pcls := e.factsAtBlock(p)
				if ifi, ok := p.Instrs[len(p.Instrs)-1].(*ssa.If); ok && len(p.Succs) == 2 && p.Succs[0] != p.Succs[1] {
					if a, ok := e.atomOf(ifi.Cond, p.Succs[0] == pb); ok {
						pcls = append(pcls, c03clause{atoms: []c03atom{a}})
					}
				}
				addValue(ed, pcls, depth+1)
			}
			return
		}
		if a, ok := e.atomOf(v, true); ok {
			addWay(true, cls, a)
			addWay(false, cls, a.negate())
		} else {
			addWay(true, cls)
			addWay(false, cls)
		}
	}
	for _, b := range f.Blocks {
		if rt, ok := b.Instrs[len(b.Instrs)-1].(*ssa.Return); ok && len(rt.Results) == res.Len() {
			addValue(rt.Results[idx], e.factsAtBlock(b), 0)
		}
	}
	inter := func(val bool) []c03clause {
		var cur map[string]c03clause
		for _, w := range ways {
			if w.val != val {
				continue
			}
			m := map[string]c03clause{}
			for _, cl := range e.expand(w.cls, 0) {
				okc := true
				for _, a := range cl.atoms {
					if !a.paramRooted() {
						okc = false
					}
				}
				if okc {
					cl.at = nil
					m[cl.String()] = cl
				}
			}
			if cur == nil {
				cur = m
			} else {
				for k := range cur {
					if _, ok := m[k]; !ok {
						delete(cur, k)
					}
				}
			}
		}
		var ks []string
		for k := range cur {
			ks = append(ks, k)
		}
		sort.Strings(ks)
		var out []c03clause
		for _, k := range ks {
			out = append(out, cur[k])
		}
		// a disjunction over the ways: if every way pins the same term to constants (`k == A || k == B || ...`),
		// the result implies that the term is one of them
		var wayCls [][]c03clause
		for _, w := range ways {
			if w.val == val {
				wayCls = append(wayCls, e.expand(w.cls, 0))
			}
		}
		if len(wayCls) >= 2 {
			eqOn := func(cl c03clause) *c03term {
				var t *c03term
				for _, a := range cl.atoms {
					if a.kind != "cmp" || a.op != token.EQL || !a.paramRooted() {
						return nil
					}
					if fl, oth := a.t.memFields(); len(fl) > 0 || len(oth) > 0 {
						return nil
					}
					if t != nil && !c03eq(t, a.t) {
						return nil
					}
					t = a.t
				}
				return t
			}
			var cands []*c03term
			for _, cl := range wayCls[0] {
				if t := eqOn(cl); t != nil {
					cands = append(cands, t)
				}
			}
			for _, t := range cands {
				var atoms []c03atom
				seen := map[int64]bool{}
				all := true
				for _, wc := range wayCls {
					found := false
					for _, cl := range wc {
						if tt := eqOn(cl); tt != nil && c03eq(tt, t) {
							found = true
							for _, a := range cl.atoms {
								if !seen[a.k] {
									seen[a.k] = true
									atoms = append(atoms, a)
								}
							}
							break
						}
					}
					if !found {
						all = false
						break
					}
				}
				if all && len(atoms) > 0 {
					dup := false
					dc := c03clause{atoms: atoms}
					for _, o := range out {
						if o.String() == dc.String() {
							dup = true
						}
					}
					if !dup {
						out = append(out, dc)
					}
				}
			}
		}
		return out
	}
	// only observers may be summarised: the function must not write memory
	if len(e.writeSet(f)) > 0 {
		e.sumIdx[c03sumKey{f, idx}] = [2][]c03clause{}
		return nil, nil
	}
	var wayCls [2][][]c03clause
	for _, w := range ways {
		i := 0
		if !w.val {
			i = 1
		}
		wayCls[i] = append(wayCls[i], e.expand(w.cls, 0))
	}
	st, sf := c03disjoin(inter(true), wayCls[0]), c03disjoin(inter(false), wayCls[1])
	e.sumIdx[c03sumKey{f, idx}] = [2][]c03clause{st, sf}
	return st, sf
}

// expand adds, for every unit atom that is the truth value of a call to a summarised predicate, the clauses
// the predicate's result implies (recursively).
func (e *c03eng) expand(cls []c03clause, depth int) []c03clause {
	out := append([]c03clause{}, cls...)
	if depth > 3 {
		return out
	}
	for _, cl := range cls {
		if len(cl.atoms) != 1 {
			continue
		}
		a := cl.atoms[0]
		ct, ridx := a.t, -1
		if a.t.op == "extract" && len(a.t.args) == 1 && a.t.args[0].op == "call" {
			// the ok result of `v, ok := helper(x)`
			ct, ridx = a.t.args[0], a.t.idx
		}
		if ct.op != "call" {
			continue
		}
		f := e.byKey[ct.name]
		if f == nil {
			continue
		}
		var src []c03clause
		switch {
		case a.kind == "true" && ridx >= 0:
			st, sf := e.summaryAt(f, ridx)
			src = st
			if !a.pos {
				src = sf
			}
		case ridx >= 0:
			continue
		case a.kind == "true":
			st, sf := e.summary(f)
			src = st
			if !a.pos {
				src = sf
			}
		case a.kind == "cmp" && a.op == token.EQL:
			src = e.summaryConst(f, a.k)
		default:
			continue
		}
		var add []c03clause
		for _, scl := range src {
			n := c03clause{at: cl.at}
			ok := true
			for _, sa := range scl.atoms {
				b, good := sa.subst(ct.args)
				if !good {
					ok = false
					break
				}
				n.atoms = append(n.atoms, b)
			}
			if ok {
				add = append(add, n)
			}
		}
		out = append(out, e.expand(add, depth+1)...)
	}
	return out
}

// ---------------------------------------------------------------- goals and the prover

type c03goal struct {
	kind  string // notnil | range | kind | type | atom
	t     *c03term
	lo    int64
	hi    int64
	kinds map[int64]bool
	types []types.Type // allowed dynamic types
	nilOK bool         // nil interface allowed
	atom  c03atom      // kind atom: prove this atom
}

func (g c03goal) String() string {
	switch g.kind {
	case "notnil":
		return g.t.pretty() + " != nil"
	case "range":
		hi := "inf"
		if g.hi != math.MaxInt64 {
			hi = fmt.Sprint(g.hi)
		}
		return fmt.Sprintf("%s in [%d,%s]", g.t.pretty(), g.lo, hi)
	case "kind":
		var ks []string
		for k := range g.kinds {
			ks = append(ks, fmt.Sprint(k))
		}
		sort.Strings(ks)
		return "Kind(" + g.t.pretty() + ") in {" + strings.Join(ks, ",") + "}"
	case "type":
		var ts []string
		for _, t := range g.types {
			ts = append(ts, types.TypeString(t, func(p *types.Package) string { return p.Name() }))
		}
		if g.nilOK {
			ts = append(ts, "nil")
		}
		return "dyntype(" + g.t.pretty() + ") in {" + strings.Join(ts, ",") + "}"
	case "atom":
		return g.atom.pretty()
	}
	return "?"
}

func (g c03goal) subst(args []*c03term) (c03goal, bool) {
	n := g
	if g.kind == "atom" {
		a, ok := g.atom.subst(args)
		n.atom = a
		n.t = a.t
		return n, ok
	}
	n.t = g.t.subst(args)
	return n, n.t != nil
}

func (g c03goal) terms() []*c03term {
	if g.kind == "atom" {
		if g.atom.u != nil {
			return []*c03term{g.atom.t, g.atom.u}
		}
		return []*c03term{g.atom.t}
	}
	return []*c03term{g.t}
}

const c03reflectKindString = 24

func c03typeIn(t types.Type, set []types.Type) bool {
	for _, s := range set {
		if types.Identical(t, s) {
			return true
		}
		if _, isIface := s.Underlying().(*types.Interface); isIface {
			if types.AssignableTo(t, s) {
				return true
			}
		}
	}
	return false
}

// interval of a term from unit cmp atoms and disjunctive EQL clauses
func c03interval(t *c03term, cls []c03clause) (lo, hi int64) {
	lo, hi = math.MinInt64, math.MaxInt64
	if t.op == "len" {
		lo = 0
	}
	if k, ok := c03constInt(t); ok {
		return k, k
	}
	defer func() {
		// exclusions of an end point are order independent: `x != 1` after `x >= 1` was seen
		for changed := true; changed; {
			changed = false
			for _, cl := range cls {
				if len(cl.atoms) != 1 {
					continue
				}
				a := cl.atoms[0]
				if a.kind != "cmp" || a.op != token.NEQ || !c03eq(a.t, t) || lo > hi {
					continue
				}
				if a.k == lo && lo < math.MaxInt64 {
					lo++
					changed = true
				} else if a.k == hi && hi > math.MinInt64 {
					hi--
					changed = true
				}
			}
		}
	}()
	for _, cl := range cls {
		if len(cl.atoms) == 1 {
			a := cl.atoms[0]
			if a.kind != "cmp" || !c03eq(a.t, t) {
				continue
			}
			switch a.op {
			case token.EQL:
				if a.k > lo {
					lo = a.k
				}
				if a.k < hi {
					hi = a.k
				}
			case token.LSS:
				if a.k-1 < hi {
					hi = a.k - 1
				}
			case token.LEQ:
				if a.k < hi {
					hi = a.k
				}
			case token.GTR:
				if a.k+1 > lo {
					lo = a.k + 1
				}
			case token.GEQ:
				if a.k > lo {
					lo = a.k
				}
			case token.NEQ:
				if a.k == lo {
					lo++
				}
				if a.k == hi {
					hi--
				}
			}
			continue
		}
		// disjunction of equalities
		clo, chi := int64(math.MaxInt64), int64(math.MinInt64)
		ok := true
		for _, a := range cl.atoms {
			if a.kind != "cmp" || a.op != token.EQL || !c03eq(a.t, t) {
				ok = false
				break
			}
			if a.k < clo {
				clo = a.k
			}
			if a.k > chi {
				chi = a.k
			}
		}
		if ok {
			if clo > lo {
				lo = clo
			}
			if chi < hi {
				hi = chi
			}
		}
	}
	return
}

type c03proof struct {
	ok    bool
	how   string
	depth int
}

// decideLocal tries to establish the goal from the clauses; residual is the (possibly weakened) goal the callers
// would have to establish instead. used lists the clauses the decision relied on (for the stability check).
func (e *c03eng) decideLocal(g c03goal, cls []c03clause) (ok bool, used []c03clause, residual c03goal, how string) {
	residual = g
	switch g.kind {
	case "notnil":
		for _, cl := range cls {
			all := len(cl.atoms) > 0
			for _, a := range cl.atoms {
				switch {
				case a.kind == "nil" && !a.pos && c03eq(a.t, g.t):
				case a.kind == "type" && a.pos && c03eq(a.t, g.t):
				default:
					all = false
				}
			}
			if all {
				return true, []c03clause{cl}, residual, "guard " + cl.atoms[0].pretty()
			}
		}
	case "range":
		lo, hi := c03interval(g.t, cls)
		if lo >= g.lo && hi <= g.hi {
			var u []c03clause
			for _, cl := range cls {
				for _, a := range cl.atoms {
					if a.kind == "cmp" && c03eq(a.t, g.t) {
						u = append(u, cl)
						break
					}
				}
			}
			h := "none needed"
			if len(u) > 0 {
				h = "guard " + u[0].atoms[0].pretty()
			}
			return true, u, residual, h
		}
		// relational: t >= u+? is handled by atom goals
	case "kind":
		kt := &c03term{op: "call", name: "(reflect.Value).Kind", args: []*c03term{g.t}}
		var allowed map[int64]bool
		var u []c03clause
		for _, cl := range cls {
			set := map[int64]bool{}
			okc := len(cl.atoms) > 0
			for _, a := range cl.atoms {
				if a.kind == "cmp" && a.op == token.EQL && c03eq(a.t, kt) {
					set[a.k] = true
				} else {
					okc = false
				}
			}
			if !okc {
				continue
			}
			u = append(u, cl)
			if allowed == nil {
				allowed = set
			} else {
				for k := range allowed {
					if !set[k] {
						delete(allowed, k)
					}
				}
			}
		}
		if allowed != nil {
			sub := true
			for k := range allowed {
				if !g.kinds[k] {
					sub = false
				}
			}
			if sub {
				return true, u, residual, "Kind() test on the same value"
			}
		}
		// range tests: k >= reflect.Int && k <= reflect.Int64
		if lo, hi := c03interval(kt, cls); lo >= 0 && hi <= 64 && hi >= lo {
			sub := true
			for k := lo; k <= hi; k++ {
				if allowed != nil && !allowed[k] {
					continue
				}
				if !g.kinds[k] {
					sub = false
				}
			}
			if sub {
				for _, cl := range cls {
					for _, a := range cl.atoms {
						if a.kind == "cmp" && c03eq(a.t, kt) {
							u = append(u, cl)
							break
						}
					}
				}
				return true, u, residual, "Kind() range test on the same value"
			}
		}
	case "type":
		var pos []types.Type
		posNil := false
		havePos := false
		var excl []types.Type
		exclNil := false
		var u []c03clause
		for _, cl := range cls {
			okc := len(cl.atoms) > 0
			var set []types.Type
			setNil := false
			for _, a := range cl.atoms {
				switch {
				case a.kind == "type" && a.pos && c03eq(a.t, g.t):
					set = append(set, a.typ)
				case a.kind == "nil" && a.pos && c03eq(a.t, g.t):
					setNil = true
				default:
					okc = false
				}
			}
			if okc {
				u = append(u, cl)
				if !havePos {
					pos, posNil, havePos = set, setNil, true
				} else {
					var np []types.Type
					for _, t := range pos {
						if c03typeIn(t, set) {
							np = append(np, t)
						}
					}
					pos, posNil = np, posNil && setNil
				}
				continue
			}
			if len(cl.atoms) == 1 {
				a := cl.atoms[0]
				if a.kind == "type" && !a.pos && c03eq(a.t, g.t) {
					excl = append(excl, a.typ)
					u = append(u, cl)
				}
				if a.kind == "nil" && !a.pos && c03eq(a.t, g.t) {
					exclNil = true
					u = append(u, cl)
				}
			}
		}
		if !havePos {
			// closed universe of a library producer (json.Decoder.Token)
			if uni, uniNil, ok := c03universe(g.t); ok {
				pos, posNil, havePos = uni, uniNil, true
			}
		}
		if havePos {
			good := true
			for _, t := range pos {
				if c03typeIn(t, excl) {
					continue
				}
				if !c03typeIn(t, g.types) {
					good = false
				}
			}
			if posNil && !exclNil && !g.nilOK {
				good = false
			}
			if good {
				return true, u, residual, "type test on the same value"
			}
		}
		// Kind()==String accepted for .(string)
		if len(g.types) == 1 && !g.nilOK {
			if b, ok := g.types[0].(*types.Basic); ok && b.Kind() == types.String {
				kg := c03goal{kind: "kind", t: &c03term{op: "call", name: "reflect.ValueOf", args: []*c03term{g.t}}, kinds: map[int64]bool{c03reflectKindString: true}}
				if ok, u2, _, _ := e.decideLocal(kg, cls); ok {
					return true, u2, residual, "reflect Kind()==String test on the same value"
				}
			}
		}
		residual.types = append(append([]types.Type{}, g.types...), excl...)
		residual.nilOK = g.nilOK || exclNil
	case "atom":
		want := g.atom
		for _, cl := range cls {
			if len(cl.atoms) != 1 {
				continue
			}
			a := cl.atoms[0]
			if a.kind != want.kind || !c03eq(a.t, want.t) {
				continue
			}
			switch a.kind {
			case "true", "nil":
				if a.pos == want.pos {
					return true, []c03clause{cl}, residual, "guard " + a.pretty()
				}
			case "eq":
				if a.cst == want.cst && a.pos == want.pos {
					return true, []c03clause{cl}, residual, "guard " + a.pretty()
				}
				if a.pos && !want.pos && a.cst != want.cst {
					return true, []c03clause{cl}, residual, "guard " + a.pretty()
				}
			case "type":
				if a.pos == want.pos && types.Identical(a.typ, want.typ) {
					return true, []c03clause{cl}, residual, "guard " + a.pretty()
				}
			case "rel":
				if c03eq(a.u, want.u) && c03relImplies(a.op, want.op) {
					return true, []c03clause{cl}, residual, "guard " + a.pretty()
				}
			}
		}
		if want.kind == "rel" {
			// swapped operands
			for _, cl := range cls {
				if len(cl.atoms) != 1 {
					continue
				}
				a := cl.atoms[0]
				if a.kind == "rel" && c03eq(a.t, want.u) && c03eq(a.u, want.t) && c03relImplies(c03flipOp(a.op), want.op) {
					return true, []c03clause{cl}, residual, "guard " + a.pretty()
				}
			}
			// the same two quantities up to constant offsets: x <= n-1 establishes x < n
			for _, cl := range cls {
				if len(cl.atoms) == 1 && c03relLinearImplies(cl.atoms[0], want) {
					return true, []c03clause{cl}, residual, "guard " + cl.atoms[0].pretty()
				}
			}
		}
		if want.kind == "cmp" {
			lo, hi := c03interval(want.t, cls)
			if c03intervalImplies(lo, hi, want.op, want.k) {
				var u []c03clause
				for _, cl := range cls {
					for _, a := range cl.atoms {
						if a.kind == "cmp" && c03eq(a.t, want.t) {
							u = append(u, cl)
							break
						}
					}
				}
				h := "value range"
				if len(u) > 0 {
					h = "guard " + u[0].atoms[0].pretty()
				}
				return true, u, residual, h
			}
		}
	}
	return false, nil, residual, ""
}

func c03relImplies(have, want token.Token) bool {
	if have == want {
		return true
	}
	switch have {
	case token.LSS:
		return want == token.LEQ || want == token.NEQ
	case token.GTR:
		return want == token.GEQ || want == token.NEQ
	case token.EQL:
		return want == token.LEQ || want == token.GEQ
	}
	return false
}

func c03intervalImplies(lo, hi int64, op token.Token, k int64) bool {
	switch op {
	case token.EQL:
		return lo == k && hi == k
	case token.NEQ:
		return k < lo || k > hi
	case token.LSS:
		return hi < k
	case token.LEQ:
		return hi <= k
	case token.GTR:
		return lo > k
	case token.GEQ:
		return lo >= k
	}
	return false
}

// c03universe: the closed set of dynamic types of a value produced by a library call with a documented closed result
// set: encoding/json.Decoder.Token yields json.Delim, bool, float64, string or nil (json.Number only after UseNumber,
// which rule K6 excludes).
func c03universe(t *c03term) ([]types.Type, bool, bool) {
	if t == nil || t.op != "extract" || t.idx != 0 || len(t.args) != 1 || t.args[0].op != "val" {
		return nil, false, false
	}
	call, ok := t.args[0].v.(*ssa.Call)
	if !ok || !core.IsCallTo(call, "encoding/json", "Decoder.Token") {
		return nil, false, false
	}
	o := core.CalleeObj(call)
	var delim types.Type
	if tn, ok := o.Pkg().Scope().Lookup("Delim").(*types.TypeName); ok {
		delim = tn.Type()
	}
	if delim == nil {
		return nil, false, false
	}
	return []types.Type{delim, types.Typ[types.Bool], types.Typ[types.Float64], types.Typ[types.String]}, true, true
}

const c03maxDepth = 3

// prove establishes the goal (about terms of at.Parent()) at instruction `at`, locally from dominating branch facts
// or, when the goal only speaks about parameters, at every call site of the function.
func (e *c03eng) prove(g c03goal, at ssa.Instruction, depth int) c03proof {
	return e.proveX(g, at, depth, nil)
}

// proveX: extra are clauses known to hold at `at` for the particular callee the goal comes from (dispatch facts).
func (e *c03eng) proveX(g c03goal, at ssa.Instruction, depth int, extra []c03clause) c03proof {
	fn := at.Parent()
	cls := e.expand(append(e.factsAtBlock(at.Block()), extra...), 0)
	ok, used, residual, how := e.decideLocal(g, cls)
	if ok {
		// memory stability of the terms between the guard(s) and the use
		stable := true
		for _, cl := range used {
			for _, a := range cl.atoms {
				flds, _ := a.t.memFields()
				if a.u != nil {
					f2, _ := a.u.memFields()
					flds = append(flds, f2...)
				}
				if cl.at != nil && !e.stableSinceRead(cl.at, at, flds) {
					stable = false
				}
			}
		}
		if stable {
			return c03proof{ok: true, how: how + " in " + core.FuncKey(fn), depth: depth}
		}
		how = "guard found but a store to the tested location may intervene"
	}
	if pr, ok := e.provePhiSplit(residual, at); ok {
		pr.depth = depth
		return pr
	}
	if e.hook != nil {
		if ok, hw := e.hook(residual); ok {
			return c03proof{ok: true, how: hw, depth: depth}
		}
	}
	if depth >= c03maxDepth {
		return c03proof{how: "not established within " + fmt.Sprint(c03maxDepth) + " call levels"}
	}
	for _, t := range residual.terms() {
		if !t.paramRooted() {
			if how == "" {
				how = "no dominating guard on " + t.pretty() + " in " + core.FuncKey(fn)
			}
			return c03proof{how: how}
		}
		flds, _ := t.memFields()
		if !e.stableBetween(nil, at, flds) {
			return c03proof{how: "tested location may be written between function entry and the use in " + core.FuncKey(fn)}
		}
	}
	sites := e.callers[fn]
	if len(sites) == 0 {
		return c03proof{how: "no dominating guard in " + core.FuncKey(fn) + " and no resolvable caller"}
	}
	var hows []string
	for _, s := range sites {
		args := e.siteArgs(s, fn)
		if args == nil {
			return c03proof{how: "argument at call site in " + core.FuncKey(s.Parent()) + " not expressible"}
		}
		sg, ok := residual.subst(args)
		if !ok {
			return c03proof{how: "argument at call site in " + core.FuncKey(s.Parent()) + " not expressible"}
		}
		p := e.proveX(sg, s, depth+1, append(e.dispatchFacts(s, fn), e.selectorFacts(s, fn)...))
		if !p.ok {
			return c03proof{how: "caller " + core.FuncKey(s.Parent()) + ": " + p.how}
		}
		hows = append(hows, p.how)
	}
	sort.Strings(hows)
	hows = c03uniq(hows)
	return c03proof{ok: true, how: "every caller establishes it (" + strings.Join(hows, "; ") + ")", depth: depth + 1}
}

func c03uniq(s []string) []string {
	var out []string
	for i, x := range s {
		if i == 0 || x != s[i-1] {
			out = append(out, x)
		}
	}
	return out
}

// siteArgs maps the parameters of callee fn to terms in the caller's frame (nil entries for inexpressible
// arguments; nil result if the shapes do not match).
func (e *c03eng) siteArgs(s ssa.CallInstruction, fn *ssa.Function) []*c03term {
	cc := s.Common()
	var vals []ssa.Value
	if cc.IsInvoke() {
		vals = append(vals, cc.Value)
	}
	vals = append(vals, cc.Args...)
	if mc, ok := cc.Value.(*ssa.MakeClosure); ok && len(fn.FreeVars) > 0 {
		_ = mc
	}
	if len(vals) != len(fn.Params) {
		return nil
	}
	out := make([]*c03term, len(vals))
	for i, v := range vals {
		out[i] = e.termOf(v)
		if out[i] == nil {
			out[i] = &c03term{op: "alloc", name: "<inexpressible argument " + fmt.Sprint(i) + ">"}
		}
	}
	return out
}

// ---------------------------------------------------------------- facts validated at load time

// A load-set function "validates" a fact when the opposite branch outcome makes it return a non-nil error on every
// path: `if C { return err }` validates !C for every schema that is accepted. Validated facts are recorded on
// abstracted terms (the root object is replaced by its type, a map-typed field by its map type) so that they can
// be used where the same declaration is consumed at run time.
type c03valid struct {
	atom c03atom
	abs  string
	fn   *ssa.Function
	ifi  *ssa.If
}

func c03fieldID(f *types.Var) string {
	p := ""
	if f.Pkg() != nil {
		p = f.Pkg().Path()
	}
	return fmt.Sprintf("%s.%s@%p", p, f.Name(), f)
}

func c03abs(t *c03term) string {
	switch t.op {
	case "param", "val", "free":
		if t.vt != nil {
			if _, isMap := t.vt.Underlying().(*types.Map); isMap {
				return "M<" + types.TypeString(types.Unalias(t.vt).Underlying(), nil) + ">"
			}
			return "T<" + types.TypeString(t.vt, nil) + ">"
		}
		return "T<?>"
	case "field":
		if _, isMap := t.fld.Type().Underlying().(*types.Map); isMap {
			return "M<" + types.TypeString(types.Unalias(t.fld.Type()).Underlying(), nil) + ">"
		}
		return "F<" + c03fieldID(t.fld) + ">"
	case "const":
		return "const:" + t.name
	}
	var as []string
	for _, a := range t.args {
		as = append(as, c03abs(a))
	}
	s := t.op
	if t.name != "" {
		s += ":" + t.name
	}
	if t.op == "extract" {
		s += fmt.Sprint(t.idx)
	}
	if t.typ != nil {
		s += "<" + types.TypeString(t.typ, nil) + ">"
	}
	return s + "(" + strings.Join(as, ",") + ")"
}

// collectValidated scans the given (load-set, repository) functions.
func (e *c03eng) collectValidated(fns []*ssa.Function, rejects func(*ssa.BasicBlock) bool) []c03valid {
	var out []c03valid
	for _, f := range fns {
		for _, b := range f.Blocks {
			ifi, ok := b.Instrs[len(b.Instrs)-1].(*ssa.If)
			if !ok || len(b.Succs) != 2 || b.Succs[0] == b.Succs[1] {
				continue
			}
			for _, pol := range []bool{true, false} {
				rej := b.Succs[0]
				if !pol {
					rej = b.Succs[1]
				}
				if !rejects(rej) {
					continue
				}
				a, ok := e.atomOf(ifi.Cond, !pol)
				if !ok {
					continue
				}
				out = append(out, c03valid{atom: a, abs: c03abs(a.t), fn: f, ifi: ifi})
				for _, cl := range e.expand([]c03clause{{atoms: []c03atom{a}}}, 0)[1:] {
					if len(cl.atoms) == 1 {
						out = append(out, c03valid{atom: cl.atoms[0], abs: c03abs(cl.atoms[0].t), fn: f, ifi: ifi})
					}
				}
			}
		}
	}
	return out
}

// validatedDecide: does the set of validated facts imply the goal (on abstracted terms)?
func c03validatedDecide(g c03goal, vs []c03valid) (bool, *c03valid) {
	switch g.kind {
	case "kind":
		kt := &c03term{op: "call", name: "(reflect.Value).Kind", args: []*c03term{g.t}}
		ab := c03abs(kt)
		for i := range vs {
			v := &vs[i]
			if v.abs == ab && v.atom.kind == "cmp" && v.atom.op == token.EQL && g.kinds[v.atom.k] {
				return true, v
			}
		}
	case "notnil":
		ab := c03abs(g.t)
		for i := range vs {
			v := &vs[i]
			if v.abs == ab && v.atom.kind == "nil" && !v.atom.pos {
				return true, v
			}
		}
	case "atom":
		ab := c03abs(g.atom.t)
		switch g.atom.kind {
		case "cmp":
			lo, hi := int64(math.MinInt64), int64(math.MaxInt64)
			var used *c03valid
			for i := range vs {
				v := &vs[i]
				if v.abs != ab || v.atom.kind != "cmp" {
					continue
				}
				l2, h2 := c03interval(v.atom.t, []c03clause{{atoms: []c03atom{v.atom}}})
				if l2 > lo {
					lo, used = l2, v
				}
				if h2 < hi {
					hi, used = h2, v
				}
			}
			if used != nil && c03intervalImplies(lo, hi, g.atom.op, g.atom.k) {
				return true, used
			}
		case "true", "nil":
			for i := range vs {
				v := &vs[i]
				if v.abs == ab && v.atom.kind == g.atom.kind && v.atom.pos == g.atom.pos {
					return true, v
				}
			}
		case "eq":
			for i := range vs {
				v := &vs[i]
				if v.abs == ab && v.atom.kind == "eq" && v.atom.pos == g.atom.pos && v.atom.cst == g.atom.cst {
					return true, v
				}
			}
		}
	}
	return false, nil
}

// ---------------------------------------------------------------- functions returning constants, dispatch tables

// summaryConst: clauses over f's parameters that hold whenever the observer f (single integer result, every return
// a constant) returns k.
func (e *c03eng) summaryConst(f *ssa.Function, k int64) []c03clause {
	if f.Blocks == nil || f.Signature.Results().Len() != 1 || len(e.writeSet(f)) > 0 {
		return nil
	}
	if b, ok := f.Signature.Results().At(0).Type().Underlying().(*types.Basic); !ok || b.Info()&types.IsInteger == 0 {
		return nil
	}
	var cur map[string]c03clause
	seenK := false
	for _, b := range f.Blocks {
		rt, ok := b.Instrs[len(b.Instrs)-1].(*ssa.Return)
		if !ok {
			continue
		}
		v, isK := c03intConst(rt.Results[0])
		if !isK {
			return nil // a computed result: nothing is known
		}
		if v != k {
			continue
		}
		seenK = true
		m := map[string]c03clause{}
		for _, cl := range e.expand(e.factsAtBlock(b), 1) {
			okc := true
			for _, a := range cl.atoms {
				if !a.paramRooted() {
					okc = false
				}
				if fl, oth := a.t.memFields(); len(fl) > 0 || len(oth) > 0 {
					okc = false
				}
			}
			if okc {
				cl.at = nil
				m[cl.String()] = cl
			}
		}
		if cur == nil {
			cur = m
		} else {
			for key := range cur {
				if _, ok := m[key]; !ok {
					delete(cur, key)
				}
			}
		}
	}
	if !seenK {
		return nil
	}
	var ks []string
	for key := range cur {
		ks = append(ks, key)
	}
	sort.Strings(ks)
	var out []c03clause
	for _, key := range ks {
		out = append(out, cur[key])
	}
	return out
}

// c03keyParts splits a map key value into its components: a scalar is one component; a struct literal (a local
// cell whose fields are each stored once and which is then loaded) one per field. ok=false if the shape is different.
func c03keyParts(v ssa.Value) ([]ssa.Value, bool) {
	ld, ok := v.(*ssa.UnOp)
	if !ok || ld.Op != token.MUL {
		if _, isSt := v.Type().Underlying().(*types.Struct); isSt {
			return nil, false
		}
		return []ssa.Value{v}, true
	}
	al, ok := ld.X.(*ssa.Alloc)
	if !ok {
		if _, isSt := v.Type().Underlying().(*types.Struct); isSt {
			return nil, false
		}
		return []ssa.Value{v}, true
	}
	st, ok := al.Type().Underlying().(*types.Pointer).Elem().Underlying().(*types.Struct)
	if !ok {
		return nil, false
	}
	parts := make([]ssa.Value, st.NumFields())
	for _, u := range core.Referrers(al) {
		switch y := u.(type) {
		case *ssa.FieldAddr:
			n := 0
			for _, fu := range core.Referrers(y) {
				stv, ok := fu.(*ssa.Store)
				if !ok || stv.Addr != ssa.Value(y) {
					return nil, false
				}
				n++
				parts[y.Field] = stv.Val
			}
			if n != 1 {
				return nil, false
			}
		case *ssa.UnOp, *ssa.DebugRef:
		default:
			return nil, false
		}
	}
	return parts, true
}

// c03funcsOf: the functions a function-typed value can be: a function, a closure, or the content of a package-level
// variable that is only ever assigned functions/closures.
func (e *c03eng) funcsOf(v ssa.Value) []*ssa.Function {
	switch y := core.Unwrap(v, false).(type) {
	case *ssa.Function:
		return []*ssa.Function{y}
	case *ssa.MakeClosure:
		if fn, ok := y.Fn.(*ssa.Function); ok {
			return []*ssa.Function{fn}
		}
	case *ssa.UnOp:
		g, ok := y.X.(*ssa.Global)
		if !ok || y.Op != token.MUL {
			return nil
		}
		var out []*ssa.Function
		for f := range e.c.AllFunctions() {
			if f.Blocks == nil || f.Pkg != g.Pkg && core.FuncPkg(f) != g.Pkg.Pkg {
				continue
			}
			for _, b := range f.Blocks {
				for _, in := range b.Instrs {
					st, ok := in.(*ssa.Store)
					if !ok || st.Addr != ssa.Value(g) {
						continue
					}
					fs := e.funcsOf(st.Val)
					if len(fs) == 0 {
						return nil
					}
					out = append(out, fs...)
				}
			}
		}
		return out
	}
	return nil
}

// dispatchFacts: the call at s invokes fn through a value looked up in a table — a map literal built by a
// function (a fresh map per call, used for this lookup only) whose values are functions. fn can only have been
// selected by one of the keys it is registered under, so for every key component that is a constant in all those
// entries, the looked-up key's component equals one of those constants.
func (e *c03eng) dispatchFacts(s ssa.CallInstruction, fn *ssa.Function) []c03clause {
	cc := s.Common()
	if cc.IsInvoke() {
		return nil
	}
	var lk *ssa.Lookup
	switch y := cc.Value.(type) {
	case *ssa.Extract:
		if l, ok := y.Tuple.(*ssa.Lookup); ok && y.Index == 0 {
			lk = l
		}
	case *ssa.Lookup:
		lk = y
	}
	if lk == nil {
		return nil
	}
	if _, isMap := lk.X.Type().Underlying().(*types.Map); !isMap {
		return nil
	}
	var mm *ssa.MakeMap
	switch src := lk.X.(type) {
	case *ssa.Call:
		// a table built per call by a function returning a map literal, used for this lookup only
		for _, u := range core.Referrers(src) {
			if u != ssa.Instruction(lk) {
				if _, dbg := u.(*ssa.DebugRef); !dbg {
					return nil
				}
			}
		}
		tf := src.Call.StaticCallee()
		if tf == nil || tf.Blocks == nil {
			return nil
		}
		for _, b := range tf.Blocks {
			if rt, ok := b.Instrs[len(b.Instrs)-1].(*ssa.Return); ok {
				m, ok := rt.Results[0].(*ssa.MakeMap)
				if !ok || (mm != nil && mm != m) || len(rt.Results) != 1 {
					return nil
				}
				mm = m
			}
		}
	case *ssa.UnOp:
		// a package-level table: assigned once (a map literal, by the package initialiser) and never updated
		g, ok := src.X.(*ssa.Global)
		if !ok || src.Op != token.MUL {
			return nil
		}
		for f := range e.c.AllFunctions() {
			if f.Blocks == nil || core.FuncPkg(f) != g.Pkg.Pkg {
				continue
			}
			for _, b := range f.Blocks {
				for _, in := range b.Instrs {
					switch y := in.(type) {
					case *ssa.Store:
						if y.Addr == ssa.Value(g) {
							m, ok := y.Val.(*ssa.MakeMap)
							if !ok || mm != nil || f.Synthetic == "" {
								return nil
							}
							mm = m
						}
					case *ssa.MapUpdate:
						if ld, ok := y.Map.(*ssa.UnOp); ok && ld.X == ssa.Value(g) {
							return nil
						}
					case ssa.CallInstruction:
						for _, a := range y.Common().Args {
							if ld, ok := a.(*ssa.UnOp); ok && ld.X == ssa.Value(g) {
								if bi, isB := y.Common().Value.(*ssa.Builtin); !isB || bi.Name() != "len" {
									return nil // the table is handed to other code
								}
							}
						}
					}
				}
			}
		}
		if g.Object() != nil && g.Object().Exported() {
			return nil
		}
	default:
		return nil
	}
	if mm == nil {
		return nil
	}
	var mine [][]ssa.Value
	for _, u := range core.Referrers(mm) {
		switch y := u.(type) {
		case *ssa.MapUpdate:
			fs := e.funcsOf(y.Value)
			if len(fs) == 0 {
				return nil
			}
			isMine := false
			for _, f := range fs {
				if f == fn {
					isMine = true
				}
			}
			if !isMine {
				continue
			}
			parts, ok := c03keyParts(y.Key)
			if !ok {
				return nil
			}
			mine = append(mine, parts)
		case *ssa.Return, *ssa.DebugRef:
		case *ssa.Store:
			if y.Val != ssa.Value(mm) {
				return nil
			}
		default:
			return nil
		}
	}
	if len(mine) == 0 {
		return nil
	}
	want, ok := c03keyParts(lk.Index)
	if !ok || len(want) != len(mine[0]) {
		return nil
	}
	var out []c03clause
	for i, wv := range want {
		if wv == nil {
			continue
		}
		t := e.termOf(wv)
		if fl, oth := t.memFields(); len(fl) > 0 || len(oth) > 0 {
			continue
		}
		var atoms []c03atom
		seen := map[string]bool{}
		okc := true
		for _, parts := range mine {
			if i >= len(parts) || parts[i] == nil {
				okc = false
				break
			}
			if k, isK := c03intConst(parts[i]); isK {
				key := fmt.Sprint(k)
				if !seen[key] {
					seen[key] = true
					atoms = append(atoms, c03atom{kind: "cmp", t: t, op: token.EQL, k: k, pos: true})
				}
				continue
			}
			if kc, isC := core.Unwrap(parts[i], false).(*ssa.Const); isC && kc.Value != nil {
				key := kc.Value.ExactString()
				if !seen[key] {
					seen[key] = true
					atoms = append(atoms, c03atom{kind: "eq", t: t, cst: key, pos: true})
				}
				continue
			}
			okc = false
			break
		}
		if okc && len(atoms) > 0 {
			out = append(out, c03clause{atoms: atoms})
		}
	}
	return out
}
