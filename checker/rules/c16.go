package rules

import (
	"fmt"
	"go/types"
	"sort"
	"strings"

	"golang.org/x/tools/go/ssa"

	"omnilint/core"
)

func init() {
	register(&RuleSet{
		Prop:  "C16",
		Title: "Input reader failures end the transform with a fatal error",
		Explanation: "Input sources are resolved by role: calls from the format-reader packages and idr to functions outside the repository that return an error and whose receiver or a parameter is (or transitively wraps) an io reader (csv.Reader.Read, ios.ByteReadLine, bufio.Scanner.Err, json/xml Decoder.Token, ios.StripBOM); the error-class analysis A3 (classes NIL/EOF/FATAL(T)/ETF/PLAIN/FOREIGN(f)/PARAM/IFACE with nil-, io.EOF- and IsErrX-narrowing and bottom-up summaries) tracks them through repository wrappers. " +
			"R16a for every error value that may carry an input failure (a source call or a repository call whose summary still contains FOREIGN(source)): every return dominated by its `!= nil` edge and not by an `== io.EOF` edge returns only FATAL(T) classes or passes the value up unchanged (so io.EOF or a plain/continuable error is never manufactured from an I/O failure); at the top the fully resolved class set of each built-in FormatReader.Read contains no FOREIGN/unresolved class, io.EOF and every FATAL(T) in it is non-continuable for that reader's IsContinuableError (abstract interpretation A8); " +
			"R16b every such value reaches a nil test whose failure branch never re-joins the normal flow (a branch that only falls into the return block of a single-exit function, with a non-nil error on each of its edges, counts as returning; R16a then judges the error of those edges), or is returned/latched; a value that is discarded or only compared with io.EOF is reported; " +
			"R16c in NewTransform the error of the BOM-stripping read is tested, returned with a nil Transform, and the ingester is created only on the nil edge; " +
			"R16d the built-in ingester returns the format reader's error value itself on its failure branch (no continuable wrapper).",
		NotDecided: "that every result before the fault equals the fault-free run; the behaviour of the wrapped library readers (encoding/csv, bufio, encoding/json, encoding/xml, go-corelib ios) when the source fails mid-token, in particular that they surface the failure through the error result the rules track; an I/O failure cannot be told apart from a parse error coming out of the same library call (so treating *csv.ParseError as continuable is reported together with I/O failures for the old csv reader); the bound on the number of Reads follows from R01a of C01 once the class is fatal.",
		Trusted:    append([]string{"encoding/csv, bufio, encoding/json, encoding/xml and go-corelib/ios report input failures through their error results (bufio.Scanner through Err)"}, commonTrusted...),
		Run:        runC16,
	})
	control(Control{ID: "c16-csv2-plain-io-error", Prop: "C16", File: "extensions/omniv21/fileformat/flatfile/csv/reader.go",
		Old: "\t\treturn ErrInvalidCSV(r.fmtErrStr(lineStart, err.Error()))", New: "\t\treturn fmt.Errorf(\"%s\", r.fmtErrStr(lineStart, err.Error()))",
		Rule: "R16a", Substr: "flatfile/csv.reader).readLine", Why: "I/O failure returned as a plain (continuable) error"})
	control(Control{ID: "c16-fixedlength2-io-error-as-eof", Prop: "C16", File: "extensions/omniv21/fileformat/flatfile/fixedlength/reader.go",
		Old: "\t\t\treturn ErrInvalidFixedLength(r.fmtErrStr(r.linesRead+1, err.Error()))", New: "\t\t\treturn io.EOF",
		Rule: "R16a", Substr: "flatfile/fixedlength.reader).readLine", Why: "I/O failure converted into io.EOF: silent truncation"})
	control(Control{ID: "c16-edi-plain-scanner-error", Prop: "C16", File: "extensions/omniv21/fileformat/edi/reader2.go",
		Old: "\t\treturn RawSeg{}, ErrInvalidEDI(fmt.Sprintf(\"cannot read segment, err: %s\", err.Error()))", New: "\t\treturn RawSeg{}, fmt.Errorf(\"cannot read segment, err: %s\", err.Error())",
		Rule: "R16a", Substr: "NonValidatingReader).Read", Why: "scanner failure returned as a plain (continuable) error"})
	control(Control{ID: "c16-xml-raw-foreign-at-top", Prop: "C16", File: "extensions/omniv21/fileformat/xml/reader.go",
		Old: "\t\treturn nil, ErrNodeReadingFailed(r.fmtErrStr(err.Error()))", New: "\t\treturn nil, err",
		Rule: "R16a", Substr: "fileformat/xml.reader.Read classes", Why: "decoder failure reaches the ingester unwrapped (continuable)"})
	control(Control{ID: "c16-fixedlength-swallow-continue", Prop: "C16", File: "extensions/omniv21/fileformat/fixedlength/reader.go",
		Old: "\t\tdefault:\n\t\t\treturn nil, err\n\t\t}", New: "\t\tdefault:\n\t\t\tcontinue\n\t\t}",
		Rule: "R16b", Substr: "fileformat/fixedlength.reader).readLine", Why: "read failure retried forever instead of being returned"})
	control(Control{ID: "c16-csv2-only-eof-tested", Prop: "C16", File: "extensions/omniv21/fileformat/flatfile/csv/reader.go",
		Old: "\tcase err != nil:\n\t\treturn ErrInvalidCSV(r.fmtErrStr(lineStart, err.Error()))\n", New: "",
		Rule: "R16b", Substr: "flatfile/csv.reader).readLine", Why: "fetch failure only compared with io.EOF"})
	control(Control{ID: "c16-newtransform-ignores-bom-error", Prop: "C16", File: "schema.go",
		Old: "\tbr, err := ios.StripBOM(s.header.ParserSettings.WrapEncoding(input))\n\tif err != nil {\n\t\treturn nil, err\n\t}\n", New: "\tbr, _ := ios.StripBOM(s.header.ParserSettings.WrapEncoding(input))\n",
		Rule: "R16c", Substr: "NewTransform", Why: "first-rune read failure ignored"})
	control(Control{ID: "c16-ingester-wraps-reader-error", Prop: "C16", File: "extensions/omniv21/ingester.go",
		Old: "\t\treturn nil, nil, err\n", New: "\t\treturn nil, nil, errs.ErrTransformFailed(err.Error())\n",
		Rule: "R16d", Substr: "omniv21.ingester).Read", Why: "ingester wraps the reader's fatal error into the continuable class"})
}

type c16ctx struct {
	c        *core.Ctx
	r        *ecRoles
	e        *ecEngine
	ioReader *types.Interface
	srcMemo  map[*types.Func]bool
	rdrMemo  map[types.Type]bool
}

// readerish: the type is, or transitively wraps, an io reader.
func (x *c16ctx) readerish(t types.Type, depth int) bool {
	if t == nil || depth > 4 {
		return false
	}
	if v, ok := x.rdrMemo[t]; ok {
		return v
	}
	x.rdrMemo[t] = false
	res := false
	switch u := t.Underlying().(type) {
	case *types.Interface:
		for i := 0; i < u.NumMethods(); i++ {
			switch u.Method(i).Name() {
			case "Read", "ReadByte", "ReadRune":
				if p := u.Method(i).Pkg(); p != nil && p.Path() == "io" {
					res = true
				}
			}
		}
	case *types.Pointer:
		res = types.Implements(t, x.ioReader) || x.readerish(u.Elem(), depth+1)
	case *types.Struct:
		if types.Implements(types.NewPointer(t), x.ioReader) {
			res = true
		}
		for i := 0; i < u.NumFields() && !res; i++ {
			res = x.readerish(u.Field(i).Type(), depth+1)
		}
	}
	x.rdrMemo[t] = res
	return res
}

// isSource: f is declared outside the repository, returns an error, and consumes an io reader.
func (x *c16ctx) isSource(f *types.Func) bool {
	if f == nil || f.Pkg() == nil || core.InRepo(f.Pkg()) {
		return false
	}
	if v, ok := x.srcMemo[f]; ok {
		return v
	}
	sig := f.Type().(*types.Signature)
	res := false
	if len(ecErrResultIdx(sig)) > 0 {
		if rc := sig.Recv(); rc != nil && x.readerish(rc.Type(), 0) {
			res = true
		}
		for i := 0; i < sig.Params().Len() && !res; i++ {
			res = x.readerish(sig.Params().At(i).Type(), 0)
		}
	}
	x.srcMemo[f] = res
	return res
}

// carried: the input-source FOREIGN elements of a class set (after resolving interface calls over all built-in
// implementations).
func (x *c16ctx) carried(s ecSet) []ecElem {
	var out []ecElem
	for _, el := range x.unionResolve(s, 0).sorted() {
		if el.Kind == ecFOREIGN && x.isSource(el.Fn) {
			out = append(out, el)
		}
	}
	return out
}

func (x *c16ctx) unionResolve(s ecSet, depth int) ecSet {
	out := ecSet{}
	for el := range s {
		if el.Kind != ecIFACE || depth > 3 {
			out[el] = true
			continue
		}
		sig := el.Fn.Type().(*types.Signature)
		in := core.NamedOf(sig.Recv().Type())
		if in == nil || in.Obj().Pkg() == nil || !core.InRepo(in.Obj().Pkg()) {
			out[el] = true
			continue
		}
		impls := ecImplementors(x.c, in, false)
		if len(impls) == 0 {
			out[el] = true
			continue
		}
		for _, n := range impls {
			m := ecMethod(x.c, n, el.Fn.Name())
			if m == nil || m.Blocks == nil {
				out[el] = true
				continue
			}
			if sub := x.e.summary(m).Res[el.Idx]; sub != nil {
				out.addAll(x.unionResolve(x.e.applyFilters(el, sub), depth+1))
			}
		}
	}
	return out
}

func (x *c16ctx) scope() []*ssa.Function {
	prefix := x.r.fmtReaderIface.Obj().Pkg().Path()
	idr := x.r.nodeT.Obj().Pkg()
	var out []*ssa.Function
	for _, f := range x.c.RepoFunctions() {
		p := core.FuncPkg(f)
		if p == nil || core.IsCLIOrSample(p) {
			continue
		}
		if p == idr || p.Path() == prefix || strings.HasPrefix(p.Path(), prefix+"/") {
			out = append(out, f)
		}
	}
	return out
}

func runC16(c *core.Ctx) {
	r := ecResolve(c, "R16")
	if !r.ok {
		return
	}
	x := &c16ctx{c: c, r: r, e: ecNewEngine(r), srcMemo: map[*types.Func]bool{}, rdrMemo: map[types.Type]bool{}}
	if ip := c.AnyPkg("io"); ip != nil {
		if tn, ok := ip.Types.Scope().Lookup("Reader").(*types.TypeName); ok {
			x.ioReader, _ = tn.Type().Underlying().(*types.Interface)
		}
	}
	if x.ioReader == nil {
		c.Unresolved("R16a", "io.Reader", "interface io.Reader not found")
		return
	}
	e := x.e

	// ---------------- R16a / R16b per value
	nSources := 0
	srcNames := map[string]int{}
	for _, fn := range x.scope() {
		for _, ci := range core.Calls(fn) {
			call, ok := ci.(*ssa.Call)
			if !ok {
				continue
			}
			for _, idx := range ecErrResultIdx(call.Call.Signature()) {
				base := e.callClasses(call, idx, ecStack{})
				car := x.carried(base)
				if len(car) == 0 {
					continue
				}
				callee := ecCalleeName(call)
				direct := false
				if f := call.Call.StaticCallee(); f != nil && !call.Call.IsInvoke() {
					direct = x.isSource(ecCalleeObj(f))
				}
				if direct {
					nSources++
					srcNames[callee]++
				}
				x.checkValue(fn, call, idx, callee, car)
			}
		}
	}
	c.Note("R16 input-source call sites: %d %v", nSources, srcNames)
	if nSources < 9 {
		c.Unresolved("R16a", "input-source call sites", fmt.Sprintf("found %d direct calls to input-consuming library functions in the reader packages, fewer than the 9 confirmed by hand", nSources))
	}
	c.Floor("R16b", 11, "error values that may carry an input failure (9 source calls + 2 stream-reader wrappers + pass-ups)")

	// ---------------- R16a at the top: resolved class set of each built-in Read
	if len(r.readers) < 7 {
		c.Unresolved("R16a", "built-in format readers", fmt.Sprintf("expected 7, found %d", len(r.readers)))
	}
	for _, rd := range r.readers {
		set := e.readSet(rd)
		key := rd.Key + ".Read classes"
		var bad, und []string
		for _, el := range set.sorted() {
			switch el.Kind {
			case ecFOREIGN:
				if x.isSource(el.Fn) {
					bad = append(bad, el.String()+" reaches the caller unwrapped")
				}
			case ecTOP, ecIFACE, ecPARAM:
				und = append(und, el.String())
			case ecFATAL, ecEOF:
				in := ecInput{Dyn: el.T}
				if el.Kind == ecEOF {
					in = ecInput{Dyn: r.plainDyn, EOF: true}
				}
				res, known, why := e.evalCont(rd, in, nil)
				if !known {
					und = append(und, el.String()+": "+why)
				} else if res {
					bad = append(bad, el.String()+" is continuable for this reader")
				}
			}
		}
		switch {
		case len(bad) > 0:
			c.Bad("R16a", key, rd.Read.Pos(), fmt.Sprintf("%s (Read classes %s): an input failure would not end the transform", strings.Join(bad, "; "), set))
		case len(und) > 0:
			c.Unknown("R16a", key, rd.Read.Pos(), "error classes of Read not fully resolved: "+strings.Join(und, "; "))
		default:
			c.OK("R16a", key, rd.Read.Pos(), "no unwrapped input failure; EOF and typed errors non-continuable: "+set.String())
		}
	}
	c.Floor("R16a", 16, "7 Read class sets + returns on failure branches of input-failure carrying values")

	// ---------------- R16c NewTransform
	x.checkNewTransform()
	c.Floor("R16c", 2, "StripBOM error tested and returned; ingester created on the nil edge")

	// ---------------- R16d ingester passes the reader's error through
	x.checkIngesters()
	c.Floor("R16d", 1, "failure branch of FormatReader.Read in the built-in ingester")
	c16NoBenignSentinels(c)
}

// checkValue: R16a/R16b for one error value that may carry an input failure.
func (x *c16ctx) checkValue(fn *ssa.Function, call *ssa.Call, idx int, callee string, car []ecElem) {
	c, e := x.c, x.e
	var what []string
	for _, el := range car {
		what = append(what, ecFuncName(el.Fn))
	}
	carries := strings.Join(what, ", ")
	keyB := core.FuncKey(fn) + " handles error of " + callee
	keyA := core.FuncKey(fn) + " returns after failure of " + callee
	v := ecErrValueOf(call, idx)
	if v == nil || len(ecUsesThroughPhi(v)) == 0 {
		c.Bad("R16b", keyB, core.InstrPos(call), "error result discarded: a failure of the input ("+carries+") is swallowed")
		return
	}
	h := e.handlingOf(v)
	switch {
	case h.OnlyEOF:
		c.Bad("R16b", keyB, core.InstrPos(call), "error is only compared with io.EOF, never with nil: every other failure of the input ("+carries+") is swallowed")
	case len(h.NilTests) == 0 && !h.PassedUp:
		c.Bad("R16b", keyB, core.InstrPos(call), "error is neither tested against nil nor returned/latched: a failure of the input ("+carries+") is swallowed")
	case h.OpenRegion != nil:
		c.Bad("R16b", keyB, h.OpenRegion.Instrs[0].Pos(), "the failure branch of the nil test re-joins the normal flow (does not end in a return): a failure of the input ("+carries+") does not stop the reader")
	case len(h.NilTests) > 0:
		c.OK("R16b", keyB, core.InstrPos(call), "tested against nil; the failure branch ends in returns")
	default:
		c.OK("R16b", keyB, core.InstrPos(call), "returned or latched unchanged (classes tracked by A3)")
	}
	for _, fr := range e.failureReturns(fn, func(facts []ecFact) bool { return ecFailureCause(facts, v) }) {
		rt := fr.Rt
		var bad, und []string
		passed := false
		for _, i := range ecErrResultIdx(fn.Signature) {
			if i >= len(rt.Results) {
				continue
			}
			rv := ecResultOnEdge(rt, i, fr.Edge)
			if ecUnwrapIface(rv) == ecUnwrapIface(v) {
				passed = true
				continue
			}
			for _, el := range e.classAt(rv, fr.Pt).sorted() {
				if (el.Kind == ecEOF || el.Kind == ecNIL) && el.Why == ecPassThrough(v) {
					continue // a helper hands the value itself through when it is io.EOF / nil
				}
				switch el.Kind {
				case ecFATAL:
				case ecTOP, ecIFACE, ecPARAM:
					und = append(und, el.String())
				default:
					bad = append(bad, el.String())
				}
			}
		}
		switch {
		case len(bad) > 0:
			c.Bad("R16a", keyA, core.InstrPos(rt), fmt.Sprintf("on the failure branch (error ≠ nil, not io.EOF) the function returns %s instead of a fatal typed error: an input failure (%s) becomes continuable or is silently truncated", strings.Join(bad, ", "), carries))
		case len(und) > 0:
			c.Unknown("R16a", keyA, core.InstrPos(rt), "class of the returned error not decided: "+strings.Join(und, ", "))
		case passed:
			c.OK("R16a", keyA, core.InstrPos(rt), "failure passed up unchanged (the caller is checked)")
		default:
			c.OK("R16a", keyA, core.InstrPos(rt), "failure returned as a typed error")
		}
	}
}

func (x *c16ctx) checkNewTransform() {
	c, e := x.c, x.e
	root := c.Pkg("")
	if root == nil {
		c.Unresolved("R16c", "root package", "not found")
		return
	}
	var fns []*ssa.Function
	for _, f := range c.RepoFunctions() {
		if core.FuncPkg(f) == root.Types && f.Name() == "NewTransform" && f.Signature.Recv() != nil && f.Parent() == nil {
			fns = append(fns, f)
		}
	}
	if len(fns) == 0 {
		c.Unresolved("R16c", "NewTransform", "no method NewTransform in package omniparser")
	}
	for _, fn := range fns {
		var srcVals []ssa.Value
		for _, ci := range core.Calls(fn) {
			call, ok := ci.(*ssa.Call)
			if !ok || call.Call.IsInvoke() {
				continue
			}
			f := call.Call.StaticCallee()
			if f == nil {
				continue
			}
			if !x.isSource(ecCalleeObj(f)) {
				// a repository helper that performs the first read and hands its error up
				relays, swallowed := x.relaysSource(call)
				if swallowed != "" {
					c.Bad("R16c", core.FuncKey(fn)+" checks "+ecCalleeName(call), core.InstrPos(call), "the helper performs the first read from the input but its error result does not carry the failure of "+swallowed)
					continue
				}
				if !relays {
					continue
				}
			}
			callee := ecCalleeName(call)
			key := core.FuncKey(fn) + " checks " + callee
			for _, idx := range ecErrResultIdx(call.Call.Signature()) {
				v := ecErrValueOf(call, idx)
				if v == nil || len(ecUsesThroughPhi(v)) == 0 {
					c.Bad("R16c", key, core.InstrPos(call), "error of the first read from the input is discarded")
					continue
				}
				h := e.handlingOf(v)
				if len(h.NilTests) == 0 || h.OpenRegion != nil {
					c.Bad("R16c", key, core.InstrPos(call), "error of the first read from the input is not tested against nil with a returning failure branch")
					continue
				}
				okAll, n := true, 0
				for _, fr := range e.failureReturns(fn, func(facts []ecFact) bool { return ecFailureCause(facts, v) }) {
					n++
					for i := range fr.Rt.Results {
						rv := ecResultOnEdge(fr.Rt, i, fr.Edge)
						if ecIsError(fn.Signature.Results().At(i).Type()) {
							if e.classAt(rv, fr.Pt).has(ecNIL) {
								okAll = false
							}
						} else if !core.IsNilConst(rv) {
							okAll = false
						}
					}
				}
				c.Check(okAll && n > 0, "R16c", key, core.InstrPos(call), "failure returned with a nil Transform",
					"on the failure branch NewTransform must return (nil, non-nil error)")
				srcVals = append(srcVals, v)
			}
		}
		// the ingester is created only on the nil edge of every source error
		for _, ci := range core.Calls(fn) {
			if !ci.Common().IsInvoke() {
				continue
			}
			res := ci.Common().Signature().Results()
			makesIngester := false
			for i := 0; i < res.Len(); i++ {
				if types.Identical(res.At(i).Type(), x.r.ingesterIface) {
					makesIngester = true
				}
			}
			if !makesIngester {
				continue
			}
			key := core.FuncKey(fn) + " creates ingester via " + ecCalleeName(ci)
			if len(srcVals) == 0 {
				c.Bad("R16c", key, core.InstrPos(ci), "ingester created without a checked first read from the input")
				continue
			}
			okDom := true
			facts := e.factsAt(ecPoint{B: ci.Block()})
			for _, v := range srcVals {
				isNil := false
				for _, f := range facts {
					if f.Kind == "nil" && f.Pos && f.V == ecUnwrapIface(v) {
						isNil = true
					}
				}
				if !isNil {
					okDom = false
				}
			}
			c.Check(okDom, "R16c", key, core.InstrPos(ci), "dominated by the nil edge of the input-read error", "the ingester is created on a path on which the first read from the input may have failed")
		}
	}
}

// relaysSource: the call goes to a repository function (helpers followed through static calls) that calls an input
// source, and the classes of its error result carry the failure of every source it calls. swallowed names a source
// called by the helper whose failure is not among the classes of the error the helper returns.
func (x *c16ctx) relaysSource(call *ssa.Call) (relays bool, swallowed string) {
	callee := call.Call.StaticCallee()
	if callee == nil || callee.Blocks == nil || !core.InRepo(core.FuncPkg(callee)) {
		return false, ""
	}
	var direct []*types.Func
	seen := map[*ssa.Function]bool{}
	var walk func(f *ssa.Function, depth int)
	walk = func(f *ssa.Function, depth int) {
		if f == nil || f.Blocks == nil || seen[f] || depth > 3 || !core.InRepo(core.FuncPkg(f)) {
			return
		}
		seen[f] = true
		for _, ci := range core.Calls(f) {
			if ci.Common().IsInvoke() {
				continue
			}
			g := ci.Common().StaticCallee()
			if g == nil {
				continue
			}
			if o := ecCalleeObj(g); x.isSource(o) {
				direct = append(direct, o)
				continue
			}
			walk(g, depth+1)
		}
	}
	walk(callee, 0)
	if len(direct) == 0 {
		return false, ""
	}
	idxs := ecErrResultIdx(call.Call.Signature())
	if len(idxs) == 0 {
		return false, ecFuncName(direct[0])
	}
	have := map[*types.Func]bool{}
	for _, idx := range idxs {
		for _, el := range x.carried(x.e.callClasses(call, idx, ecStack{})) {
			have[el.Fn] = true
		}
	}
	for _, o := range direct {
		if !have[o] {
			return false, ecFuncName(o)
		}
	}
	return true, ""
}

func (x *c16ctx) checkIngesters() {
	c, e := x.c, x.e
	var readM *types.Func
	if it, ok := x.r.fmtReaderIface.Underlying().(*types.Interface); ok {
		for i := 0; i < it.NumMethods(); i++ {
			if it.Method(i).Name() == "Read" {
				readM = it.Method(i)
			}
		}
	}
	if readM == nil {
		c.Unresolved("R16d", "FormatReader.Read", "interface method not found")
		return
	}
	igs := append([]*ecReader{}, x.r.ingesters...)
	sort.Slice(igs, func(i, j int) bool { return igs[i].Key < igs[j].Key })
	for _, ig := range igs {
		n := 0
		for _, ci := range core.Calls(ig.Read) {
			call, ok := ci.(*ssa.Call)
			if !ok {
				continue
			}
			// the reader's Read: an invoke of FormatReader.Read (possibly through a local interface view of the
			// reader), or a call whose error result is exactly that symbolic interface call (bound method value)
			isReaderRead := call.Call.IsInvoke() && ecSameIfaceMethod(ecOriginMethod(&call.Call), readM)
			if !isReaderRead && !call.Call.IsInvoke() {
				if ix := ecErrResultIdx(call.Call.Signature()); len(ix) == 1 {
					cls := e.callClasses(call, ix[0], ecStack{})
					isReaderRead = len(cls) == 1
					for el := range cls {
						if el.Kind != ecIFACE || !ecSameIfaceMethod(el.Fn, readM) {
							isReaderRead = false
						}
					}
				}
			}
			if !isReaderRead {
				continue
			}
			n++
			key := core.FuncKey(ig.Read) + " after FormatReader.Read"
			idxs := ecErrResultIdx(call.Call.Signature())
			v := ecErrValueOf(call, idxs[0])
			if v == nil {
				c.Bad("R16d", key, core.InstrPos(call), "reader error discarded")
				continue
			}
			h := e.handlingOf(v)
			if len(h.NilTests) == 0 || h.OpenRegion != nil {
				c.Bad("R16d", key, core.InstrPos(call), "the reader's error is not tested against nil with a returning failure branch")
				continue
			}
			m := 0
			for _, fr := range e.failureReturns(ig.Read, func(facts []ecFact) bool {
				for _, f := range facts {
					if f.Kind == "nil" && !f.Pos && f.V == ecUnwrapIface(v) {
						return true
					}
				}
				return false
			}) {
				rt := fr.Rt
				m++
				same := false
				for i := range rt.Results {
					if ecIsError(ig.Read.Signature.Results().At(i).Type()) && ecUnwrapIface(ecResultOnEdge(rt, i, fr.Edge)) == ecUnwrapIface(v) {
						same = true
					}
				}
				c.Check(same, "R16d", key, core.InstrPos(rt), "reader error returned as is",
					"the ingester must return the format reader's error value itself; a wrapper (e.g. ErrTransformFailed) would make a fatal reader error continuable")
			}
			if m == 0 {
				c.Bad("R16d", key, core.InstrPos(call), "no return on the failure branch of the reader's error")
			}
		}
		if n == 0 {
			c.Unresolved("R16d", "FormatReader.Read call in "+core.FuncKey(ig.Read), "the ingester does not call FormatReader.Read directly")
		}
	}
}
