package rules

import (
	"fmt"
	"go/constant"
	"go/token"
	"go/types"
	"sort"

	"golang.org/x/tools/go/ssa"

	"omnilint/core"
)

// R11d — finite model check of the hand-written xpath navigator.
//
// The movement methods of the navigator (MoveToParent/Child/First/Next/Previous/NextAttribute/Root) and NodeType are
// small pointer programs over a node's links and its Type. Their SSA is abstractly interpreted on a family of model
// trees that realises every local configuration the methods can distinguish — document root, an element with 0..2
// attributes packed first followed by 0..3 element/text children, attributes with their value text node, a nested
// element that has attributes itself — from every position of the cursor. The outcome (returned bool, new cursor)
// must equal the XPath data-model reference: the child and sibling axes never land on an attribute, the attribute
// axis only lands on attributes, first/previous/next respect document order among non-attribute siblings.
// Calls to repository helpers (the navigator's own helper methods, package functions over nodes) are interpreted by
// inlining them with their parameters bound, to depth c11navMaxInline; any other call is outside the model (undecided).
//
// This added rule came out of seed C11-1 (MoveToFirst rewritten as a jump to Parent.FirstChild), which the original
// rule set (representation invariant only) could not see.

func init() {
	control(Control{ID: "c11-nav-child-lands-on-attr", Prop: "C11", File: "idr/navigator.go",
		Old: "\tfor ; n != nil && n.Type == AttributeNode; n = n.NextSibling {", New: "\tfor ; n != nil && n.Type == AttributeNode && n.Type != AttributeNode; n = n.NextSibling {",
		Rule: "R11d", Substr: "MoveToChild", Why: "child axis returns an attribute node"})
	control(Control{ID: "c11-nav-previous-into-attrs", Prop: "C11", File: "idr/navigator.go",
		Old:  "\tif nav.cur.PrevSibling == nil || nav.cur.PrevSibling.Type == AttributeNode {\n\t\treturn false\n\t}\n\tnav.cur = nav.cur.PrevSibling",
		New:  "\tif nav.cur.PrevSibling == nil {\n\t\treturn false\n\t}\n\tnav.cur = nav.cur.PrevSibling",
		Rule: "R11d", Substr: "MoveToPrevious", Why: "preceding-sibling axis walks into the attributes"})
	control(Control{ID: "c11-nav-first-jumps-to-firstchild", Prop: "C11", File: "idr/navigator.go",
		Old:  "\tfor ; n.PrevSibling != nil && n.PrevSibling.Type != AttributeNode; n = n.PrevSibling {",
		New:  "\tif n.Parent != nil {\n\t\tn = n.Parent.FirstChild\n\t}\n\tfor ; false; n = n.PrevSibling {",
		Rule: "R11d", Substr: "MoveToFirst", Why: "last() lands on the first attribute when the parent has attributes"})
}

const (
	c11navDoc  = 0
	c11navElem = 1
	c11navText = 2
	c11navAttr = 3
)

type c11navNode struct {
	name  string
	typ   int
	links [nLinks]int
}

type c11navWorld struct {
	nodes []c11navNode
}

func (w *c11navWorld) add(name string, typ int) int {
	w.nodes = append(w.nodes, c11navNode{name: name, typ: typ, links: [nLinks]int{-1, -1, -1, -1, -1}})
	return len(w.nodes) - 1
}

func (w *c11navWorld) attach(p, ch int) {
	w.nodes[ch].links[lParent] = p
	if w.nodes[p].links[lFirst] == -1 {
		w.nodes[p].links[lFirst] = ch
	} else {
		last := w.nodes[p].links[lLast]
		w.nodes[last].links[lNext] = ch
		w.nodes[ch].links[lPrev] = last
	}
	w.nodes[p].links[lLast] = ch
}

// c11navBuild: document D -> element R with `a` attributes and `m` children; child 0 (if any) is an element that has one
// attribute and one element child of its own; the last child (if m >= 2) is a text node.
func c11navBuild(a, m int) *c11navWorld {
	w := &c11navWorld{}
	d := w.add("D", c11navDoc)
	r := w.add("R", c11navElem)
	w.attach(d, r)
	for i := 0; i < a; i++ {
		at := w.add(fmt.Sprintf("@a%d", i), c11navAttr)
		w.attach(r, at)
		tv := w.add(fmt.Sprintf("@a%d/text", i), c11navText)
		w.attach(at, tv)
	}
	for i := 0; i < m; i++ {
		typ := c11navElem
		if i == m-1 && m >= 2 {
			typ = c11navText
		}
		ch := w.add(fmt.Sprintf("c%d", i), typ)
		w.attach(r, ch)
		if i == 0 && typ == c11navElem {
			at := w.add("c0/@b", c11navAttr)
			w.attach(ch, at)
			tv := w.add("c0/@b/text", c11navText)
			w.attach(at, tv)
			g := w.add("c0/g", c11navElem)
			w.attach(ch, g)
		}
	}
	return w
}

// reference semantics: returns (moved, new cursor)
func (w *c11navWorld) ref(method string, cur int) (bool, int) {
	n := w.nodes[cur]
	isAttr := func(i int) bool { return i != -1 && w.nodes[i].typ == c11navAttr }
	switch method {
	case "MoveToParent":
		if n.links[lParent] == -1 {
			return false, cur
		}
		return true, n.links[lParent]
	case "MoveToChild":
		if n.typ == c11navAttr {
			return false, cur
		}
		for c := n.links[lFirst]; c != -1; c = w.nodes[c].links[lNext] {
			if !isAttr(c) {
				return true, c
			}
		}
		return false, cur
	case "MoveToFirst":
		if n.typ == c11navAttr || n.links[lParent] == -1 {
			return false, cur
		}
		first := -1
		for c := w.nodes[n.links[lParent]].links[lFirst]; c != -1; c = w.nodes[c].links[lNext] {
			if !isAttr(c) {
				first = c
				break
			}
		}
		if first == -1 || first == cur {
			return false, cur
		}
		return true, first
	case "MoveToNext":
		if n.typ == c11navAttr || n.links[lNext] == -1 {
			return false, cur
		}
		return true, n.links[lNext]
	case "MoveToPrevious":
		if n.typ == c11navAttr || n.links[lPrev] == -1 || isAttr(n.links[lPrev]) {
			return false, cur
		}
		return true, n.links[lPrev]
	case "MoveToNextAttribute":
		if n.typ == c11navAttr {
			if isAttr(n.links[lNext]) {
				return true, n.links[lNext]
			}
			return false, cur
		}
		if isAttr(n.links[lFirst]) {
			return true, n.links[lFirst]
		}
		return false, cur
	}
	return false, cur
}

type c11navVal struct {
	kind  int // 0 unknown, 1 nil, 2 node, 3 addr(link of node), 4 bool, 5 int, 6 nav ptr, 7 addr(nav field), 8 addr(node Type), 9 opaque addr, 10 tuple
	obj   int
	field int
	b     bool
	i     int64
	tuple []c11navVal // kind 10: results of an interpreted call with several results
}

type c11navInterp struct {
	w        *c11navWorld
	nodeT    *types.Named
	navT     *types.Named
	linkIdx  map[int]int
	typeIdx  int
	curIdx   int
	rootIdx  int
	typeVals map[int64]int // constant value of NodeType -> model type
	navCur   int
	navRoot  int
	steps    int
	// typeOverride, if set, is the NodeType constant every load of Node.Type yields (used to drive the navigator's
	// NodeType method with each declared constant, including ones the model trees have no node for).
	typeOverride *int64
}

// c11navMaxInline bounds the depth to which calls to repository helpers are interpreted.
const c11navMaxInline = 4

type c11navErr struct{ msg string }

func (e c11navErr) Error() string { return e.msg }

func (it *c11navInterp) fail(f string, a ...interface{}) { panic(c11navErr{fmt.Sprintf(f, a...)}) }

func (it *c11navInterp) eval(env map[ssa.Value]c11navVal, v ssa.Value) c11navVal {
	if c, ok := v.(*ssa.Const); ok {
		if c.IsNil() {
			return c11navVal{kind: 1}
		}
		if c.Value != nil {
			switch c.Value.Kind() {
			case constant.Bool:
				return c11navVal{kind: 4, b: constant.BoolVal(c.Value)}
			case constant.Int:
				i, _ := constant.Int64Val(c.Value)
				return c11navVal{kind: 5, i: i}
			}
		}
		return c11navVal{}
	}
	return env[v]
}

func (it *c11navInterp) nodeVal(i int) c11navVal {
	if i == -1 {
		return c11navVal{kind: 1}
	}
	return c11navVal{kind: 2, obj: i}
}

// run interprets a navigator method (receiver = the navigator) and returns the values of the Return.
func (it *c11navInterp) run(fn *ssa.Function) []c11navVal {
	return it.call(fn, []c11navVal{{kind: 6}}, 0)
}

// inlinable: a call the interpreter executes itself - a statically resolved repository function with a body (the
// navigator's own helper methods, package helpers over nodes), no closure, within the depth bound.
func (it *c11navInterp) inlinable(ci ssa.CallInstruction, depth int) *ssa.Function {
	if _, isCall := ci.(*ssa.Call); !isCall {
		return nil
	}
	cc := ci.Common()
	if cc.IsInvoke() {
		return nil
	}
	g := cc.StaticCallee()
	if g == nil || len(g.Blocks) == 0 || len(g.FreeVars) > 0 || g.Signature.Variadic() || depth >= c11navMaxInline {
		return nil
	}
	if !core.InRepo(core.FuncPkg(g)) || len(cc.Args) != len(g.Params) {
		return nil
	}
	return g
}

// call interprets fn with its parameters bound to args and returns the values of the Return.
func (it *c11navInterp) call(fn *ssa.Function, args []c11navVal, depth int) []c11navVal {
	env := map[ssa.Value]c11navVal{}
	for i, p := range fn.Params {
		if i < len(args) {
			env[p] = args[i]
		}
	}
	b := fn.Blocks[0]
	var prev *ssa.BasicBlock
	for {
		var next *ssa.BasicBlock
		for _, in := range b.Instrs {
			it.steps++
			if it.steps > 5000 {
				it.fail("step bound exceeded (non-terminating loop?)")
			}
			switch x := in.(type) {
			case *ssa.DebugRef:
			case *ssa.Phi:
				for i, p := range b.Preds {
					if p == prev {
						env[x] = it.eval(env, x.Edges[i])
					}
				}
			case *ssa.FieldAddr:
				base := it.eval(env, x.X)
				switch base.kind {
				case 6:
					env[x] = c11navVal{kind: 7, field: x.Field}
				case 2:
					if slot, ok := it.linkIdx[x.Field]; ok {
						env[x] = c11navVal{kind: 3, obj: base.obj, field: slot}
					} else if x.Field == it.typeIdx {
						env[x] = c11navVal{kind: 8, obj: base.obj}
					} else {
						env[x] = c11navVal{kind: 9}
					}
				case 1:
					it.fail("nil node dereferenced (field %s)", core.FieldOfAddr(x).Name())
				default:
					it.fail("field of an untracked value")
				}
			case *ssa.UnOp:
				a := it.eval(env, x.X)
				switch x.Op {
				case token.MUL:
					switch a.kind {
					case 7:
						if a.field == it.curIdx {
							env[x] = it.nodeVal(it.navCur)
						} else if a.field == it.rootIdx {
							env[x] = it.nodeVal(it.navRoot)
						} else {
							env[x] = c11navVal{}
						}
					case 3:
						env[x] = it.nodeVal(it.w.nodes[a.obj].links[a.field])
					case 8:
						if it.typeOverride != nil {
							env[x] = c11navVal{kind: 5, i: *it.typeOverride}
							break
						}
						for cv, mt := range it.typeVals {
							if mt == it.w.nodes[a.obj].typ {
								env[x] = c11navVal{kind: 5, i: cv}
							}
						}
					default:
						env[x] = c11navVal{}
					}
				case token.NOT:
					if a.kind == 4 {
						env[x] = c11navVal{kind: 4, b: !a.b}
					} else {
						env[x] = c11navVal{}
					}
				default:
					env[x] = c11navVal{}
				}
			case *ssa.BinOp:
				l, r := it.eval(env, x.X), it.eval(env, x.Y)
				res := c11navVal{}
				if x.Op == token.EQL || x.Op == token.NEQ {
					known, eq := false, false
					switch {
					case (l.kind == 1 || l.kind == 2) && (r.kind == 1 || r.kind == 2):
						known, eq = true, l.kind == r.kind && (l.kind == 1 || l.obj == r.obj)
					case l.kind == 5 && r.kind == 5:
						known, eq = true, l.i == r.i
					case l.kind == 4 && r.kind == 4:
						known, eq = true, l.b == r.b
					}
					if known {
						if x.Op == token.NEQ {
							eq = !eq
						}
						res = c11navVal{kind: 4, b: eq}
					}
				}
				env[x] = res
			case *ssa.Store:
				a := it.eval(env, x.Addr)
				v := it.eval(env, x.Val)
				switch a.kind {
				case 7:
					if v.kind != 1 && v.kind != 2 {
						it.fail("navigator field assigned an untracked value")
					}
					t := -1
					if v.kind == 2 {
						t = v.obj
					}
					if a.field == it.curIdx {
						it.navCur = t
					} else if a.field == it.rootIdx {
						it.navRoot = t
					}
				case 3, 8:
					it.fail("a navigator method writes into the node tree")
				}
			case *ssa.If:
				cv := it.eval(env, x.Cond)
				if cv.kind != 4 {
					it.fail("branch on a value outside the model at %s", fn.Prog.Fset.Position(x.Cond.Pos()))
				}
				if cv.b {
					next = b.Succs[0]
				} else {
					next = b.Succs[1]
				}
			case *ssa.Jump:
				next = b.Succs[0]
			case *ssa.Return:
				var out []c11navVal
				for _, r := range x.Results {
					out = append(out, it.eval(env, r))
				}
				return out
			case *ssa.Panic:
				it.fail("panic reached")
			case *ssa.Extract:
				if t := it.eval(env, x.Tuple); t.kind == 10 && x.Index < len(t.tuple) {
					env[x] = t.tuple[x.Index]
				} else {
					env[x] = c11navVal{}
				}
			case ssa.CallInstruction:
				g := it.inlinable(x, depth)
				if g == nil {
					it.fail("call to %s inside a movement method is outside the model", x.Common().String())
				}
				var as []c11navVal
				for _, a := range x.Common().Args {
					as = append(as, it.eval(env, a))
				}
				res := it.call(g, as, depth+1)
				if v := x.Value(); v != nil {
					switch len(res) {
					case 0:
					case 1:
						env[v] = res[0]
					default:
						env[v] = c11navVal{kind: 10, tuple: res}
					}
				}
			case *ssa.Convert, *ssa.ChangeType:
				var op ssa.Value
				if cv, ok := x.(*ssa.Convert); ok {
					op = cv.X
				} else {
					op = x.(*ssa.ChangeType).X
				}
				env[x.(ssa.Value)] = it.eval(env, op)
			default:
				if v, ok := in.(ssa.Value); ok {
					env[v] = c11navVal{}
				}
			}
		}
		if next == nil {
			it.fail("fell off block %d", b.Index)
		}
		prev, b = b, next
	}
}

// c11navPrepare resolves the roles the interpreter needs: the single xpath.NodeNavigator implementation of package idr,
// the node's link fields and Type field, the navigator's cursor and root fields, the four NodeType constants.
func c11navPrepare(c *core.Ctx) (it0 c11navInterp, idrPkg *types.Package, navT *types.Named, role, why string) {
	c.SSA()
	p := c.Pkg("idr")
	if p == nil {
		return it0, nil, nil, "package idr", "not loaded"
	}
	xp := c.AnyPkg("github.com/antchfx/xpath")
	if xp == nil {
		return it0, nil, nil, "xpath package", "not loaded"
	}
	navI := lookupIface(xp.Types, "NodeNavigator")
	impls := implementersIn(p.Types, navI)
	if len(impls) != 1 {
		return it0, nil, nil, "navigator implementation", fmt.Sprintf("expected one implementation of xpath.NodeNavigator in package idr, found %d", len(impls))
	}
	navT = core.NamedOf(impls[0])
	nodeT := p.Types.Scope().Lookup("Node").Type().(*types.Named)
	nodeSt := nodeT.Underlying().(*types.Struct)
	navSt, ok := navT.Underlying().(*types.Struct)
	if !ok {
		return it0, nil, nil, "navigator struct", "not a struct"
	}
	it0 = c11navInterp{nodeT: nodeT, navT: navT, linkIdx: map[int]int{}, typeIdx: -1, curIdx: -1, rootIdx: -1, typeVals: map[int64]int{}}
	byName := map[string]int{"Parent": lParent, "FirstChild": lFirst, "LastChild": lLast, "PrevSibling": lPrev, "NextSibling": lNext}
	for i := 0; i < nodeSt.NumFields(); i++ {
		f := nodeSt.Field(i)
		if slot, ok := byName[f.Name()]; ok && isPtrToNamed(f.Type(), nodeT) {
			it0.linkIdx[i] = slot
		}
		if f.Name() == "Type" {
			it0.typeIdx = i
		}
	}
	for name, mt := range map[string]int{"DocumentNode": c11navDoc, "ElementNode": c11navElem, "TextNode": c11navText, "AttributeNode": c11navAttr} {
		if cst, ok := p.Types.Scope().Lookup(name).(*types.Const); ok {
			if v, ok := constant.Int64Val(cst.Val()); ok {
				it0.typeVals[v] = mt
			}
		}
	}
	// cur = field returned by Current(); root = the other *Node field
	if cur := c.MethodOfPkg(p.Types, navT.Obj().Name(), "Current"); cur != nil {
		for _, b := range cur.Blocks {
			for _, in := range b.Instrs {
				if rt, ok := in.(*ssa.Return); ok && len(rt.Results) == 1 {
					if u, ok := rt.Results[0].(*ssa.UnOp); ok {
						if fa, ok := u.X.(*ssa.FieldAddr); ok {
							it0.curIdx = fa.Field
						}
					}
				}
			}
		}
	}
	for i := 0; i < navSt.NumFields(); i++ {
		if isPtrToNamed(navSt.Field(i).Type(), nodeT) && i != it0.curIdx {
			it0.rootIdx = i
		}
	}
	if len(it0.linkIdx) != nLinks || it0.typeIdx < 0 || it0.curIdx < 0 || it0.rootIdx < 0 || len(it0.typeVals) != 4 {
		return it0, nil, nil, "navigator/node field roles", "could not map link fields, Type, cursor and root fields or the four NodeType constants"
	}
	return it0, p.Types, navT, "", ""
}

// c11navTry runs fn on the interpreter and converts the interpreter's own failures into an error.
func c11navTry(it *c11navInterp, fn *ssa.Function) (res []c11navVal, err error) {
	defer func() {
		if r := recover(); r != nil {
			if ne, ok := r.(c11navErr); ok {
				err = ne
				return
			}
			panic(r)
		}
	}()
	return it.run(fn), nil
}

// c11navNodeTypeReturns drives the navigator's NodeType method with the cursor on a node whose Type is the constant k:
// decided=false if the interpreter cannot follow the method; otherwise returns=true iff the method returns a value
// (rather than reaching its panic).
func c11navNodeTypeReturns(c *core.Ctx, fn *ssa.Function, k int64) (returns, decided bool, why string) {
	it0, _, _, role, w := c11navPrepare(c)
	if role != "" {
		return false, false, role + ": " + w
	}
	world := c11navBuild(0, 1)
	it := it0
	it.w, it.navCur, it.navRoot, it.steps, it.typeOverride = world, 1, 0, 0, &k
	res, err := c11navTry(&it, fn)
	switch {
	case err == nil:
		if len(res) == 1 && res[0].kind == 5 {
			return true, true, ""
		}
		return false, false, "result of NodeType is not a decidable constant"
	case containsStr(err.Error(), "panic reached"):
		return false, true, err.Error()
	}
	return false, false, err.Error()
}

func c11NavModel(c *core.Ctx) {
	it0, idrTypes, navT, role, why := c11navPrepare(c)
	if role != "" {
		c.Unresolved("R11d", role, why)
		return
	}
	methods := []string{"MoveToParent", "MoveToChild", "MoveToFirst", "MoveToNext", "MoveToPrevious", "MoveToNextAttribute"}
	for _, m := range methods {
		fn := c.MethodOfPkg(idrTypes, navT.Obj().Name(), m)
		key := core.FuncKey(fn) + " model"
		if fn == nil || fn.Blocks == nil {
			c.Unresolved("R11d", "navigator method "+m, "not found")
			continue
		}
		cases, firstBad := 0, ""
		undecided := false
		for a := 0; a <= 2 && firstBad == ""; a++ {
			for mm := 0; mm <= 3 && firstBad == ""; mm++ {
				w := c11navBuild(a, mm)
				var positions []int
				for i := range w.nodes {
					positions = append(positions, i)
				}
				sort.Ints(positions)
				for _, pos := range positions {
					cases++
					it := it0
					it.w, it.navCur, it.navRoot, it.steps = w, pos, 0, 0
					var res []c11navVal
					err := func() (err error) {
						defer func() {
							if r := recover(); r != nil {
								if ne, ok := r.(c11navErr); ok {
									err = ne
									return
								}
								panic(r)
							}
						}()
						res = it.run(fn)
						return nil
					}()
					wantMoved, wantCur := w.ref(m, pos)
					where := fmt.Sprintf("element with %d attribute(s) and %d child(ren), cursor on %s", a, mm, w.nodes[pos].name)
					if err != nil {
						firstBad = where + ": " + err.Error()
						undecided = true
						if containsStr(err.Error(), "nil node dereferenced") || containsStr(err.Error(), "panic reached") || containsStr(err.Error(), "step bound") {
							undecided = false
						}
						break
					}
					if len(res) != 1 || res[0].kind != 4 {
						firstBad, undecided = where+": result is not a decidable bool", true
						break
					}
					gotCur := it.navCur
					if res[0].b != wantMoved || gotCur != wantCur {
						gn := "nil"
						if gotCur >= 0 {
							gn = w.nodes[gotCur].name
						}
						firstBad = fmt.Sprintf("%s: returns %v with the cursor on %s, the XPath data model requires %v with the cursor on %s", where, res[0].b, gn, wantMoved, w.nodes[wantCur].name)
						break
					}
				}
			}
		}
		switch {
		case firstBad == "":
			c.OK("R11d", key, fn.Pos(), fmt.Sprintf("agrees with the reference axis semantics on all %d model configurations", cases))
		case undecided:
			c.Unknown("R11d", key, fn.Pos(), firstBad)
		default:
			c.Bad("R11d", key, fn.Pos(), firstBad)
		}
	}
	// MoveToRoot: cursor = root
	if fn := c.MethodOfPkg(idrTypes, navT.Obj().Name(), "MoveToRoot"); fn != nil && fn.Blocks != nil {
		w := c11navBuild(1, 2)
		it := it0
		it.w, it.navCur, it.navRoot = w, 4, 0
		err := func() (err error) {
			defer func() {
				if r := recover(); r != nil {
					if ne, ok := r.(c11navErr); ok {
						err = ne
						return
					}
					panic(r)
				}
			}()
			it.run(fn)
			return nil
		}()
		okDoc := err == nil && it.navCur == 0
		// a query started on an inner node: the navigator's root is that node, and "/" must anchor there
		it2 := it0
		it2.w, it2.navCur, it2.navRoot = w, 4, 1
		err2 := func() (err error) {
			defer func() {
				if r := recover(); r != nil {
					if ne, ok := r.(c11navErr); ok {
						err = ne
						return
					}
					panic(r)
				}
			}()
			it2.run(fn)
			return nil
		}()
		okInner := err2 == nil && it2.navCur == 1
		c.Check(okDoc && okInner, "R11d", core.FuncKey(fn)+" model", fn.Pos(), "cursor moves to the navigator's root (document root and inner-node root)", "MoveToRoot does not leave the cursor on the navigator's own root (absolute paths evaluated from an inner node anchor at the wrong node)")
	}
	c.Floor("R11d", 7, "six movement methods + MoveToRoot")
}
