package rules

import (
	"fmt"
	"go/token"
	"go/types"
	"sort"
	"strings"

	"golang.org/x/tools/go/ssa"

	"omnilint/core"
)

// c08MustPass: every path from instruction `from` to a return of the function executes `through`.
func c08MustPass(from, through ssa.Instruction) bool {
	if from.Block() == through.Block() && core.InstrIndex(through) > core.InstrIndex(from) {
		return true
	}
	seen := map[*ssa.BasicBlock]bool{}
	var walk func(b *ssa.BasicBlock) bool // true = a return is reachable without `through`
	walk = func(b *ssa.BasicBlock) bool {
		if b == through.Block() || seen[b] {
			return false
		}
		seen[b] = true
		if _, ok := b.Instrs[len(b.Instrs)-1].(*ssa.Return); ok {
			return true
		}
		for _, s := range b.Succs {
			if walk(s) {
				return true
			}
		}
		return false
	}
	if _, ok := from.Block().Instrs[len(from.Block().Instrs)-1].(*ssa.Return); ok {
		return false
	}
	for _, s := range from.Block().Succs {
		if walk(s) {
			return false
		}
	}
	return true
}

// c08Attach follows a created node forwards: where is it attached, what else happens to it.
type c08Attach struct {
	r        *c08roles
	cursor   *types.Var
	attaches []*ssa.Call // AddChild(_, v)
	other    []string
	depth    int
}

func (a *c08Attach) follow(v ssa.Value, seen map[ssa.Value]bool, depth int) {
	if seen[v] || depth > 4 {
		return
	}
	seen[v] = true
	for _, u := range core.Referrers(v) {
		switch x := u.(type) {
		case *ssa.DebugRef:
		case *ssa.Phi:
			a.follow(x, seen, depth)
		case *ssa.Store:
			if x.Val != v {
				a.other = append(a.other, "used as a store address")
				continue
			}
			if fa, ok := x.Addr.(*ssa.FieldAddr); ok && core.FieldOfAddr(fa) == a.cursor {
				continue // cursor advance
			}
			a.other = append(a.other, "stored into "+c08Describe(x.Addr))
		case *ssa.Return:
			fn := x.Parent()
			idx := -1
			for i, rv := range x.Results {
				if rv == v {
					idx = i
				}
			}
			a.other = append(a.other, fmt.Sprintf("returned from %s (result %d)", core.FuncKey(fn), idx))
		case *ssa.Call:
			if x.Call.StaticCallee() == a.r.addChild && len(x.Call.Args) == 2 {
				if x.Call.Args[1] == v {
					a.attaches = append(a.attaches, x)
				}
				if x.Call.Args[0] == v {
					a.other = append(a.other, "used directly as AddChild parent")
				}
				continue
			}
			cf := c08RepoCallee(x)
			if cf == nil {
				a.other = append(a.other, "passed to "+c08CalleeName(x))
				continue
			}
			for i, arg := range x.Call.Args {
				if arg == v && i < len(cf.Params) {
					a.follow(cf.Params[i], seen, depth+1)
				}
			}
		case *ssa.FieldAddr:
			// reading/writing a field of the fresh node (e.g. FormatSpecific in the constructor wrappers)
			a.other = append(a.other, "field "+core.FieldOfAddr(x).Name()+" accessed")
		default:
			a.other = append(a.other, fmt.Sprintf("used by %T", u))
		}
	}
}

func c08Describe(v ssa.Value) string {
	if fa, ok := v.(*ssa.FieldAddr); ok {
		return "field " + core.FieldOfAddr(fa).Name()
	}
	return fmt.Sprintf("%T", v)
}

// c08SiblingCursor: v is the loop variable of "for c := n.FirstChild; c != nil; c = c.NextSibling" over node value n.
func c08SiblingCursor(r *c08roles, v ssa.Value, n ssa.Value) (bool, string) {
	phi, ok := v.(*ssa.Phi)
	if !ok {
		return false, fmt.Sprintf("the converted child is not a loop variable (%T)", v)
	}
	hasFirst, hasNext := false, false
	var check func(e ssa.Value, depth int) string
	check = func(e ssa.Value, depth int) string {
		if e == ssa.Value(phi) {
			return ""
		}
		if p2, ok := e.(*ssa.Phi); ok && depth < 4 {
			for _, e2 := range p2.Edges {
				if why := check(e2, depth+1); why != "" {
					return why
				}
			}
			return ""
		}
		fl, fa := c04FieldLoad(e)
		switch {
		case fl == r.firstChild && fa != nil && fa.X == n:
			hasFirst = true
			return ""
		case fl == r.nextSib && fa != nil && (fa.X == ssa.Value(phi) || c08PhiOf(fa.X, phi)):
			hasNext = true
			return ""
		case fl != nil:
			return "the loop variable is advanced through field " + fl.Name()
		}
		return fmt.Sprintf("the loop variable is assigned a %T", e)
	}
	for _, e := range phi.Edges {
		if why := check(e, 0); why != "" {
			return false, why
		}
	}
	if !hasFirst || !hasNext {
		return false, "the loop does not start at FirstChild of the converted node and advance by NextSibling"
	}
	return true, ""
}

// c08PhiOf: v is a phi all of whose edges are phi itself or phis of it (nested loop headers).
func c08PhiOf(v ssa.Value, phi *ssa.Phi) bool {
	p, ok := v.(*ssa.Phi)
	if !ok {
		return false
	}
	for _, e := range p.Edges {
		if e != ssa.Value(phi) && e != ssa.Value(p) {
			return false
		}
	}
	return true
}

// c08ConvCall: v (behind interface boxing) is a call to a converter-like function of package idr (takes one node,
// returns interface{}); returns the node argument.
func c08ConvCall(r *c08roles, v ssa.Value) (*ssa.Call, ssa.Value) {
	call, ok := core.Unwrap(v, true).(*ssa.Call)
	if !ok {
		return nil, nil
	}
	cf := c08RepoCallee(call)
	if cf == nil || core.FuncPkg(cf) != r.idr || cf.Signature.Results().Len() != 1 {
		return nil, nil
	}
	if _, ok := cf.Signature.Results().At(0).Type().Underlying().(*types.Interface); !ok {
		return nil, nil
	}
	np := c08NodeParam(cf, r.node)
	if np < 0 || np >= len(call.Call.Args) {
		return nil, nil
	}
	return call, call.Call.Args[np]
}

// c08VarargElems: the values stored into the backing array of a varargs/composite slice.
func c08VarargElems(s *ssa.Slice) ([]ssa.Value, bool) {
	al, ok := s.X.(*ssa.Alloc)
	if !ok {
		return nil, false
	}
	var out []ssa.Value
	for _, u := range core.Referrers(al) {
		ia, ok := u.(*ssa.IndexAddr)
		if !ok {
			continue
		}
		for _, uu := range core.Referrers(ia) {
			if st, ok := uu.(*ssa.Store); ok && st.Addr == ssa.Value(ia) {
				out = append(out, st.Val)
			}
		}
	}
	return out, true
}

func c08RuleC(c *core.Ctx, r *c08roles, prov *c08Prov) {
	// (i) every node created by a reader method is attached under the cursor
	for _, tn := range []*types.TypeName{r.xmlReader, r.jsonReader} {
		meths := c08ReaderMethods(r, tn)
		cur, amb := c08CursorOf(r, meths)
		if cur == nil || amb {
			c.Unresolved("R08c", "cursor of "+c04TypeKey(tn), "the *Node field that is AddChild's parent and is re-assigned by the reader's methods could not be determined")
			continue
		}
		n := 0
		for _, f := range meths {
			for _, ci := range core.Calls(f) {
				call, ok := ci.(*ssa.Call)
				if !ok {
					continue
				}
				cf := call.Call.StaticCallee()
				if cf != r.createXML && cf != r.createJSON && cf != r.createNode {
					continue
				}
				n++
				key := core.FuncKey(f) + " attaches the node it creates"
				a := &c08Attach{r: r, cursor: cur}
				a.follow(call, map[ssa.Value]bool{}, 0)
				switch {
				case len(a.other) > 0:
					sort.Strings(a.other)
					c.Unknown("R08c", key, call.Pos(), "the created node is also "+strings.Join(c08Uniq(a.other), ", ")+": where it ends up in the tree is not decided")
				case len(a.attaches) != 1:
					c.Bad("R08c", key, call.Pos(), fmt.Sprintf("the created node is attached by %d AddChild calls (exactly one expected): a token's node is lost or duplicated", len(a.attaches)))
				default:
					at := a.attaches[0]
					okParent := c04IsLoadOf(at.Call.Args[0], cur)
					okPath := at.Parent() != f || c08MustPass(call, at)
					c.Check(okParent && okPath, "R08c", key, call.Pos(), "AddChild(<cursor>, node) on every path",
						"the node is not attached as last child of the reader's cursor on every path (parent is the cursor: "+fmt.Sprint(okParent)+", on every path: "+fmt.Sprint(okPath)+"): document order / nesting of the tree no longer follows the token order")
				}
			}
		}
		if n == 0 {
			c.Unresolved("R08c", "node creations of "+c04TypeKey(tn), "the reader's methods create no node")
		}
	}

	// (ii) arrays are rebuilt in sibling order
	k := c08Converter(r)
	if k == nil {
		c.Unresolved("R08c", "converter", "J2NodeToInterface does not delegate to a function of package idr that takes its node and returns interface{}")
		return
	}
	np := c08NodeParam(k, r.node)
	if np < 0 {
		c.Unresolved("R08c", "converter node parameter", "the converter does not have exactly one *Node parameter")
		return
	}
	nodeParam := ssa.Value(k.Params[np])
	rets, vals := c08SliceReturns(k)
	if len(rets) == 0 {
		c.Unresolved("R08c", "array construction", "the converter returns no []interface{}")
	}
	for i, rt := range rets {
		key := "J2NodeToInterface converter array construction"
		var problems []string
		nApp := 0
		seen := map[ssa.Value]bool{}
		var visit func(v ssa.Value, node ssa.Value, depth int)
		visit = func(v ssa.Value, node ssa.Value, depth int) {
			if seen[v] || depth > 30 {
				return
			}
			seen[v] = true
			switch x := v.(type) {
			case *ssa.Phi:
				for _, e := range x.Edges {
					visit(e, node, depth+1)
				}
			case *ssa.MakeSlice:
			case *ssa.Const:
			case *ssa.Slice:
				if elems, ok := c08VarargElems(x); ok {
					// make([]T, const) or a composite literal: fresh backing array
					if len(elems) > 0 {
						problems = append(problems, "the array starts from a composite literal with elements")
					}
					return
				}
				problems = append(problems, "the slice is re-sliced before it is returned")
				visit(x.X, node, depth+1)
			case *ssa.Call:
				bn, ok := x.Call.Value.(*ssa.Builtin)
				if !ok || bn.Name() != "append" || len(x.Call.Args) != 2 {
					// a helper of package idr that receives the converted node: the array is what the helper returns,
					// built from the helper's own parameter
					if cf, hnode := g5HelperFor(r, x, node); cf != nil && !ok {
						nr := 0
						for _, hrt := range ecReturns(cf) {
							if len(hrt.Results) == 1 {
								nr++
								visit(core.Unwrap(hrt.Results[0], true), hnode, depth+1)
							}
						}
						if nr > 0 {
							return
						}
					}
					problems = append(problems, "the slice is the result of "+c08CalleeName(x))
					return
				}
				nApp++
				visit(x.Call.Args[0], node, depth+1)
				sl, ok := x.Call.Args[1].(*ssa.Slice)
				var elems []ssa.Value
				if ok {
					elems, ok = c08VarargElems(sl)
				}
				if !ok {
					problems = append(problems, "another slice is spliced into the array")
					return
				}
				for _, e := range elems {
					_, cursor := c08ConvCall(r, e)
					if cursor == nil {
						ts := prov.Resolve(e, nil)
						problems = append(problems, "an appended element is not the conversion of a child node but "+ts.String())
						continue
					}
					if ok, why := c08SiblingCursor(r, cursor, node); !ok {
						problems = append(problems, why)
					}
				}
			default:
				problems = append(problems, fmt.Sprintf("the slice derives from a %T", v))
			}
		}
		visit(vals[i], nodeParam, 0)
		if nApp == 0 {
			problems = append(problems, "no append builds the returned slice")
		}
		sort.Strings(problems)
		c.Check(len(problems) == 0, "R08c", key, rt.Pos(), "appended in FirstChild/NextSibling order, each element the conversion of the loop's child",
			"the array handed out for a node is not built by appending the conversion of each child in sibling order: "+strings.Join(c08Uniq(problems), "; "))
	}

	// (iii) object entries: name and value come from the same child
	nEnt := 0
	// the entries are stored by the converter or by a helper it hands the node to and whose result it returns
	type entrySite struct {
		mu   *ssa.MapUpdate
		node ssa.Value
	}
	var entrySites []entrySite
	for _, bld := range g5Builders(r, k, np) {
		for _, b := range bld.fn.Blocks {
			for _, in := range b.Instrs {
				if mu, ok := in.(*ssa.MapUpdate); ok && c08IsIfaceMap(mu.Map.Type()) {
					entrySites = append(entrySites, entrySite{mu, bld.node})
				}
			}
		}
	}
	for _, es := range entrySites {
		{
			mu, nodeParam := es.mu, es.node
			if _, isConst := mu.Key.(*ssa.Const); isConst {
				continue
			}
			nEnt++
			key := "J2NodeToInterface converter object entry"
			// the key: name function applied to a sibling cursor
			kc, ok := mu.Key.(*ssa.Call)
			var nameFn *ssa.Function
			if ok {
				nameFn = c08RepoCallee(kc)
			}
			if nameFn == nil || core.FuncPkg(nameFn) != r.idr || c08NodeParam(nameFn, r.node) < 0 {
				c.Unknown("R08c", key, mu.Pos(), "the key of an object entry is not the result of a naming function of package idr applied to a child node")
				continue
			}
			cursor := kc.Call.Args[c08NodeParam(nameFn, r.node)]
			if ok, why := c08SiblingCursor(r, cursor, nodeParam); !ok {
				c.Bad("R08c", key, mu.Pos(), "the key of an object entry does not name a child of the converted node: "+why)
				continue
			}
			// the naming function returns Data for a JSON node
			nfp := c08NodeParam(nameFn, r.node)
			setup := func() (*c08Machine, []c08AV) {
				m := &c08Machine{r: r, prov: prov, child: map[int]int{}, typedMode: true}
				n := m.newNode(c08SymNode{nonNil: true})
				args := make([]c08AV, len(nameFn.Params))
				for i, fp := range nameFn.Params {
					switch {
					case i == nfp:
						args[i] = c08AV{K: c08NodeV, N: n}
					case c08IsPointer(fp.Type()):
						args[i] = c08AV{K: c08Obj}
					}
				}
				return m, args
			}
			outs, sts := c08Explore(setup, nameFn)
			var nameBad []string
			for i, o := range outs {
				if sts[i] != "" || o.K != c08DataV || o.N != 0 {
					nameBad = append(nameBad, o.String())
				}
			}
			// the value: every conversion it contains is the conversion of the same child
			var valBad []string
			nConv := 0
			seen := map[ssa.Value]bool{}
			var visit func(v ssa.Value, depth int)
			visit = func(v ssa.Value, depth int) {
				v = core.Unwrap(v, true)
				if seen[v] || depth > 20 {
					return
				}
				seen[v] = true
				if call, cur2 := c08ConvCall(r, v); call != nil {
					nConv++
					if cur2 != cursor {
						valBad = append(valBad, "the value converts another node than the one that names the entry")
					}
					return
				}
				switch x := v.(type) {
				case *ssa.Phi:
					for _, e := range x.Edges {
						visit(e, depth+1)
					}
				case *ssa.Call:
					if bn, ok := x.Call.Value.(*ssa.Builtin); ok && bn.Name() == "append" {
						for _, a := range x.Call.Args {
							visit(a, depth+1)
						}
						return
					}
					valBad = append(valBad, "the value is the result of "+c08CalleeName(x))
				case *ssa.Slice:
					if elems, ok := c08VarargElems(x); ok {
						for _, e := range elems {
							visit(e, depth+1)
						}
						return
					}
					visit(x.X, depth+1)
				case *ssa.TypeAssert:
					visit(x.X, depth+1)
				case *ssa.Extract:
					visit(x.Tuple, depth+1)
				case *ssa.Lookup:
					if x.X != mu.Map {
						valBad = append(valBad, "the value is read from another map")
					}
				case *ssa.Const:
				default:
					valBad = append(valBad, fmt.Sprintf("the value derives from a %T", v))
				}
			}
			visit(mu.Value, 0)
			if nConv == 0 {
				valBad = append(valBad, "the value contains no conversion of the child")
			}
			sort.Strings(valBad)
			sort.Strings(nameBad)
			detail := ""
			if len(nameBad) > 0 {
				detail += "for a JSON node the entry name is not the node's Data but " + strings.Join(c08Uniq(nameBad), " / ") + "; "
			}
			if len(valBad) > 0 {
				detail += strings.Join(c08Uniq(valBad), "; ")
			}
			c.Check(detail == "", "R08c", key, mu.Pos(), "entry name = Data of the child (JSON), value = conversion of the same child",
				"an object entry does not pair a child's name with that child's value: "+detail)
		}
	}
	if nEnt == 0 {
		c.Unresolved("R08c", "object entries", "the converter stores no entry into a map[string]interface{}")
	}
}

// ---------------------------------------------------------------- R08d

// c08CopyFunc: the function registered under "copy" in the built-in custom function table of omniv21.
func c08CopyFunc(c *core.Ctx) *ssa.Function {
	sp := c.SSAPkg("extensions/omniv21/customfuncs")
	if sp == nil {
		return nil
	}
	var found *ssa.Function
	for _, m := range sp.Members {
		f, ok := m.(*ssa.Function)
		if !ok || f.Blocks == nil {
			continue
		}
		if f.Name() != "init" {
			continue
		}
		for _, b := range f.Blocks {
			for _, in := range b.Instrs {
				mu, ok := in.(*ssa.MapUpdate)
				if !ok {
					continue
				}
				k, ok := mu.Key.(*ssa.Const)
				if !ok || k.Value == nil || k.Value.ExactString() != `"copy"` {
					continue
				}
				if fn, ok := core.Unwrap(mu.Value, true).(*ssa.Function); ok {
					found = fn
				}
			}
		}
	}
	return found
}

func c08RuleD(c *core.Ctx, r *c08roles, prov *c08Prov) {
	checkCall := func(owner *ssa.Function, call *ssa.Call, ctx []*ssa.Call) string {
		np := c08NodeParam(owner, r.node)
		if np < 0 {
			return "the function does not have exactly one *idr.Node parameter"
		}
		ts := prov.Resolve(call.Call.Args[0], ctx)
		want := core.FuncKey(owner) + " parameter " + owner.Params[np].Name()
		for _, t := range ts {
			if !(t.Kind == "param" && t.Root == want && t.Path == "") {
				return "the converted node is not the function's own node parameter but " + ts.String()
			}
		}
		if len(ts) == 0 {
			return "the converted node has no origin"
		}
		tt := prov.Resolve(call.Call.Args[1], ctx)
		for _, t := range tt {
			if !(t.Kind == "const" && t.Root == "true") {
				return "the typed-mode argument is not the constant true but " + tt.String() + ": numbers, booleans and null are returned as strings"
			}
		}
		return ""
	}
	// leaves: expand a returned value through phis and repository helpers down to calls
	var leaves func(v ssa.Value, ctx []*ssa.Call, depth int, out *[]c08Pair)
	leaves = func(v ssa.Value, ctx []*ssa.Call, depth int, out *[]c08Pair) {
		if depth > 6 {
			*out = append(*out, c08Pair{d: v, dctx: ctx})
			return
		}
		if phi, ok := v.(*ssa.Phi); ok {
			for _, e := range phi.Edges {
				leaves(e, ctx, depth+1, out)
			}
			return
		}
		if call, idx := c08ResultOf(v); call != nil && call.Call.StaticCallee() != r.j2 {
			for _, rt := range ecReturns(c08RepoCallee(call)) {
				if idx < len(rt.Results) {
					leaves(rt.Results[idx], append(append([]*ssa.Call{}, ctx...), call), depth+1, out)
				}
			}
			return
		}
		*out = append(*out, c08Pair{d: v, dctx: ctx})
	}

	cp := c08CopyFunc(c)
	if cp == nil {
		c.Unresolved("R08d", "copy custom function", "no function is registered under \"copy\" in the custom function table of extensions/omniv21/customfuncs")
	} else {
		r.stop[cp] = true
		key := core.FuncKey(cp) + " returns J2NodeToInterface(own node, true)"
		var problems []string
		for _, rt := range ecReturns(cp) {
			if len(rt.Results) != 2 {
				problems = append(problems, "unexpected result arity")
				continue
			}
			if !core.IsNilConst(rt.Results[1]) {
				continue // error exit
			}
			var ls []c08Pair
			leaves(rt.Results[0], nil, 0, &ls)
			for _, l := range ls {
				call, ok := l.d.(*ssa.Call)
				if !ok || call.Call.StaticCallee() != r.j2 {
					problems = append(problems, fmt.Sprintf("a returned value is not the result of idr.J2NodeToInterface (%T)", l.d))
					continue
				}
				if why := checkCall(cp, call, l.dctx); why != "" {
					problems = append(problems, why)
				}
			}
		}
		sort.Strings(problems)
		c.Check(len(problems) == 0, "R08d", key, cp.Pos(), "returns the typed conversion of its own node", "the copy function does not return the typed conversion of the node it is given: "+strings.Join(c08Uniq(problems), "; "))
	}
	{
		f := r.jsonify2
		r.stop[f] = true
		key := core.FuncKey(f) + " marshals J2NodeToInterface(own node, true)"
		var problems []string
		n := 0
		for _, ci := range core.Calls(f) {
			call, ok := ci.(*ssa.Call)
			if !ok || call.Call.StaticCallee() != r.j2 {
				continue
			}
			n++
			if why := checkCall(f, call, nil); why != "" {
				problems = append(problems, why)
			}
			// the conversion is what gets marshalled and returned
			okFlow := false
			for _, u := range core.Referrers(call) {
				if mc, ok := u.(*ssa.Call); ok && core.IsCallTo(mc, "encoding/json", "Marshal") {
					for _, rt := range ecReturns(f) {
						if len(rt.Results) == 1 && c04DependsOn(rt.Results[0], func(v ssa.Value) bool { return v == ssa.Value(mc) }) {
							okFlow = true
						}
					}
				}
			}
			if !okFlow {
				problems = append(problems, "the conversion is not what json.Marshal receives and the function returns")
			}
		}
		if n == 0 {
			problems = append(problems, "no call to J2NodeToInterface")
		}
		sort.Strings(problems)
		c.Check(len(problems) == 0, "R08d", key, f.Pos(), "marshals the typed conversion of its own node", "JSONify2 does not marshal the typed conversion of the node it is given: "+strings.Join(c08Uniq(problems), "; "))
	}
}

// ---------------------------------------------------------------- R08e

// c08TextCreation: call creates an XML text node whose data derives (under ctx) only from the CharData token.
func c08TextCreation(r *c08roles, prov *c08Prov, call *ssa.Call, ctx []*ssa.Call) bool {
	if call.Call.StaticCallee() != r.createXML {
		return false
	}
	k, ok := call.Call.Args[0].(*ssa.Const)
	if !ok || k.Value == nil || r.nodeTypes[k.Value.ExactString()] != "TextNode" {
		return false
	}
	ts := prov.Resolve(call.Call.Args[1], ctx)
	if len(ts) == 0 {
		return false
	}
	for _, t := range ts {
		if !(t.Kind == "src" && t.Root == "xml.Token#0" && t.Path == "(xml.CharData)") {
			return false
		}
	}
	return true
}

// c08ContentIfs: the branch conditions on the blocks between `from` (exclusive start: rest of its block) and `to`
// that depend on value v.
func c08ContentIfs(from, to ssa.Instruction, v func(ssa.Value) bool) []token.Pos {
	var out []token.Pos
	canReach := map[*ssa.BasicBlock]bool{}
	var back func(b *ssa.BasicBlock)
	back = func(b *ssa.BasicBlock) {
		if canReach[b] {
			return
		}
		canReach[b] = true
		for _, p := range b.Preds {
			back(p)
		}
	}
	back(to.Block())
	seen := map[*ssa.BasicBlock]bool{}
	var fwd func(b *ssa.BasicBlock)
	fwd = func(b *ssa.BasicBlock) {
		if seen[b] || !canReach[b] || b == to.Block() {
			return
		}
		seen[b] = true
		if ifi, ok := b.Instrs[len(b.Instrs)-1].(*ssa.If); ok && c04DependsOn(ifi.Cond, v) {
			out = append(out, core.InstrPos(ifi))
		}
		for _, s := range b.Succs {
			fwd(s)
		}
	}
	if from.Block() != to.Block() {
		fwd(from.Block())
	}
	return out
}

func c08RuleE(c *core.Ctx, r *c08roles, prov *c08Prov) {
	n := 0
	for _, f := range r.methods[r.xmlReader] {
		for _, b := range f.Blocks {
			for _, in := range b.Instrs {
				ta, ok := in.(*ssa.TypeAssert)
				if !ok {
					continue
				}
				if nt := core.NamedOf(ta.AssertedType); nt == nil || nt.Obj().Pkg() == nil || nt.Obj().Pkg().Path() != "encoding/xml" || nt.Obj().Name() != "CharData" {
					continue
				}
				n++
				key := core.FuncKey(f) + " CharData token becomes a text node"
				// the value and the point where the assertion has succeeded
				var val ssa.Value = ta
				var start ssa.Instruction = ta
				if ta.CommaOk {
					val = nil
					var okv ssa.Value
					for _, u := range core.Referrers(ta) {
						if ex, ok := u.(*ssa.Extract); ok {
							if ex.Index == 0 {
								val = ex
							} else {
								okv = ex
							}
						}
					}
					start = nil
					if okv != nil {
						for _, u := range core.Referrers(okv) {
							if ifi, ok := u.(*ssa.If); ok && ifi.Cond == okv && len(ifi.Block().Succs[0].Instrs) > 0 {
								start = ifi.Block().Succs[0].Instrs[0]
							}
						}
					}
					if val == nil || start == nil {
						c.Unknown("R08e", key, ta.Pos(), "the success edge of the CharData type test could not be located")
						continue
					}
				}
				isVal := func(v ssa.Value) bool { return v == val }
				// candidates: calls in f, after start, that create the text node or hand the data to a function that does so unconditionally
				var through *ssa.Call
				var why []string
				for _, ci := range core.Calls(f) {
					call, ok := ci.(*ssa.Call)
					if !ok {
						continue
					}
					uses := false
					for _, a := range call.Call.Args {
						if c04DependsOn(a, isVal) {
							uses = true
						}
					}
					if !uses {
						continue
					}
					if c08TextCreation(r, prov, call, nil) {
						through = call
						break
					}
					g := c08RepoCallee(call)
					if g == nil {
						continue
					}
					for _, ci2 := range core.Calls(g) {
						c2, ok := ci2.(*ssa.Call)
						if !ok || !c08TextCreation(r, prov, c2, []*ssa.Call{call}) {
							continue
						}
						entry := g.Blocks[0].Instrs[0]
						if !(entry == ssa.Instruction(c2) || c08MustPass(entry, c2)) {
							why = append(why, core.FuncKey(g)+" does not create the text node on every path")
							continue
						}
						gp := map[ssa.Value]bool{}
						for _, p := range g.Params {
							gp[p] = true
						}
						if ifs := c08ContentIfs(entry, c2, func(v ssa.Value) bool { return gp[v] }); len(ifs) > 0 {
							why = append(why, core.FuncKey(g)+" branches on its arguments before creating the text node")
							continue
						}
						through = call
					}
					if through != nil {
						break
					}
				}
				if through == nil {
					sort.Strings(why)
					c.Bad("R08e", key, ta.Pos(), "no call after the CharData type test creates a text node carrying exactly the token's bytes"+func() string {
						if len(why) > 0 {
							return " (" + strings.Join(c08Uniq(why), "; ") + ")"
						}
						return ""
					}())
					continue
				}
				okPass := start == ssa.Instruction(through) || c08MustPass(start, through) || (start.Block() == through.Block() && core.InstrIndex(through) >= core.InstrIndex(start))
				ifs := c08ContentIfs(start, through, isVal)
				c.Check(okPass && len(ifs) == 0, "R08e", key, ta.Pos(), "unconditionally",
					fmt.Sprintf("character data reaches the tree only conditionally (creation on every path: %v, content-dependent branches before it: %d): some character data the decoder reports is dropped", okPass, len(ifs)))
			}
		}
	}
	if n == 0 {
		c.Unresolved("R08e", "CharData type test", "no method of the XML stream reader tests a token for xml.CharData")
	}
}

// c08ReaderMethods: the methods (and their closures) of the reader type and of the struct types of package idr it
// embeds, directly or transitively (state moved into an embedded struct keeps its role).
func c08ReaderMethods(r *c08roles, tn *types.TypeName) []*ssa.Function {
	var out []*ssa.Function
	seen := map[*types.TypeName]bool{}
	var add func(t *types.TypeName, depth int)
	add = func(t *types.TypeName, depth int) {
		if t == nil || seen[t] || depth > 4 {
			return
		}
		seen[t] = true
		out = append(out, r.methods[t]...)
		st, ok := t.Type().Underlying().(*types.Struct)
		if !ok {
			return
		}
		for i := 0; i < st.NumFields(); i++ {
			f := st.Field(i)
			if !f.Embedded() {
				continue
			}
			if n := core.NamedOf(f.Type()); n != nil && n.Obj().Pkg() == r.idr {
				add(n.Obj(), depth+1)
			}
		}
	}
	add(tn, 0)
	return out
}

// c08CursorOf: the *Node field (of the reader or of a struct nested in it: resolved by field identity, whatever the
// nesting) that the methods use as AddChild's parent and also re-assign: the parse cursor.
func c08CursorOf(r *c08roles, meths []*ssa.Function) (cur *types.Var, ambiguous bool) {
	parents := map[*types.Var]bool{}
	stored := map[*types.Var]bool{}
	for _, m := range meths {
		for _, b := range m.Blocks {
			for _, in := range b.Instrs {
				switch x := in.(type) {
				case ssa.CallInstruction:
					if x.Common().StaticCallee() == r.addChild && len(x.Common().Args) == 2 {
						if f, _ := c04FieldLoad(x.Common().Args[0]); f != nil && c08IsPtrToNode(f.Type(), r.node) {
							parents[f] = true
						}
					}
				case *ssa.Store:
					if fa, ok := x.Addr.(*ssa.FieldAddr); ok {
						if f := core.FieldOfAddr(fa); f != nil && c08IsPtrToNode(f.Type(), r.node) {
							stored[f] = true
						}
					}
				}
			}
		}
	}
	var cands []*types.Var
	for f := range parents {
		// link fields of Node itself (n.Parent = …) are not reader state
		if stored[f] && !c08IsNodeField(r, f) {
			cands = append(cands, f)
		}
	}
	if len(cands) == 0 {
		return nil, false
	}
	if len(cands) > 1 {
		return nil, true
	}
	return cands[0], false
}

func c08IsNodeField(r *c08roles, f *types.Var) bool {
	for i := 0; i < r.nodeSt.NumFields(); i++ {
		if r.nodeSt.Field(i) == f {
			return true
		}
	}
	return false
}
