package rules

import (
	"go/constant"
	"go/token"
	"go/types"
	"sort"

	"golang.org/x/tools/go/ssa"

	"omnilint/core"
)

func init() {
	register(&RuleSet{
		Prop:  "C11",
		Title: "XPath queries over the node tree agree with a reference XML DOM",
		Explanation: "The hand-written navigator is correct only under a representation invariant established by the readers; that cross-module contract is checked. " +
			"R11a attributes are packed first and created in one place: every flow of the constant idr.AttributeNode into a node-creating call (any call that takes it, unless the resolved callee only ever compares that parameter - a type test, followed through forwarding calls) or into Node.Type, anywhere in the repository, must be an advance call of a stream reader inside the type case encoding/xml.StartElement; for each such site (1) walking backwards without crossing a token fetch reaches the advance call that attached the element itself, (2) on every path from the element's attachment to the attribute's no other child was attached to the element, the cursor was not moved away and the candidate check (which evaluates xpath over the element) has not yet run, (3) after the attribute the cursor is restored to the element (cur = cur.Parent) before the next attribute / candidate check / token fetch / return; " +
			"R11b node-type exhaustiveness: the NodeType method of every xpath.NodeNavigator implementation in package idr compares the node's type with every declared constant of idr.NodeType - in the method itself or in a helper of package idr the node's Type is handed to (parameter binding, depth <= 3; the method is then interpreted with the cursor on a node of that type and must return rather than panic); every NodeType value passed to a function or stored into Node.Type in the repository is a declared constant, a forwarded parameter or the Type of an existing node, and Node.Type is stored only by the node API of package idr; " +
			"R11c attribute text is excluded from the string-value: in Node.InnerText (its closures and the functions of package idr it statically calls, transitively) every use of a node obtained through a child/sibling link - recursion, text capture - is dominated by the not-AttributeNode edge of a test of that node's Type.",
		NotDecided: "every navigation method's agreement with DOM semantics (MoveToNext/Previous/First/Child are only covered through the invariant they assume), document order, positional predicates, namespace prefix resolution, the xpath engine itself; trees built by caller-supplied readers.",
		Trusted:    append([]string{"antchfx/xpath drives the navigator only through the xpath.NodeNavigator interface", "encoding/xml reports all attributes of an element in its StartElement token"}, commonTrusted...),
		Run:        runC11,
	})
	control(Control{ID: "c11-attrs-after-check", Prop: "C11", File: "idr/xmlreader.go",
		Old: "\t\t\tfor _, attr := range tok.Attr {\n\t\t\t\terr = sp.addNonTextChild(AttributeNode, attr.Name)\n\t\t\t\tif err != nil {\n\t\t\t\t\treturn nil, err\n\t\t\t\t}\n\t\t\t\tsp.addTextChild(attr.Value)\n" +
			"\t\t\t\t// Remember sp.addNonTextChild auto advances sp.cur to the newly added child node\n\t\t\t\t// and sp.addTextChild doesn't. In this case, we're done with attr node and its\n\t\t\t\t// text node creation and there will be nothing more to be added below it, so back off.\n\t\t\t\tsp.cur = sp.cur.Parent\n\t\t\t}\n\t\t\tsp.streamCandidateCheck()\n",
		New:  "\t\t\tsp.streamCandidateCheck()\n\t\t\tfor _, attr := range tok.Attr {\n\t\t\t\terr = sp.addNonTextChild(AttributeNode, attr.Name)\n\t\t\t\tif err != nil {\n\t\t\t\t\treturn nil, err\n\t\t\t\t}\n\t\t\t\tsp.addTextChild(attr.Value)\n\t\t\t\tsp.cur = sp.cur.Parent\n\t\t\t}\n",
		Rule: "R11a", Substr: "XMLStreamReader).parse", Why: "attributes attached after the candidate check evaluated xpath over the element"})
	control(Control{ID: "c11-child-before-attrs", Prop: "C11", File: "idr/xmlreader.go",
		Old: "\t\t\tfor _, attr := range tok.Attr {\n", New: "\t\t\tif len(tok.Attr) > 3 {\n\t\t\t\tsp.addTextChild(\"\")\n\t\t\t}\n\t\t\tfor _, attr := range tok.Attr {\n",
		Rule: "R11a", Substr: "XMLStreamReader).parse", Why: "a text child precedes the attribute nodes: attributes are no longer packed first"})
	control(Control{ID: "c11-cursor-not-restored", Prop: "C11", File: "idr/xmlreader.go",
		Old: "\t\t\t\tsp.cur = sp.cur.Parent\n\t\t\t}\n\t\t\tsp.streamCandidateCheck()", New: "\t\t\t\tif attr.Name.Local != \"xmlns\" {\n\t\t\t\t\tsp.cur = sp.cur.Parent\n\t\t\t\t}\n\t\t\t}\n\t\t\tsp.streamCandidateCheck()",
		Rule: "R11a", Substr: "XMLStreamReader).parse", Why: "after an xmlns attribute the cursor stays on the attribute: the next nodes become children of an attribute"})
	control(Control{ID: "c11-attribute-elsewhere", Prop: "C11", File: "extensions/omniv21/fileformat/edi/reader.go",
		Old: "\t\t\t\telemN := idr.CreateNode(idr.ElementNode, elemDecl.Name)\n\t\t\t\tidr.AddChild(n, elemN)\n\t\t\t\tdata := string(", New: "\t\t\t\telemN := idr.CreateNode(idr.AttributeNode, elemDecl.Name)\n\t\t\t\tidr.AddChild(n, elemN)\n\t\t\t\tdata := string(",
		Rule: "R11a", Substr: "ediReader).rawSegToNode", Why: "attribute nodes created by another reader, possibly after element children"})
	control(Control{ID: "c11-new-nodetype", Prop: "C11", File: "idr/node.go",
		Old: "\t// AttributeNode is the type of attribute Node in an IDR tree.\n\tAttributeNode\n)", New: "\t// AttributeNode is the type of attribute Node in an IDR tree.\n\tAttributeNode\n\t// CommentNode is a comment.\n\tCommentNode\n)",
		Rule: "R11b", Substr: "navigator).NodeType handles idr.CommentNode", Why: "a fifth node type without a navigator case (NodeType() panics)"})
	control(Control{ID: "c11-computed-nodetype", Prop: "C11", File: "idr/jsonreader.go",
		Old: "\tchild := CreateJSONNode(ElementNode, data, jtype)", New: "\tchild := CreateJSONNode(NodeType(jtype&1)+ElementNode, data, jtype)",
		Rule: "R11b", Substr: "JSONStreamReader).addElementChild", Why: "node created with a computed type"})
	control(Control{ID: "c11-innertext-attr", Prop: "C11", File: "idr/node.go",
		Old: "\t\t\t\tif child.Type != AttributeNode {\n\t\t\t\t\tcaptureText(child)\n\t\t\t\t}", New: "\t\t\t\tcaptureText(child)",
		Rule: "R11c", Substr: "Node).InnerText", Why: "attribute values become part of the element's string-value"})
}

func runC11(c *core.Ctx) {
	e := c04NewEnv(c, "R11")
	if e == nil || !e.resolveReaders("R11") {
		return
	}
	attrVal, ntType, ok := e.nodeTypeConst("AttributeNode")
	if !ok {
		c.Unresolved("R11a", "idr.AttributeNode", "exported NodeType constant not found")
		return
	}
	// all declared constants of the node type
	type kconst struct {
		name string
		val  constant.Value
	}
	var consts []kconst
	for _, nm := range e.idr.Scope().Names() {
		if k, ok := e.idr.Scope().Lookup(nm).(*types.Const); ok && types.Identical(k.Type(), ntType) {
			consts = append(consts, kconst{nm, k.Val()})
		}
	}
	sort.Slice(consts, func(i, j int) bool { return consts[i].name < consts[j].name })
	isNT := func(t types.Type) bool { return types.Identical(t, ntType) }
	declared := func(v ssa.Value) bool {
		k, ok := v.(*ssa.Const)
		if !ok || k.Value == nil {
			return false
		}
		for _, kc := range consts {
			if constant.Compare(k.Value, token.EQL, kc.val) {
				return true
			}
		}
		return false
	}
	// a NodeType value is well-formed if it is a declared constant, a parameter (checked at the callers), the Type of
	// an existing node (checked at the stores into Node.Type) or a phi of those
	var wellFormed func(v ssa.Value, d int) bool
	wellFormed = func(v ssa.Value, d int) bool {
		switch x := v.(type) {
		case *ssa.Const:
			return declared(x)
		case *ssa.Parameter:
			return true
		case *ssa.UnOp:
			fld, fa := c04FieldLoad(x)
			return fa != nil && fld == e.typeFld
		case *ssa.Phi:
			if d > 4 {
				return false
			}
			for _, ed := range x.Edges {
				if !wellFormed(ed, d+1) {
					return false
				}
			}
			return true
		}
		return false
	}
	mayBeAttr := func(v ssa.Value) bool {
		return c04DependsOn(v, func(x ssa.Value) bool { return c04ConstIs(x, attrVal, ntType) })
	}
	nodeAPI := func(f *ssa.Function) bool {
		for f.Parent() != nil {
			f = f.Parent()
		}
		if core.FuncPkg(f) != e.idr {
			return false
		}
		if recv := f.Signature.Recv(); recv != nil {
			return c04IsPtrTo(recv.Type(), e.node) || types.Identical(recv.Type(), e.node)
		}
		return true
	}
	readerOf := func(f *ssa.Function) *c04Reader {
		for _, r := range e.readers {
			if e.isMethodOf(r, f) {
				return r
			}
		}
		return nil
	}

	// ---------------- creation flow inventory (R11a who-may-create, R11b constant types)
	type attrSite struct {
		r  *c04Reader
		fn *ssa.Function
		ci ssa.CallInstruction
	}
	var attrSites []attrSite
	for _, f := range e.fns {
		for _, b := range f.Blocks {
			for _, in := range b.Instrs {
				switch x := in.(type) {
				case *ssa.Store:
					fa, ok := x.Addr.(*ssa.FieldAddr)
					if !ok || core.FieldOfAddr(fa) != e.typeFld {
						continue
					}
					key := core.FuncKey(f) + " stores Node.Type"
					switch {
					case !nodeAPI(f):
						c.Bad("R11b", key, core.InstrPos(in), "Node.Type is assigned outside the node API of package idr: node kinds (and the packed-first position of attributes) are no longer decided at creation")
					case core.IsZeroConst(x.Val) || wellFormed(x.Val, 0):
						if mayBeAttr(x.Val) {
							c.Bad("R11a", core.FuncKey(f)+" creates AttributeNode", core.InstrPos(in), "the node API itself types a node as AttributeNode")
						} else {
							c.OK("R11b", key, core.InstrPos(in), "declared constant / forwarded parameter")
						}
					default:
						c.Bad("R11b", key, core.InstrPos(in), "Node.Type is assigned a value that is neither a declared NodeType constant nor a forwarded parameter")
					}
				case ssa.CallInstruction:
					cc := x.Common()
					sig := cc.Signature()
					if sig == nil {
						continue
					}
					if _, isBuiltin := cc.Value.(*ssa.Builtin); isBuiltin {
						continue
					}
					off := 0
					if !cc.IsInvoke() && sig.Recv() != nil {
						off = 1
					}
					for i, a := range cc.Args {
						pi := i - off
						if pi < 0 || !isNT(a.Type()) {
							continue
						}
						if pi >= sig.Params().Len() && !sig.Variadic() {
							continue
						}
						key := core.FuncKey(f) + " passes NodeType to " + c04CalleeKey(x)
						if !wellFormed(a, 0) {
							c.Bad("R11b", key, core.InstrPos(in), "a node type that is neither a declared constant nor a forwarded parameter flows into a creating call: the navigator's NodeType switch cannot be exhaustive for it")
							continue
						}
						if !mayBeAttr(a) {
							c.OK("R11b", key, core.InstrPos(in), "declared constant / forwarded parameter")
							continue
						}
						// a callee that only ever compares the parameter (a type test such as "is the candidate an
						// attribute?") cannot create a node of that type: the constant is a pattern, not a node's type
						if callee := cc.StaticCallee(); callee != nil && g5ParamCompareOnly(callee, i, map[*ssa.Parameter]bool{}) {
							c.OK("R11b", key, core.InstrPos(in), "the callee only compares the node type it is handed (no node is typed with it)")
							continue
						}
						// AttributeNode flows into a call: judged by the token walk below
						attrSites = append(attrSites, attrSite{readerOf(f), f, x})
					}
				}
			}
		}
	}
	if len(attrSites) == 0 {
		c.Unresolved("R11a", "AttributeNode creation site", "no function passes idr.AttributeNode to a node-creating call: the packed-first invariant has no establishing site to check")
	}

	// ---------------- R11a token walk: abstract interpretation of each stream reader's token handling.
	// mode: 0 nothing attached yet for the current token, 1 cursor on a freshly attached element that has only
	// attribute children so far and was not yet queried, 2 anything else, 3 cursor on an attribute node.
	const mNone, mElem, mDirty, mAttr = 0, 1, 2, 3
	siteIdx := map[ssa.Instruction]int{}
	for i, s := range attrSites {
		siteIdx[s.ci] = i
	}
	visited := map[int]bool{}
	bad := map[int]map[int]string{1: {}, 2: {}, 3: {}} // obligation kind -> site -> reason
	unknown := map[int]string{}
	for _, r := range e.readers {
		r := r
		called := map[*ssa.Function]bool{}
		for _, m := range r.methods {
			for _, ci := range core.Calls(m) {
				if cf := c04Callee(ci); cf != nil && e.isMethodOf(r, cf) {
					called[cf] = true
				}
			}
		}
		// node type of the node an advance store puts under the cursor, and the flow site it came from
		kindOf := func(w *c04Walker, st *ssa.Store) (isAttr bool, site int, known bool) {
			// the stored value may be the parameter of an inlined cursor helper (push(child)): the creation is the
			// argument bound on the inline stack
			call, ok := w.resolve(st.Val).(*ssa.Call)
			if !ok {
				return false, -1, false
			}
			for _, a := range call.Call.Args {
				if !isNT(a.Type()) {
					continue
				}
				v := w.resolve(a)
				k, isConst := v.(*ssa.Const)
				if !isConst {
					return false, -1, false
				}
				if !c04ConstIs(k, attrVal, ntType) {
					return false, -1, true
				}
				// the instruction where the constant enters: this creation call or a call on the inline stack
				if _, direct := a.(*ssa.Const); direct {
					if i, ok := siteIdx[call]; ok {
						return true, i, true
					}
				}
				for j := len(w.stack) - 1; j >= 0; j-- {
					for _, sa := range w.stack[j].Common().Args {
						if c04ConstIs(sa, attrVal, ntType) {
							if i, ok := siteIdx[w.stack[j]]; ok {
								return true, i, true
							}
						}
					}
				}
				return true, -1, true
			}
			return false, -1, true // creation function without a type argument (cannot be an attribute: covered by the inventory)
		}
		leaveAttr := func(st int, what string) {
			if st&3 == mAttr {
				site := st >> 2
				if _, dup := bad[3][site]; !dup {
					bad[3][site] = what
				}
			}
		}
		step := func(w *c04Walker, in ssa.Instruction, st int) (int, int) {
			mode := st & 3
			switch x := in.(type) {
			case *ssa.Store:
				switch {
				case e.advanceStore(r, x) || j2BoundAdvanceStore(e, r, w, x):
					isAttr, site, known := kindOf(w, x)
					if !known {
						leaveAttr(st, "a node of unknown type is attached")
						return mDirty, c04Cont
					}
					if !isAttr {
						leaveAttr(st, "the next element is attached")
						return mElem, c04Cont
					}
					if site < 0 {
						return mDirty, c04Cont
					}
					visited[site] = true
					switch mode {
					case mNone:
						bad[1][site] = "no element was attached for the current token before this attribute (the walk reaches the site from a token fetch or a method entry without passing an element's creation)"
					case mDirty:
						if _, dup := bad[2][site]; !dup {
							bad[2][site] = "another child was attached to the element, the cursor was moved, or the candidate check already ran xpath over the element"
						}
					case mAttr:
						leaveAttr(st, "the next attribute is attached")
					}
					return mAttr | site<<2, c04Cont
				case e.restoreStore(r, x):
					if mode == mAttr {
						return mElem, c04Cont
					}
					if mode == mElem {
						return mDirty, c04Cont
					}
					return st, c04Cont
				default:
					if _, isCur := c04StoreTo(x, r.cur); isCur {
						leaveAttr(st, "the cursor is re-assigned")
						return mDirty, c04Cont
					}
				}
			case ssa.CallInstruction:
				cf := c04Callee(x)
				switch {
				case cf == e.addChild:
					if c04IsLoadOf(x.Common().Args[0], r.cur) && mode == mElem {
						// an attach under the element: dirty unless it is the attach half of an advance (decided at the store)
						child := x.Common().Args[1]
						for _, b := range x.Parent().Blocks {
							for _, in2 := range b.Instrs {
								if v, ok := c04StoreTo(in2, r.cur); ok && v == child {
									return st, c04Cont
								}
							}
						}
						return mDirty, c04Cont
					}
					return st, c04Cont
				case cf != nil && (r.checkFn[cf] || r.wrapFn[cf]):
					leaveAttr(st, "the candidate check / wrap-up runs")
					if mode == mNone {
						return st, c04Cont
					}
					return mDirty, c04Cont
				case cf != nil && e.isMethodOf(r, cf):
					if w.canDescend(x) {
						return st, c04Descend
					}
					if mode == mAttr {
						unknown[st>>2] = "call chain too deep to follow at " + c04CalleeKey(x)
					}
					return mDirty, c04Cont
				case e.consumes(x):
					leaveAttr(st, "the next token is fetched")
					return mNone, c04Cont
				}
			case *ssa.Return:
				if !c04AbortReturn(x) {
					leaveAttr(st, "the method returns")
				}
				return st, c04Stop
			}
			return st, c04Cont
		}
		for _, m := range r.methods {
			if called[m] || m.Parent() != nil || len(m.Blocks) == 0 {
				continue
			}
			w := &c04Walker{step: step, bind: map[*ssa.Parameter]ssa.Value{}, maxDepth: 6}
			w.frame(m.Blocks[0], 0, mNone, nil)
		}
	}
	for i, s := range attrSites {
		base := core.FuncKey(s.fn) + " AttributeNode via " + c04CalleeKey(s.ci)
		pos := core.InstrPos(s.ci)
		akey := core.FuncKey(s.fn) + " creates AttributeNode via " + c04CalleeKey(s.ci)
		if !visited[i] {
			c.Bad("R11a", akey, pos, "an AttributeNode-typed node is created at a place that is not a cursor advance of a stream reader's token handling: nothing establishes that it precedes the element children the navigator (MoveToNextAttribute / MoveToChild / MoveToFirst) expects after the attributes")
			continue
		}
		detail := "cursor advance of a stream reader"
		if c11InTypeCase(s.ci.Block(), "encoding/xml", "StartElement") {
			detail += ", inside the type case encoding/xml.StartElement"
		}
		c.OK("R11a", akey, pos, detail)
		if why, isUnk := unknown[i]; isUnk {
			c.Unknown("R11a", base+": token walk", pos, why)
		}
		kinds := []struct {
			k          int
			name, good string
			tail       string
		}{
			{1, ": attached after its element", "every path from a token fetch / method entry passes the element's creation first", ": it becomes a child of the wrong node"},
			{2, ": packed before other children and before the candidate check", "between the element's attachment and the attribute's nothing else is attached to the element and no query runs", ": attributes are not the leading children the navigator assumes, or xpath ran over an element without its attributes"},
			{3, ": cursor restored to the element", "cur = cur.Parent on every path before the next attach / check / fetch / return", " while the cursor still points to the attribute node: following nodes become children of an attribute"},
		}
		for _, k := range kinds {
			if why, isBad := bad[k.k][i]; isBad {
				c.Bad("R11a", base+k.name, pos, why+k.tail)
			} else {
				c.OK("R11a", base+k.name, pos, k.good)
			}
		}
	}
	c.Floor("R11a", 4, "1 creation site + 3 ordering obligations")

	// ---------------- R11b navigator switch
	var navIface *types.Named
	if xp := c.AnyPkg("github.com/antchfx/xpath"); xp != nil {
		if tn, ok := xp.Types.Scope().Lookup("NodeNavigator").(*types.TypeName); ok {
			navIface, _ = tn.Type().(*types.Named)
		}
	}
	if navIface == nil {
		c.Unresolved("R11b", "xpath.NodeNavigator", "interface not found in github.com/antchfx/xpath")
	} else {
		navs := 0
		for _, m := range e.implementers(navIface, "NodeType") {
			if core.FuncPkg(m) != e.idr {
				continue
			}
			navs++
			// constants the node's type is compared with: in the method itself, or in a repository helper that the
			// node's Type is handed to (parameter binding, bounded depth)
			type cmpSite struct {
				bo *ssa.BinOp
				fn *ssa.Function
			}
			covered := map[string]cmpSite{}
			type frame struct {
				fn     *ssa.Function
				params map[*ssa.Parameter]bool
			}
			isNodeType := func(fr frame, v ssa.Value) bool {
				if ct, ok := v.(*ssa.ChangeType); ok && isNT(ct.X.Type()) {
					v = ct.X
				}
				if p, ok := v.(*ssa.Parameter); ok {
					return fr.params[p]
				}
				f, fa := c04FieldLoad(v)
				return f == e.typeFld && fa != nil
			}
			seenFn := map[*ssa.Function]bool{}
			var scan func(fr frame, depth int)
			scan = func(fr frame, depth int) {
				if seenFn[fr.fn] {
					return
				}
				seenFn[fr.fn] = true
				for _, b := range fr.fn.Blocks {
					for _, in := range b.Instrs {
						switch x := in.(type) {
						case *ssa.BinOp:
							if x.Op != token.EQL {
								continue
							}
							for _, pair := range [][2]ssa.Value{{x.X, x.Y}, {x.Y, x.X}} {
								k, ok := pair[1].(*ssa.Const)
								if !ok || k.Value == nil || !isNT(k.Type()) || !isNodeType(fr, pair[0]) {
									continue
								}
								if _, dup := covered[k.Value.ExactString()]; !dup || fr.fn == m {
									covered[k.Value.ExactString()] = cmpSite{x, fr.fn}
								}
							}
						case *ssa.Call:
							g := x.Call.StaticCallee()
							if x.Call.IsInvoke() || g == nil || len(g.Blocks) == 0 || depth >= 3 || core.FuncPkg(g) != e.idr || len(g.Params) != len(x.Call.Args) {
								continue
							}
							sub := frame{g, map[*ssa.Parameter]bool{}}
							for i, a := range x.Call.Args {
								if isNT(a.Type()) && isNodeType(fr, a) {
									sub.params[g.Params[i]] = true
								}
							}
							if len(sub.params) > 0 {
								scan(sub, depth+1)
							}
						}
					}
				}
			}
			scan(frame{m, nil}, 0)
			for _, kc := range consts {
				key := core.FuncKey(m) + " handles idr." + kc.name
				site, has := covered[kc.val.ExactString()]
				if !has {
					c.Bad("R11b", key, m.Pos(), "the navigator's NodeType switch has no case for this node type: xpath evaluation over a tree containing such a node panics or misclassifies it")
					continue
				}
				bo := site.bo
				// the equal edge must reach a return (not only the trailing panic)
				good := false
				for _, u := range core.Referrers(bo) {
					if ifi, ok := u.(*ssa.If); ok {
						for blk := range c04ReachBlocks(ifi.Block().Succs[0]) {
							if len(blk.Instrs) > 0 {
								if _, isRet := blk.Instrs[len(blk.Instrs)-1].(*ssa.Return); isRet {
									good = true
								}
							}
						}
					}
				}
				if good && site.fn != m {
					// the case lives in a helper: that its return makes the method itself return (and not panic on a
					// "not found" result) is decided by interpreting the method with the cursor on a node of this type
					kv, exact := constant.Int64Val(kc.val)
					returns, decided, why := false, false, "NodeType constant is not an integer"
					if exact {
						returns, decided, why = c11navNodeTypeReturns(c, m, kv)
					}
					if !decided {
						c.Unknown("R11b", key, core.InstrPos(bo), "case present in "+core.FuncKey(site.fn)+", but whether "+core.FuncKey(m)+" returns for it could not be followed: "+why)
						continue
					}
					c.Check(returns, "R11b", key, core.InstrPos(bo), "case present in "+core.FuncKey(site.fn)+" and "+core.FuncKey(m)+" returns an xpath node type for it", "case present in "+core.FuncKey(site.fn)+", but "+core.FuncKey(m)+" panics for this node type")
					continue
				}
				c.Check(good, "R11b", key, core.InstrPos(bo), "case present and returns an xpath node type", "case present but never returns")
			}
		}
		if navs == 0 {
			c.Unresolved("R11b", "navigator", "no type of package idr implements xpath.NodeNavigator")
		}
	}
	c.Floor("R11b", 30, "4 NodeType constants + every NodeType-passing call / Node.Type store")

	// ---------------- R11c
	c11RuleC(e, attrVal, ntType)
}

// c11InTypeCase: the block is dominated by the ok-edge of a comma-ok type assertion to pkg.name.
func c11InTypeCase(b *ssa.BasicBlock, pkg, name string) bool {
	for x := b; x != nil; x = x.Idom() {
		if len(x.Preds) != 1 {
			continue
		}
		p := x.Preds[0]
		if len(p.Instrs) == 0 || len(p.Succs) != 2 || p.Succs[0] != x || p.Succs[1] == x {
			continue
		}
		ifi, ok := p.Instrs[len(p.Instrs)-1].(*ssa.If)
		if !ok {
			continue
		}
		ex, ok := ifi.Cond.(*ssa.Extract)
		if !ok || ex.Index != 1 {
			continue
		}
		ta, ok := ex.Tuple.(*ssa.TypeAssert)
		if !ok || !ta.CommaOk {
			continue
		}
		if pk, nm := c04NamedPath(ta.AssertedType); pk == pkg && nm == name {
			return true
		}
	}
	return false
}

func c11RuleC(e *c04Env, attrVal constant.Value, ntType types.Type) {
	c := e.c
	inner := e.c.MethodOfPkg(e.idr, "Node", "InnerText")
	if inner == nil {
		c.Unresolved("R11c", "(*idr.Node).InnerText", "exported method not found")
		return
	}
	// InnerText, its closures, and the functions of package idr it hands the traversal to (statically resolved calls,
	// transitively): the traversal may live in a recursive helper method / package function
	var fns []*ssa.Function
	seenFn := map[*ssa.Function]bool{}
	var collect func(f *ssa.Function)
	collect = func(f *ssa.Function) {
		if f == nil || seenFn[f] || len(f.Blocks) == 0 {
			return
		}
		seenFn[f] = true
		fns = append(fns, f)
		for _, a := range f.AnonFuncs {
			collect(a)
		}
		for _, ci := range core.Calls(f) {
			if ci.Common().IsInvoke() {
				continue
			}
			if g := ci.Common().StaticCallee(); g != nil && core.FuncPkg(g) == e.idr {
				collect(g)
			}
		}
	}
	collect(inner)
	// values obtained through a child/sibling link
	n := 0
	for _, f := range fns {
		linked := map[ssa.Value]bool{}
		for changed := true; changed; {
			changed = false
			for _, b := range f.Blocks {
				for _, in := range b.Instrs {
					v, ok := in.(ssa.Value)
					if !ok || linked[v] {
						continue
					}
					switch x := in.(type) {
					case *ssa.UnOp:
						if fld, _ := c04FieldLoad(x); fld != nil && e.links[fld] && fld != e.parent {
							linked[v] = true
							changed = true
						}
					case *ssa.Phi:
						for _, ed := range x.Edges {
							if linked[ed] {
								linked[v] = true
								changed = true
							}
						}
					}
				}
			}
		}
		// guard: block dominated by the not-attribute edge of a test of v.Type
		guarded := func(v ssa.Value, at *ssa.BasicBlock) bool {
			for _, b := range f.Blocks {
				if len(b.Instrs) == 0 {
					continue
				}
				ifi, ok := b.Instrs[len(b.Instrs)-1].(*ssa.If)
				if !ok {
					continue
				}
				bo, ok := ifi.Cond.(*ssa.BinOp)
				if !ok || (bo.Op != token.EQL && bo.Op != token.NEQ) {
					continue
				}
				match := false
				for _, pair := range [][2]ssa.Value{{bo.X, bo.Y}, {bo.Y, bo.X}} {
					if !c04ConstIs(pair[1], attrVal, ntType) {
						continue
					}
					if fld, fa := c04FieldLoad(pair[0]); fld == e.typeFld && fa != nil && fa.X == v {
						match = true
					}
				}
				if !match {
					continue
				}
				notAttr := b.Succs[0]
				if bo.Op == token.EQL {
					notAttr = b.Succs[1]
				}
				if len(notAttr.Preds) == 1 && notAttr.Dominates(at) {
					return true
				}
			}
			return false
		}
		var vals []ssa.Value
		for v := range linked {
			vals = append(vals, v)
		}
		sort.Slice(vals, func(i, j int) bool {
			return vals[i].Pos() < vals[j].Pos() || (vals[i].Pos() == vals[j].Pos() && vals[i].Name() < vals[j].Name())
		})
		for _, v := range vals {
			for _, u := range core.Referrers(v) {
				use := ""
				switch x := u.(type) {
				case ssa.CallInstruction:
					use = "passed to " + c04CalleeKey(x)
				case *ssa.FieldAddr:
					if core.FieldOfAddr(x) == e.dataFld {
						use = "text captured"
					}
				case *ssa.Store:
					if x.Val == v {
						use = "stored"
					}
				case *ssa.Return:
					use = "returned"
				}
				if use == "" {
					continue
				}
				n++
				key := core.FuncKey(inner) + " child node " + use
				if guarded(v, u.Block()) {
					c.OK("R11c", key, core.InstrPos(u), "dominated by the Type != AttributeNode edge of a test of the same node")
				} else {
					c.Bad("R11c", key, core.InstrPos(u), "a child reached through FirstChild/NextSibling is "+use+" without a dominating test that it is not an AttributeNode: attribute values become part of the element's string-value (xpath string(), text comparisons)")
				}
			}
		}
	}
	if n == 0 {
		c.Unknown("R11c", core.FuncKey(inner)+" child traversal", inner.Pos(), "no use of a child node found in InnerText: the traversal has a shape this rule does not understand")
	}
	c.Floor("R11c", 1, "recursion over children in InnerText")
	c11NavModel(e.c)
}
