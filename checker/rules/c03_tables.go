package rules

// Reviewed (argued) entries of C03: constructs whose safety rests on an argument the rules cannot re-verify
// mechanically. They are keyed by the position-independent construct — function, guard of the panic / callee /
// field, and the calling function — so that a new panic-capable construct, a new caller of a function that may
// panic, or a changed guard is NOT covered and is reported. `n` is the number of occurrences of the construct
// that were reviewed (a further occurrence is reported). These entries are counted as "argued", never as
// discharged.

const (
	c03edi  = "(*extensions/omniv21/fileformat/edi.ediReader)"
	c03hr   = "(*extensions/omniv21/fileformat/flatfile.HierarchyReader)"
	c03csv2 = "extensions/omniv21/fileformat/flatfile/csv"
	c03fl2  = "extensions/omniv21/fileformat/flatfile/fixedlength"
	c03fl   = "extensions/omniv21/fileformat/fixedlength"
)

const (
	c03argStackTop0 = "stackTop() (frame 0) needs len(stack) >= 1: the stack is created with the root entry, entries are only removed by shrinkStack, and every shrinkStack call is dominated by len(stack) > 1 (verified mechanically under the shrinkStack obligations), so the root entry is never popped"
	c03argStackTop1 = "stackTop(1) needs len(stack) >= 2: the call is dominated by the false edge of `len(stack) <= 1` in the same loop iteration and only read-only helpers run in between"
	c03argTarget    = "at most one declaration has is_target (the format's validator rejects a second one: seenTarget), Read clears the target on entry and returns at the loop head as soon as one is set, so the done-routine never sees a second target within one Read; the recursive done->next->done chain only visits ancestors, which are not targets"
	c03argNode      = "a stack entry's node is assigned by Read when the entry's declaration matched, before the done-routine runs for it; ancestors reached through next->done were matched earlier and stay on the stack with their node; a node is set to nil only for a filtered-out target, whose entry is re-matched (node reassigned) or popped before the done-routine runs for it again"
	c03argGroup     = "ReadAndMatch is only invoked by HierarchyReader.readRec, which passes nonGroupDecl after the loop `for nonGroupDecl.Group() && len(ChildDecls()) > 0` and returns early when nonGroupDecl.Group() still holds (the value flows through a loop phi, which the prover does not follow)"
	c03argHeader    = "the header/footer branch is taken only when rowsBased() is false, i.e. Header != nil; validateRecordDecl/validateEnvelopeDecl compile Header into headerRegexp or reject the schema, and nothing writes headerRegexp afterwards"
	c03argLines     = "n = i+1 where the loop keeps i <= len(linesBuf)-1: linesBuf is non-empty after the initial readLine, i is only incremented after `i >= len(linesBuf)-1` forced a successful readLine (which appends one line)"
	c03argRecDecl   = "the declarations handed to flatfile.NewHierarchyReader by this package's NewReader are built by this package's toFlatFileRecDecls / validate*Decl (only *RecordDecl resp. *EnvelopeDecl are converted to flatfile.RecDecl here); the artificial rootDecl is a group (never passed to ReadAndMatch) and is never reported in ErrFewerThanMinOccurs because recNext is not called for the root before occurred reaches its MinOccurs of 1"
	c03argName      = "validateFileDecl assigns envelope.Name (strs.StrPtr) for every envelope whose name is nil before the schema is accepted; nothing writes Name afterwards (C14)"
	c03argIndex     = "validateColumnDecl assigns decl.Index (intPtr) for every column whose index is nil, in declaration order, so the previous column's Index and every column's Index are non-nil once the schema is accepted"
)

var c03reviewedK1 = map[string]c03argued{
	c03edi + ".rawSegToNode: panic when !p0.unprocessedRawSeg.valid <- " + c03edi + ".Read":                                                           {1, "Read calls rawSegToNode only after getUnprocessedRawSeg returned a nil error, which happens only with unprocessedRawSeg.valid == true; resetRawSeg runs after rawSegToNode"},
	c03edi + ".segDone: panic when p0.target != nil <- " + c03edi + ".segNext":                                                                        {1, c03argTarget},
	c03edi + ".segDone: panic when (*edi.ediReader).stackTop(p0,nil).segNode == nil <- " + c03edi + ".Read":                                           {1, c03argNode},
	c03edi + ".segDone: panic when (*edi.ediReader).stackTop(p0,nil).segNode == nil <- " + c03edi + ".segNext":                                        {1, c03argNode},
	c03edi + ".stackTop: panic when _ < 0 || _ >= len(p0.stack) <- " + c03edi + ".Read":                                                               {2, c03argStackTop0 + "; " + c03argStackTop1 + " (here: guarded by `len(r.stack) > 1`)"},
	c03edi + ".stackTop: panic when _ < 0 || _ >= len(p0.stack) <- " + c03edi + ".segDone":                                                            {1, c03argStackTop0},
	c03edi + ".stackTop: panic when _ < 0 || _ >= len(p0.stack) <- " + c03edi + ".segNext":                                                            {1, c03argStackTop0},
	"(*" + c03fl + ".EnvelopeDecl).byRows: panic when p0.ByHeaderFooter != nil <- (*" + c03fl + ".reader).readByRowsEnvelope":                         {2, "readByRowsEnvelope runs only when envelopeType() saw Envelopes[0].ByHeaderFooter == nil; the JSON schema (oneOf on the envelopes array, maxItems 1 for by_rows) forbids mixing, so Envelopes[envelopeIndex] is that same by_rows envelope"},
	c03hr + ".recDone: panic when p0.target != nil <- " + c03hr + ".recNext":                                                                          {1, c03argTarget},
	c03hr + ".recDone: panic when (*flatfile.HierarchyReader).stackTop(p0,nil).recNode == nil <- " + c03hr + ".Read":                                  {1, c03argNode},
	c03hr + ".recDone: panic when (*flatfile.HierarchyReader).stackTop(p0,nil).recNode == nil <- " + c03hr + ".recNext":                               {1, c03argNode},
	c03hr + ".stackTop: panic when _ < 0 || _ >= len(p0.stack) <- " + c03hr + ".Read":                                                                 {2, c03argStackTop0 + "; " + c03argStackTop1},
	c03hr + ".stackTop: panic when _ < 0 || _ >= len(p0.stack) <- " + c03hr + ".recDone":                                                              {1, c03argStackTop0},
	c03hr + ".stackTop: panic when _ < 0 || _ >= len(p0.stack) <- " + c03hr + ".recNext":                                                              {1, c03argStackTop0},
	"(*" + c03csv2 + ".RecordDecl).matchHeader: panic when p0.headerRegexp == nil <- (*" + c03csv2 + ".reader).readAndMatchHeaderFooterBasedRecord":   {1, c03argHeader},
	"(*" + c03csv2 + ".RecordDecl).rowsBased: panic when (*csv.RecordDecl).Group(p0) <- (*" + c03csv2 + ".reader).ReadAndMatch":                       {1, c03argGroup},
	"(*" + c03csv2 + ".reader).linesToNode: panic when len(p0.linesBuf) < p2 <- (*" + c03csv2 + ".reader).readAndMatchHeaderFooterBasedRecord":        {1, c03argLines},
	"(*" + c03csv2 + ".reader).popFrontLinesBuf: panic when p1 > len(p0.linesBuf) <- (*" + c03csv2 + ".reader).readAndMatchHeaderFooterBasedRecord":   {1, c03argLines},
	"(*" + c03fl2 + ".EnvelopeDecl).matchHeader: panic when p0.headerRegexp == nil <- (*" + c03fl2 + ".reader).readAndMatchHeaderFooterBasedEnvelope": {1, c03argHeader},
	"(*" + c03fl2 + ".EnvelopeDecl).rowsBased: panic when (*fixedlength.EnvelopeDecl).Group(p0) <- (*" + c03fl2 + ".reader).ReadAndMatch":             {1, c03argGroup},
	"(*" + c03fl2 + ".reader).linesToNode: panic when len(p0.linesBuf) < p2 <- (*" + c03fl2 + ".reader).readAndMatchHeaderFooterBasedEnvelope":        {1, c03argLines},
	"(*" + c03fl2 + ".reader).popFrontLinesBuf: panic when p1 > len(p0.linesBuf) <- (*" + c03fl2 + ".reader).readAndMatchHeaderFooterBasedEnvelope":   {1, c03argLines},
	"(*idr.navigator).NodeType: panic when p0.cur.Type != 3 <- (callers in package github.com/antchfx/xpath)":                                         {1, "Node.Type is only ever assigned one of the four NodeType constants: nodes are created by CreateNode/CreateXMLNode/CreateJSONNode whose callers in the readers pass DocumentNode/ElementNode/TextNode/AttributeNode literally, and reset() stores 0 (= DocumentNode)"},
}

// (the clamped index of getFuncArgType's Type.In is now verified mechanically: phi decided per incoming edge)
var c03reviewedK2 = map[string]c03argued{}

var c03reviewedK3 = map[string]c03argued{
	"(*" + c03csv2 + ".reader).Read asserts .(*csv.RecordDecl)":                  {1, c03argRecDecl},
	"(*" + c03csv2 + ".reader).ReadAndMatch asserts .(*csv.RecordDecl)":          {1, c03argRecDecl},
	"(*" + c03fl2 + ".reader).Read asserts .(*fixedlength.EnvelopeDecl)":         {1, c03argRecDecl},
	"(*" + c03fl2 + ".reader).ReadAndMatch asserts .(*fixedlength.EnvelopeDecl)": {1, c03argRecDecl},
	"(*idr.JSONStreamReader).parseVal asserts .(string)":                         {1, "the assertion is under IsJSONObj(sp.cur): sp.cur carries the JSONObj flag exactly while the decoder is inside that object and expects a key or '}', and encoding/json.Decoder.Token yields object keys as string (values inside an object arrive when sp.cur is the property node, which has no JSONObj flag until '{' follows)"},
	"(*idr.ctx).nodeToInterface asserts .([]interface{})":                        {1, "guarded by fieldIsArr[name], which is set to true only in the branch that has just stored a []interface{} literal under obj[name]; afterwards obj[name] is only replaced by append() on that slice"},
	"idr.nodeFromIter asserts .(*idr.navigator)":                                 {1, "NodeIterator.Current returns the navigator the iterator was created with by Expr.Select(createNavigator(n)) or a Copy() of it; createNavigator and (*navigator).Copy return *navigator"},
}

var c03reviewedK5 = map[string]c03argued{
	"(*extensions/omniv21/fileformat/edi.NonValidatingReader).readToken dereferences optional strPtrByte.strptr": {1, "r.segDelim is newStrPtrByte(&decl.SegDelim): the address of a struct field, never nil (only compDelim/repDelim/releaseChar are built from optional pointers, and they are not dereferenced here)"},
	"(*" + c03fl + ".EnvelopeDecl).byRows dereferences optional EnvelopeDecl.Name":                               {1, c03argName},
	"(*" + c03fl + ".reader).readByHeaderFooterEnvelope dereferences optional EnvelopeDecl.Name":                 {1, c03argName},
	"(*" + c03fl + ".reader).readByRowsEnvelope dereferences optional EnvelopeDecl.Name":                         {1, c03argName},
	"(*" + c03csv2 + ".ColumnDecl).lineToColumnValue dereferences optional ColumnDecl.Index":                     {3, c03argIndex},
	"(*" + c03csv2 + ".validateCtx).validateColumnDecl dereferences optional ColumnDecl.Index":                   {1, c03argIndex},
	"(*" + c03csv2 + ".reader).readAndMatchHeaderFooterBasedRecord indexes linesBuf[0]":                          {1, "preceded by `if len(r.linesBuf) <= 0 { if err := r.readLine(); err != nil { return } }`: either the buffer was non-empty or readLine succeeded, and a successful readLine appends exactly one line"},
	"(*" + c03fl2 + ".reader).readAndMatchHeaderFooterBasedEnvelope indexes linesBuf[0]":                         {1, "preceded by `if len(r.linesBuf) <= 0 { if err := r.readLine(); err != nil { return } }`: either the buffer was non-empty or readLine succeeded, and a successful readLine appends exactly one line"},
}
