package rules

import (
	"sort"

	"golang.org/x/tools/go/ssa"

	"omnilint/core"
)

// c06TextSite is one text-node creation in one call context. A creation that sits in a helper which is called
// from several places of the reader (the same column-extraction loop used by two envelope readers) stands for
// one creation per call site: each context is decided separately with the helper's parameters bound to the
// arguments of that call, and each context counts as an instance.
type c06TextSite struct {
	tn  *ssa.Call
	ctx []*ssa.Call // nil: the creating function itself (no or exactly one static caller: nothing to distinguish)
	fk  string      // key prefix: the function the obligation is attributed to
}

func c06TextSites(r *c06roles, pk *c06pkg, prov *c08Prov) []c06TextSite {
	var out []c06TextSite
	for _, tn := range c06TextNodes(r, pk) {
		g := tn.Parent()
		var cs []*ssa.Call
		for _, call := range prov.callers[g] {
			if call.Parent() == g {
				continue // recursion adds no context
			}
			cs = append(cs, call)
		}
		if len(cs) < 2 {
			out = append(out, c06TextSite{tn: tn, fk: core.FuncKey(g)})
			continue
		}
		sort.SliceStable(cs, func(i, j int) bool {
			a, b := core.FuncKey(cs[i].Parent()), core.FuncKey(cs[j].Parent())
			if a != b {
				return a < b
			}
			return cs[i].Pos() < cs[j].Pos()
		})
		for _, call := range cs {
			out = append(out, c06TextSite{tn: tn, ctx: []*ssa.Call{call}, fk: core.FuncKey(call.Parent()) + " via " + core.FuncKey(g)})
		}
	}
	return out
}
