package core

import (
	"go/token"
	"go/types"
	"sort"

	"golang.org/x/tools/go/ssa"
)

// FieldOfAddr returns the struct field object addressed by a FieldAddr.
func FieldOfAddr(fa *ssa.FieldAddr) *types.Var {
	t := fa.X.Type().Underlying()
	if p, ok := t.(*types.Pointer); ok {
		t = p.Elem().Underlying()
	}
	st, ok := t.(*types.Struct)
	if !ok {
		return nil
	}
	return st.Field(fa.Field)
}

// FieldOfField returns the struct field object read by a Field instruction.
func FieldOfField(f *ssa.Field) *types.Var {
	st, ok := f.X.Type().Underlying().(*types.Struct)
	if !ok {
		return nil
	}
	return st.Field(f.Field)
}

// NamedOf returns the named type behind pointers.
func NamedOf(t types.Type) *types.Named {
	for {
		switch x := t.(type) {
		case *types.Pointer:
			t = x.Elem()
		case *types.Named:
			return x
		case *types.Alias:
			t = types.Unalias(x)
		default:
			return nil
		}
	}
}

// StructOfField returns the named struct type that declares the field (by scanning a candidate type).
func FieldOwner(fa *ssa.FieldAddr) *types.Named { return NamedOf(fa.X.Type()) }

// WriteSite is one store into memory.
type WriteSite struct {
	Fn     *ssa.Function
	Instr  ssa.Instruction
	Pos    token.Pos
	Kind   string       // "field", "struct", "global", "index", "map", "deref"
	Field  *types.Var   // for Kind field (innermost field written) or index/map through a field
	Owner  *types.Named // struct type owning Field, or struct type overwritten (Kind struct)
	Global *ssa.Global  // root global if the address chain starts at a package-level variable
	Chain  []AddrStep   // address derivation chain, innermost first
	Root   ssa.Value    // value at which the chain ends (Alloc, Parameter, call result, ...)
	Val    ssa.Value    // stored value (nil for map delete etc.)
}

// AddrStep is one step of an address derivation.
type AddrStep struct {
	Kind  string // field, index, load, global, alloc
	Field *types.Var
	Owner *types.Named
	Value ssa.Value
}

// TraceAddr walks an address (or reference-typed value) back to its root.
// Steps: FieldAddr -> X ; IndexAddr -> X ; UnOp(*) load -> X ; Field -> X; stops at anything else.
func TraceAddr(v ssa.Value) (steps []AddrStep, root ssa.Value) {
	seen := 0
	for {
		seen++
		if seen > 64 {
			return steps, v
		}
		switch x := v.(type) {
		case *ssa.FieldAddr:
			steps = append(steps, AddrStep{Kind: "field", Field: FieldOfAddr(x), Owner: FieldOwner(x), Value: x})
			v = x.X
		case *ssa.Field:
			steps = append(steps, AddrStep{Kind: "field", Field: FieldOfField(x), Owner: NamedOf(x.X.Type()), Value: x})
			v = x.X
		case *ssa.IndexAddr:
			steps = append(steps, AddrStep{Kind: "index", Value: x})
			v = x.X
		case *ssa.Index:
			steps = append(steps, AddrStep{Kind: "index", Value: x})
			v = x.X
		case *ssa.Lookup:
			steps = append(steps, AddrStep{Kind: "index", Value: x})
			v = x.X
		case *ssa.UnOp:
			if x.Op == token.MUL {
				steps = append(steps, AddrStep{Kind: "load", Value: x})
				v = x.X
				continue
			}
			return steps, v
		case *ssa.Slice:
			v = x.X
		case *ssa.ChangeType:
			v = x.X
		case *ssa.Convert:
			v = x.X
		case *ssa.Global:
			steps = append(steps, AddrStep{Kind: "global", Value: x})
			return steps, v
		default:
			return steps, v
		}
	}
}

// Writes enumerates every memory write of a function: stores through field addresses, whole-struct
// stores, stores to globals, element stores and map updates.
func Writes(fn *ssa.Function) []WriteSite {
	var out []WriteSite
	for _, b := range fn.Blocks {
		for _, in := range b.Instrs {
			switch x := in.(type) {
			case *ssa.Store:
				ws := WriteSite{Fn: fn, Instr: in, Pos: x.Pos(), Val: x.Val}
				steps, root := TraceAddr(x.Addr)
				ws.Chain, ws.Root = steps, root
				if g, ok := root.(*ssa.Global); ok {
					ws.Global = g
				}
				switch a := x.Addr.(type) {
				case *ssa.FieldAddr:
					ws.Kind = "field"
					ws.Field = FieldOfAddr(a)
					ws.Owner = FieldOwner(a)
				case *ssa.IndexAddr:
					ws.Kind = "index"
					for _, s := range steps {
						if s.Kind == "field" {
							ws.Field, ws.Owner = s.Field, s.Owner
							break
						}
					}
				case *ssa.Global:
					ws.Kind = "global"
				default:
					ws.Kind = "deref"
					if pt, ok := x.Addr.Type().Underlying().(*types.Pointer); ok {
						if n, ok := types.Unalias(pt.Elem()).(*types.Named); ok {
							if _, ok := n.Underlying().(*types.Struct); ok {
								ws.Kind = "struct"
								ws.Owner = n
							}
						}
					}
				}
				if ws.Pos == token.NoPos {
					ws.Pos = nearestPos(b, in)
				}
				out = append(out, ws)
			case *ssa.MapUpdate:
				ws := WriteSite{Fn: fn, Instr: in, Pos: x.Pos(), Kind: "map", Val: x.Value}
				steps, root := TraceAddr(x.Map)
				ws.Chain, ws.Root = steps, root
				if g, ok := root.(*ssa.Global); ok {
					ws.Global = g
				}
				for _, s := range steps {
					if s.Kind == "field" {
						ws.Field, ws.Owner = s.Field, s.Owner
						break
					}
				}
				if ws.Pos == token.NoPos {
					ws.Pos = nearestPos(b, in)
				}
				out = append(out, ws)
			}
		}
	}
	return out
}

func nearestPos(b *ssa.BasicBlock, at ssa.Instruction) token.Pos {
	idx := -1
	for i, in := range b.Instrs {
		if in == at {
			idx = i
		}
	}
	for i := idx; i >= 0; i-- {
		if p := b.Instrs[i].Pos(); p.IsValid() {
			return p
		}
	}
	for i := idx + 1; i < len(b.Instrs) && i >= 0; i++ {
		if p := b.Instrs[i].Pos(); p.IsValid() {
			return p
		}
	}
	return b.Parent().Pos()
}

// InstrPos returns a valid position for an instruction (falling back to neighbours / function).
func InstrPos(in ssa.Instruction) token.Pos {
	if p := in.Pos(); p.IsValid() {
		return p
	}
	return nearestPos(in.Block(), in)
}

// IsFresh reports whether the root of an address chain is an allocation made in the same function
// (new(T), &T{...}, make) — i.e. the object cannot be shared yet when written.
func IsFresh(root ssa.Value) bool {
	switch x := root.(type) {
	case *ssa.Alloc:
		return true
	case *ssa.MakeMap, *ssa.MakeSlice, *ssa.MakeChan:
		return true
	case *ssa.Phi:
		for _, e := range x.Edges {
			if !IsFresh(e) {
				return false
			}
		}
		return true
	}
	return false
}

// Calls enumerates the call instructions (call, defer, go) of a function in block order.
func Calls(fn *ssa.Function) []ssa.CallInstruction {
	var out []ssa.CallInstruction
	for _, b := range fn.Blocks {
		for _, in := range b.Instrs {
			if ci, ok := in.(ssa.CallInstruction); ok {
				out = append(out, ci)
			}
		}
	}
	return out
}

// CalleeObj returns the static callee object of a call (function, method, or interface method).
func CalleeObj(ci ssa.CallInstruction) *types.Func {
	cc := ci.Common()
	if cc.IsInvoke() {
		return cc.Method
	}
	if f := cc.StaticCallee(); f != nil {
		if o, ok := f.Object().(*types.Func); ok {
			return o
		}
		// closure / bound method / instantiation
		if f.Origin() != nil {
			if o, ok := f.Origin().Object().(*types.Func); ok {
				return o
			}
		}
	}
	return nil
}

// IsCallTo tells if the call's static callee (or invoked interface method) is pkgpath.name,
// where for methods name is "Type.Method".
func IsCallTo(ci ssa.CallInstruction, pkgPath, name string) bool {
	o := CalleeObj(ci)
	if o == nil || o.Pkg() == nil || o.Pkg().Path() != pkgPath {
		return false
	}
	return FuncName(o) == name
}

// FuncName returns "Name" or "Type.Name" for methods.
func FuncName(o *types.Func) string {
	sig := o.Type().(*types.Signature)
	if r := sig.Recv(); r != nil {
		if n := NamedOf(r.Type()); n != nil {
			return n.Obj().Name() + "." + o.Name()
		}
		// interface method
		return "(interface)." + o.Name()
	}
	return o.Name()
}

// Dominates reports whether instruction a dominates instruction b (same function).
func Dominates(a, b ssa.Instruction) bool {
	ba, bb := a.Block(), b.Block()
	if ba == bb {
		for _, in := range ba.Instrs {
			if in == a {
				return true
			}
			if in == b {
				return false
			}
		}
		return false
	}
	return ba.Dominates(bb)
}

// Referrers returns the referrers of a value, safely.
func Referrers(v ssa.Value) []ssa.Instruction {
	r := v.Referrers()
	if r == nil {
		return nil
	}
	return *r
}

// SortedFuncs sorts functions by key.
func SortedFuncs(m map[*ssa.Function]bool) []*ssa.Function {
	var out []*ssa.Function
	for f := range m {
		out = append(out, f)
	}
	sort.Slice(out, func(i, j int) bool {
		a, b := out[i].String(), out[j].String()
		if a != b {
			return a < b
		}
		return out[i].Pos() < out[j].Pos()
	})
	return out
}

// Unwrap strips value-preserving wrappers (ChangeType, ChangeInterface, MakeInterface optional).
func Unwrap(v ssa.Value, throughIface bool) ssa.Value {
	for {
		switch x := v.(type) {
		case *ssa.ChangeType:
			v = x.X
		case *ssa.ChangeInterface:
			v = x.X
		case *ssa.MakeInterface:
			if !throughIface {
				return v
			}
			v = x.X
		default:
			return v
		}
	}
}

// ReachableBlocks returns blocks reachable from start without passing through any block in stop
// (start itself is included; stop blocks are not expanded).
func ReachableBlocks(start *ssa.BasicBlock, stop map[*ssa.BasicBlock]bool) map[*ssa.BasicBlock]bool {
	seen := map[*ssa.BasicBlock]bool{}
	var walk func(b *ssa.BasicBlock)
	walk = func(b *ssa.BasicBlock) {
		if seen[b] {
			return
		}
		seen[b] = true
		if stop[b] {
			return
		}
		for _, s := range b.Succs {
			walk(s)
		}
	}
	walk(start)
	return seen
}

// SameValue is structural equality of SSA values for the purposes of field-address comparison
// (go/ssa has no CSE): identical values; loads of structurally equal addresses; field addresses of
// structurally equal bases with the same field; equal constants.
func SameValue(a, b ssa.Value) bool { return sameValue(a, b, 0) }

func sameValue(a, b ssa.Value, d int) bool {
	if a == b {
		return true
	}
	if d > 8 || a == nil || b == nil {
		return false
	}
	switch x := a.(type) {
	case *ssa.FieldAddr:
		y, ok := b.(*ssa.FieldAddr)
		return ok && x.Field == y.Field && types.Identical(x.X.Type(), y.X.Type()) && sameValue(x.X, y.X, d+1)
	case *ssa.UnOp:
		y, ok := b.(*ssa.UnOp)
		return ok && x.Op == y.Op && sameValue(x.X, y.X, d+1)
	case *ssa.Const:
		y, ok := b.(*ssa.Const)
		if !ok {
			return false
		}
		if x.Value == nil || y.Value == nil {
			return x.Value == nil && y.Value == nil && types.Identical(x.Type(), y.Type())
		}
		return x.Value.ExactString() == y.Value.ExactString() && types.Identical(x.Type(), y.Type())
	case *ssa.ChangeType:
		y, ok := b.(*ssa.ChangeType)
		return ok && sameValue(x.X, y.X, d+1)
	}
	return false
}

// IsNilConst tells whether v is the nil constant (possibly behind a ChangeType).
func IsNilConst(v ssa.Value) bool {
	c, ok := Unwrap(v, false).(*ssa.Const)
	return ok && c.IsNil()
}

// IsZeroConst tells whether v is a constant holding the zero value of its type.
func IsZeroConst(v ssa.Value) bool {
	c, ok := Unwrap(v, false).(*ssa.Const)
	if !ok {
		return false
	}
	if c.Value == nil {
		return true
	}
	switch c.Value.ExactString() {
	case "0", `""`, "false":
		return true
	}
	return false
}

// InstrIndex returns the index of an instruction in its block.
func InstrIndex(in ssa.Instruction) int {
	for i, x := range in.Block().Instrs {
		if x == in {
			return i
		}
	}
	return -1
}

// WalkAfter visits every instruction that can execute after `from` (same block remainder, then all
// CFG successors, each block once). visit returns false to stop exploring along that path (the rest
// of the block and its successors are skipped).
func WalkAfter(from ssa.Instruction, visit func(in ssa.Instruction) bool) {
	b := from.Block()
	seen := map[*ssa.BasicBlock]bool{}
	var walkBlock func(b *ssa.BasicBlock, start int)
	walkBlock = func(b *ssa.BasicBlock, start int) {
		for i := start; i < len(b.Instrs); i++ {
			if !visit(b.Instrs[i]) {
				return
			}
		}
		for _, s := range b.Succs {
			if !seen[s] {
				seen[s] = true
				walkBlock(s, 0)
			}
		}
	}
	walkBlock(b, InstrIndex(from)+1)
}

// FieldPath is a (nested) field of a base value: base.f1.f2...
type FieldPath struct {
	Base ssa.Value
	Path []*types.Var
}

// Same tells whether two field paths denote the same location (structurally equal base, identical field sequence).
func (p FieldPath) Same(q FieldPath) bool {
	if len(p.Path) != len(q.Path) || len(p.Path) == 0 {
		return false
	}
	for i := range p.Path {
		if p.Path[i] != q.Path[i] {
			return false
		}
	}
	return SameValue(p.Base, q.Base)
}

func fieldAddrPath(addr ssa.Value) (FieldPath, bool) {
	var path []*types.Var
	v := addr
	for {
		fa, ok := v.(*ssa.FieldAddr)
		if !ok {
			break
		}
		path = append([]*types.Var{FieldOfAddr(fa)}, path...)
		v = fa.X
	}
	if len(path) == 0 {
		return FieldPath{}, false
	}
	return FieldPath{Base: v, Path: path}, true
}

// LoadedField: v is a load of a (nested) struct field — directly (*(&base.f1.f2)) or through a repository accessor
// method whose whole body is `return recv.f1.f2` (the base is then the call's receiver argument).
func LoadedField(v ssa.Value) (FieldPath, bool) {
	switch x := v.(type) {
	case *ssa.UnOp:
		if x.Op == token.MUL {
			return fieldAddrPath(x.X)
		}
	case *ssa.Call:
		cf := x.Call.StaticCallee()
		if cf == nil || cf.Blocks == nil || len(cf.Blocks) != 1 || cf.Signature.Recv() == nil || len(cf.Params) != 1 || !InRepo(FuncPkg(cf)) {
			return FieldPath{}, false
		}
		for _, in := range cf.Blocks[0].Instrs {
			if rt, ok := in.(*ssa.Return); ok && len(rt.Results) == 1 {
				if u, ok := rt.Results[0].(*ssa.UnOp); ok && u.Op == token.MUL {
					if fp, ok := fieldAddrPath(u.X); ok && fp.Base == ssa.Value(cf.Params[0]) {
						return FieldPath{Base: x.Call.Args[0], Path: fp.Path}, true
					}
				}
			}
		}
	}
	return FieldPath{}, false
}

// StoredField: in stores a value into a (nested) struct field — directly, or through a repository setter method whose
// whole body is `recv.f1.f2 = param`.
func StoredField(in ssa.Instruction) (FieldPath, ssa.Value, bool) {
	switch x := in.(type) {
	case *ssa.Store:
		if fp, ok := fieldAddrPath(x.Addr); ok {
			return fp, x.Val, true
		}
	case *ssa.Call:
		cf := x.Call.StaticCallee()
		if cf == nil || cf.Blocks == nil || len(cf.Blocks) != 1 || cf.Signature.Recv() == nil || len(cf.Params) != 2 || !InRepo(FuncPkg(cf)) {
			return FieldPath{}, nil, false
		}
		n := 0
		var fp FieldPath
		ok := false
		for _, bi := range cf.Blocks[0].Instrs {
			switch y := bi.(type) {
			case *ssa.Store:
				n++
				if p, isFP := fieldAddrPath(y.Addr); isFP && p.Base == ssa.Value(cf.Params[0]) && y.Val == ssa.Value(cf.Params[1]) {
					fp, ok = p, true
				}
			case ssa.CallInstruction:
				return FieldPath{}, nil, false
			}
		}
		if ok && n == 1 {
			return FieldPath{Base: x.Call.Args[0], Path: fp.Path}, x.Call.Args[1], true
		}
	}
	return FieldPath{}, nil, false
}
