// Package core holds the loader, the obligation/report plumbing and the shared
// program-representation helpers used by every rule set of omnilint.
package core

import (
	"encoding/json"
	"fmt"
	"go/ast"
	"go/token"
	"go/types"
	"os"
	"path/filepath"
	"regexp"
	"sort"
	"strings"
	"sync"
	"time"

	"golang.org/x/tools/go/callgraph"
	"golang.org/x/tools/go/callgraph/cha"
	"golang.org/x/tools/go/callgraph/vta"
	"golang.org/x/tools/go/packages"
	"golang.org/x/tools/go/ssa"
	"golang.org/x/tools/go/ssa/ssautil"
)

// Mod is the module path of the repository under analysis.
const Mod = "github.com/jf-tech/omniparser"

// Status of an obligation.
const (
	Discharged = "discharged"
	Violated   = "violated"
	Undecided  = "undecided"
	Argued     = "argued" // written argument only; counted separately, never a pass of a mechanical rule
)

// Obligation is one rule instance at one construct.
type Obligation struct {
	Property  string `json:"property"`
	Rule      string `json:"rule"`
	Construct string `json:"construct"`
	Pos       string `json:"pos"`
	Status    string `json:"status"`
	Detail    string `json:"detail,omitempty"`
	Known     bool   `json:"known_finding,omitempty"`
}

// Variant describes one build configuration.
type Variant struct {
	Name string
	Tags string
	Env  []string
}

// Ctx is what a rule set gets.
type Ctx struct {
	Prop    string
	Tier    string
	Repo    string
	Variant Variant

	Pkgs   []*packages.Package // packages of ./... in Repo
	All    map[string]*packages.Package
	Fset   *token.FileSet
	NFiles int

	ssaOnce sync.Once
	Prog    *ssa.Program
	ssaPkgs []*ssa.Package
	allFn   map[*ssa.Function]bool

	cgOnce sync.Once
	cg     *callgraph.Graph

	obs      []*Obligation
	keyCount map[string]int
	floors   []floor
	Notes    []string
	Stats    map[string]int
	start    time.Time
}

type floor struct {
	rule string
	min  int
	what string
}

// Load loads and type-checks the repository.
func Load(repo string, v Variant) (*Ctx, error) {
	c := &Ctx{Repo: repo, Variant: v, All: map[string]*packages.Package{}, keyCount: map[string]int{}, Stats: map[string]int{}, start: time.Now()}
	env := append(os.Environ(), "GOFLAGS=-mod=mod", "GOPROXY=off", "GOSUMDB=off", "GOTOOLCHAIN=local", "GOWORK=off")
	env = append(env, v.Env...)
	cfg := &packages.Config{
		Mode:  packages.LoadAllSyntax,
		Dir:   repo,
		Env:   env,
		Tests: false,
	}
	if v.Tags != "" {
		cfg.BuildFlags = []string{"-tags=" + v.Tags}
	}
	pkgs, err := packages.Load(cfg, "./...")
	if err != nil {
		return nil, fmt.Errorf("packages.Load: %w", err)
	}
	if len(pkgs) == 0 {
		return nil, fmt.Errorf("packages.Load: zero packages matched ./... in %s", repo)
	}
	var errsFound []string
	packages.Visit(pkgs, nil, func(p *packages.Package) {
		c.All[p.PkgPath] = p
		for _, e := range p.Errors {
			errsFound = append(errsFound, e.Error())
		}
	})
	if len(errsFound) > 0 {
		sort.Strings(errsFound)
		if len(errsFound) > 10 {
			errsFound = errsFound[:10]
		}
		return nil, fmt.Errorf("load/type errors: %s", strings.Join(errsFound, "; "))
	}
	sort.Slice(pkgs, func(i, j int) bool { return pkgs[i].PkgPath < pkgs[j].PkgPath })
	c.Pkgs = pkgs
	c.Fset = pkgs[0].Fset
	for _, p := range pkgs {
		c.NFiles += len(p.Syntax)
		if !strings.HasPrefix(p.PkgPath, Mod) {
			return nil, fmt.Errorf("unexpected package %s outside module %s", p.PkgPath, Mod)
		}
	}
	return c, nil
}

// Pkg returns the package with the path relative to the module ("" = root, "idr", ...). Nil if absent.
func (c *Ctx) Pkg(rel string) *packages.Package {
	p := Mod
	if rel != "" {
		p = Mod + "/" + rel
	}
	return c.All[p]
}

// AnyPkg returns any loaded package (incl. dependencies) by full path.
func (c *Ctx) AnyPkg(path string) *packages.Package { return c.All[path] }

// InRepo tells if the package belongs to the module under analysis.
func InRepo(p *types.Package) bool {
	return p != nil && (p.Path() == Mod || strings.HasPrefix(p.Path(), Mod+"/"))
}

// IsCLIOrSample tells whether a package is the CLI or a sample program (not library code).
func IsCLIOrSample(p *types.Package) bool {
	if p == nil {
		return false
	}
	return strings.HasPrefix(p.Path(), Mod+"/cli") || strings.Contains(p.Path(), "/samples") || strings.HasSuffix(p.Path(), "/validation/gen")
}

// Rel strips the module prefix from a package path / qualified name.
func Rel(s string) string {
	s = strings.ReplaceAll(s, Mod+"/", "")
	s = strings.ReplaceAll(s, Mod, "omniparser")
	return s
}

// Position renders a position as repo-relative file:line.
func (c *Ctx) Position(pos token.Pos) string {
	if !pos.IsValid() {
		return "-"
	}
	p := c.Fset.Position(pos)
	f := p.Filename
	if r, err := filepath.Rel(c.Repo, f); err == nil && !strings.HasPrefix(r, "..") {
		f = r
	}
	return fmt.Sprintf("%s:%d", f, p.Line)
}

// ---------------------------------------------------------------- SSA / call graph

// SSA builds (once) the SSA form of the whole program.
func (c *Ctx) SSA() *ssa.Program {
	c.ssaOnce.Do(func() {
		prog, pkgs := ssautil.AllPackages(c.Pkgs, ssa.InstantiateGenerics)
		prog.Build()
		c.Prog = prog
		c.ssaPkgs = pkgs
		c.allFn = ssautil.AllFunctions(prog)
		c.Stats["ssa_functions"] = len(c.allFn)
	})
	return c.Prog
}

// AllFunctions returns every function of the program (incl. dependencies, wrappers, closures).
func (c *Ctx) AllFunctions() map[*ssa.Function]bool { c.SSA(); return c.allFn }

// RepoFunctions returns all SSA functions (incl. anonymous ones) whose package is in the repository,
// in deterministic order.
func (c *Ctx) RepoFunctions() []*ssa.Function {
	c.SSA()
	var out []*ssa.Function
	for f := range c.allFn {
		if f.Blocks == nil {
			continue
		}
		if p := FuncPkg(f); p != nil && InRepo(p) {
			out = append(out, f)
		}
	}
	sort.Slice(out, func(i, j int) bool {
		a, b := FuncKey(out[i]), FuncKey(out[j])
		if a != b {
			return a < b
		}
		return out[i].Pos() < out[j].Pos()
	})
	return out
}

// FuncPkg returns the types.Package a function belongs to (following closures and instantiations).
func FuncPkg(f *ssa.Function) *types.Package {
	for f != nil {
		if f.Pkg != nil {
			return f.Pkg.Pkg
		}
		if o := f.Origin(); o != nil && o != f {
			f = o
			continue
		}
		if f.Parent() != nil {
			f = f.Parent()
			continue
		}
		if f.Object() != nil {
			return f.Object().Pkg()
		}
		// wrappers/bound methods
		return nil
	}
	return nil
}

// FuncKey is the position-independent name of a function, module prefix stripped.
func FuncKey(f *ssa.Function) string {
	if f == nil {
		return "<nil>"
	}
	return Rel(f.String())
}

// SSAPkg returns the ssa.Package for a repo-relative path.
func (c *Ctx) SSAPkg(rel string) *ssa.Package {
	c.SSA()
	p := c.Pkg(rel)
	if p == nil {
		return nil
	}
	return c.Prog.Package(p.Types)
}

// Func returns a package-level function by repo-relative package path and name.
func (c *Ctx) Func(rel, name string) *ssa.Function {
	sp := c.SSAPkg(rel)
	if sp == nil {
		return nil
	}
	return sp.Func(name)
}

// Method returns the method `name` of named type `typ` (pointer or value receiver) in package rel.
func (c *Ctx) Method(rel, typ, name string) *ssa.Function {
	c.SSA()
	p := c.Pkg(rel)
	if p == nil {
		return nil
	}
	return c.MethodOfPkg(p.Types, typ, name)
}

// MethodOfPkg is Method for an arbitrary types.Package.
func (c *Ctx) MethodOfPkg(tp *types.Package, typ, name string) *ssa.Function {
	c.SSA()
	obj := tp.Scope().Lookup(typ)
	if obj == nil {
		return nil
	}
	tn, ok := obj.(*types.TypeName)
	if !ok {
		return nil
	}
	for _, t := range []types.Type{tn.Type(), types.NewPointer(tn.Type())} {
		ms := c.Prog.MethodSets.MethodSet(t)
		if sel := ms.Lookup(tp, name); sel != nil {
			if fn := c.Prog.MethodValue(sel); fn != nil && fn.Synthetic == "" {
				return fn
			}
		}
	}
	// wrapper only? fall back to any
	ms := c.Prog.MethodSets.MethodSet(types.NewPointer(tn.Type()))
	if sel := ms.Lookup(tp, name); sel != nil {
		fn := c.Prog.MethodValue(sel)
		if fn != nil && fn.Synthetic != "" {
			// find the declared function through the object
			if f := c.Prog.FuncValue(sel.Obj().(*types.Func)); f != nil {
				return f
			}
		}
		return fn
	}
	return nil
}

// CallGraph builds (once) the VTA call graph over the whole program.
func (c *Ctx) CallGraph() *callgraph.Graph {
	c.cgOnce.Do(func() {
		c.SSA()
		c.cg = vta.CallGraph(c.allFn, cha.CallGraph(c.Prog))
		n := 0
		for _, nd := range c.cg.Nodes {
			n += len(nd.Out)
		}
		c.Stats["callgraph_nodes"] = len(c.cg.Nodes)
		c.Stats["callgraph_edges"] = n
	})
	return c.cg
}

// Reachable returns the set of functions reachable from roots in the VTA call graph. extra adds
// edges the graph cannot see (reflection): caller -> callees.
func (c *Ctx) Reachable(roots []*ssa.Function, extra map[*ssa.Function][]*ssa.Function) map[*ssa.Function]bool {
	cg := c.CallGraph()
	seen := map[*ssa.Function]bool{}
	var work []*ssa.Function
	push := func(f *ssa.Function) {
		if f != nil && !seen[f] {
			seen[f] = true
			work = append(work, f)
		}
	}
	for _, r := range roots {
		push(r)
	}
	for len(work) > 0 {
		f := work[len(work)-1]
		work = work[:len(work)-1]
		if n := cg.Nodes[f]; n != nil {
			for _, e := range n.Out {
				push(e.Callee.Func)
			}
		}
		for _, g := range extra[f] {
			push(g)
		}
	}
	return seen
}

// Callees returns the resolved callees of a call instruction (static, or VTA-resolved).
func (c *Ctx) Callees(call ssa.CallInstruction) []*ssa.Function {
	if f := call.Common().StaticCallee(); f != nil {
		return []*ssa.Function{f}
	}
	cg := c.CallGraph()
	n := cg.Nodes[call.Parent()]
	var out []*ssa.Function
	if n != nil {
		for _, e := range n.Out {
			if e.Site == call {
				out = append(out, e.Callee.Func)
			}
		}
	}
	sort.Slice(out, func(i, j int) bool { return out[i].String() < out[j].String() })
	return out
}

// ---------------------------------------------------------------- AST helpers

// FuncDecl finds the AST declaration of a function object.
func (c *Ctx) FuncDecl(obj *types.Func) (*ast.FuncDecl, *packages.Package) {
	if obj == nil || obj.Pkg() == nil {
		return nil, nil
	}
	p := c.All[obj.Pkg().Path()]
	if p == nil {
		return nil, nil
	}
	for _, f := range p.Syntax {
		for _, d := range f.Decls {
			if fd, ok := d.(*ast.FuncDecl); ok && p.TypesInfo.Defs[fd.Name] == obj {
				return fd, p
			}
		}
	}
	return nil, nil
}

// EachFuncDecl calls fn for every function declaration of the package.
func EachFuncDecl(p *packages.Package, fn func(fd *ast.FuncDecl, obj *types.Func)) {
	for _, f := range p.Syntax {
		for _, d := range f.Decls {
			if fd, ok := d.(*ast.FuncDecl); ok {
				if obj, ok := p.TypesInfo.Defs[fd.Name].(*types.Func); ok {
					fn(fd, obj)
				}
			}
		}
	}
}

// ObjKey renders a types.Func as position independent key.
func ObjKey(obj *types.Func) string {
	if obj == nil {
		return "<nil>"
	}
	return Rel(obj.FullName())
}

// ---------------------------------------------------------------- reporting

func (c *Ctx) add(rule, construct string, pos token.Pos, status, detail string) *Obligation {
	k := rule + "\x00" + construct
	c.keyCount[k]++
	if n := c.keyCount[k]; n > 1 {
		construct = fmt.Sprintf("%s #%d", construct, n)
	}
	o := &Obligation{Property: c.Prop, Rule: rule, Construct: construct, Pos: c.Position(pos), Status: status, Detail: detail}
	c.obs = append(c.obs, o)
	return o
}

// OK records a discharged obligation.
func (c *Ctx) OK(rule, construct string, pos token.Pos, detail string) {
	c.add(rule, construct, pos, Discharged, detail)
}

// Bad records a violated obligation.
func (c *Ctx) Bad(rule, construct string, pos token.Pos, detail string) {
	c.add(rule, construct, pos, Violated, detail)
}

// Unknown records an undecided obligation (treated as a failure).
func (c *Ctx) Unknown(rule, construct string, pos token.Pos, detail string) {
	c.add(rule, construct, pos, Undecided, detail)
}

// Arg records an obligation backed by a written argument only.
func (c *Ctx) Arg(rule, construct string, pos token.Pos, detail string) {
	c.add(rule, construct, pos, Argued, detail)
}

// Check records discharged if ok, else violated.
func (c *Ctx) Check(ok bool, rule, construct string, pos token.Pos, okDetail, badDetail string) bool {
	if ok {
		c.OK(rule, construct, pos, okDetail)
	} else {
		c.Bad(rule, construct, pos, badDetail)
	}
	return ok
}

// Unresolved reports that a role/anchor needed by a rule could not be resolved.
func (c *Ctx) Unresolved(rule, role, detail string) {
	c.add("anchor-unresolved", rule+":"+role, token.NoPos, Undecided, detail)
}

// Floor requires at least min obligations of the given rule (vacuity guard).
func (c *Ctx) Floor(rule string, min int, what string) {
	c.floors = append(c.floors, floor{rule, min, what})
}

// Note adds a free-text line to the evidence.
func (c *Ctx) Note(format string, a ...interface{}) {
	c.Notes = append(c.Notes, fmt.Sprintf(format, a...))
}

// CountRule returns the number of obligations recorded so far for the rule.
func (c *Ctx) CountRule(rule string) int {
	n := 0
	for _, o := range c.obs {
		if o.Rule == rule {
			n++
		}
	}
	return n
}

// Obligations returns the recorded obligations.
func (c *Ctx) Obligations() []*Obligation { return c.obs }

// ---------------------------------------------------------------- known findings

// KnownFinding is one committed genuine-defect record.
type KnownFinding struct {
	Property  string `json:"property"`
	Rule      string `json:"rule"`
	Construct string `json:"construct"`
	What      string `json:"what"`
	Repro     string `json:"repro,omitempty"`
}

// KnownFile is the format of known_findings.json.
type KnownFile struct {
	Findings []KnownFinding `json:"findings"`
	Fixed    []string       `json:"fixed"`
}

// LoadKnown reads the known-findings file (never written at run time).
func LoadKnown(path string) (*KnownFile, error) {
	b, err := os.ReadFile(path)
	if err != nil {
		if os.IsNotExist(err) {
			return &KnownFile{}, nil
		}
		return nil, err
	}
	var k KnownFile
	if err := json.Unmarshal(b, &k); err != nil {
		return nil, fmt.Errorf("%s: %w", path, err)
	}
	return &k, nil
}

// Result is the outcome of a run.
type Result struct {
	Obligations []*Obligation
	Violations  []*Obligation // not known
	Known       []*Obligation
	Counts      map[string]int
	PerRule     map[string]map[string]int
}

// Finish applies floors and known findings and computes the result.
func (c *Ctx) Finish(k *KnownFile) *Result {
	for _, f := range c.floors {
		n := c.CountRule(f.rule)
		if n < f.min {
			c.add("instance-count", f.rule, token.NoPos, Undecided,
				fmt.Sprintf("rule %s matched %d instance(s), fewer than the %d confirmed by hand (%s): the rule can no longer show the property", f.rule, n, f.min, f.what))
		} else {
			c.add("instance-count", f.rule, token.NoPos, Discharged, fmt.Sprintf("%d instance(s) >= %d (%s)", n, f.min, f.what))
		}
	}
	r := &Result{Obligations: c.obs, Counts: map[string]int{}, PerRule: map[string]map[string]int{}}
	// 1. exact matching of known findings
	usedFinding := map[int]bool{}
	for _, o := range c.obs {
		if o.Status != Violated {
			continue
		}
		for i, f := range k.Findings {
			if f.Property == o.Property && f.Rule == o.Rule && f.Construct == o.Construct {
				o.Known = true
				usedFinding[i] = true
				if o.Detail == "" {
					o.Detail = f.What
				}
			}
		}
	}
	// 2. re-identification after a rename: a listed finding whose construct no longer occurs, and exactly one unmatched
	// violated obligation of the same rule whose construct has the same shape (unexported identifiers masked), are the
	// same finding under a new name. Ambiguity (two candidates) is never resolved in favour of silence.
	for _, shapeOf := range []func(string) string{ConstructShape, ConstructShapeCoarse} {
		for i, f := range k.Findings {
			if usedFinding[i] || f.Property != c.Prop {
				continue
			}
			// the old construct must really be gone
			gone := true
			for _, o := range c.obs {
				if o.Rule == f.Rule && o.Construct == f.Construct {
					gone = false
				}
			}
			if !gone {
				continue
			}
			shape := shapeOf(f.Construct)
			var cand []*Obligation
			for _, o := range c.obs {
				if o.Status == Violated && !o.Known && o.Rule == f.Rule && shapeOf(o.Construct) == shape {
					cand = append(cand, o)
				}
			}
			// other unused findings with the same shape compete for the same candidates: require a 1:1 situation
			competitors := 0
			for j, g := range k.Findings {
				if j != i && !usedFinding[j] && g.Property == f.Property && g.Rule == f.Rule && shapeOf(g.Construct) == shape {
					competitors++
				}
			}
			if len(cand) == 1 && competitors == 0 {
				cand[0].Known = true
				cand[0].Detail = "re-identified known finding (was: " + f.Construct + "): " + cand[0].Detail
				usedFinding[i] = true
			}
		}
	}
	for _, o := range c.obs {
		if o.Status == Violated || o.Status == Undecided {
			if o.Known {
				r.Known = append(r.Known, o)
			} else {
				r.Violations = append(r.Violations, o)
			}
		}
		r.Counts[o.Status]++
		if r.PerRule[o.Rule] == nil {
			r.PerRule[o.Rule] = map[string]int{}
		}
		r.PerRule[o.Rule][o.Status]++
	}
	return r
}

var shapeRecvRe = regexp.MustCompile(`\(\*?([A-Za-z0-9_/]+)\.[A-Za-z0-9_]+\)\._`)

// ConstructShapeCoarse additionally forgets whether a function is a method: "(*pkg.T)._" and "pkg._" coincide (a function
// turned into a method or vice versa).
func ConstructShapeCoarse(s string) string {
	return shapeRecvRe.ReplaceAllString(ConstructShape(s), "$1._")
}

var shapeSymRe = regexp.MustCompile(`([./])([a-z_][A-Za-z0-9_]*)(\)?)`)
var shapeOrdRe = regexp.MustCompile(` #[0-9]+$`)

// ConstructShape masks the unexported identifiers of a construct key (symbols that follow a "." and start with a
// lower-case letter: functions, methods, fields, unexported types) while keeping package paths, exported names and the
// rule-specific wording. Used only to re-identify a listed known finding after a rename.
func ConstructShape(s string) string {
	s = shapeOrdRe.ReplaceAllString(s, "")
	// package path segments are followed by "/" or are the last segment before a "."; mask only ".name" symbols
	return shapeSymRe.ReplaceAllStringFunc(s, func(m string) string {
		if m[0] == '/' {
			return m // path segment
		}
		if strings.HasSuffix(m, ")") {
			return "._)"
		}
		return "._"
	})
}

// Elapsed since load started.
func (c *Ctx) Elapsed() float64 { return time.Since(c.start).Seconds() }

// Sub returns a context that shares the loaded program (packages, SSA, call graph if already built) with c but has its
// own, empty obligation list. Used to evaluate rules of another property and import selected obligations under the
// importing property's rule names (ImportFrom).
func (c *Ctx) Sub() *Ctx {
	c.SSA()
	s := &Ctx{Prop: c.Prop, Tier: c.Tier, Repo: c.Repo, Variant: c.Variant, Pkgs: c.Pkgs, All: c.All, Fset: c.Fset, NFiles: c.NFiles,
		Prog: c.Prog, ssaPkgs: c.ssaPkgs, allFn: c.allFn, keyCount: map[string]int{}, Stats: map[string]int{}, start: c.start}
	s.ssaOnce.Do(func() {})
	if c.cg != nil {
		s.cg = c.cg
		s.cgOnce.Do(func() {})
	}
	return s
}

// ImportFrom copies the obligations of sub whose rule is renamed by the mapping (rule -> new rule name); obligations of
// other rules, instance-count rows and floors of sub are dropped. Unresolved anchors of the imported rules are kept.
func (c *Ctx) ImportFrom(sub *Ctx, rename map[string]string) int {
	return c.ImportFromIf(sub, rename, nil)
}

// ImportFromIf is ImportFrom restricted to the obligations accepted by keep (nil = all).
func (c *Ctx) ImportFromIf(sub *Ctx, rename map[string]string, keep func(o *Obligation) bool) int {
	n := 0
	for _, o := range sub.obs {
		if keep != nil && !keep(o) {
			continue
		}
		nr, ok := rename[o.Rule]
		if !ok {
			if o.Rule == "anchor-unresolved" {
				for from, to := range rename {
					if strings.HasPrefix(o.Construct, from+":") {
						c.add("anchor-unresolved", to+":"+strings.TrimPrefix(o.Construct, from+":"), token.NoPos, o.Status, o.Detail)
					}
				}
			}
			continue
		}
		k := nr + "\x00" + o.Construct
		c.keyCount[k]++
		cp := *o
		cp.Property, cp.Rule = c.Prop, nr
		c.obs = append(c.obs, &cp)
		n++
	}
	if c.cg == nil && sub.cg != nil {
		c.cg = sub.cg
		c.cgOnce.Do(func() {})
	}
	return n
}
