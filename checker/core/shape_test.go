package core

import "testing"

func TestConstructShape(t *testing.T) {
	for _, c := range [][2]string{
		{"extensions/omniv21/transform.xpathQueryNeeded reads Decl.parent", "extensions/omniv21/transform.needsXPathQuery reads Decl.parentDecl"},
		{"(*idr.XMLStreamReader).streamCandidateCheck marks candidate by idr.MatchAny", "(*idr.XMLStreamReader).markStreamCandidate marks candidate by idr.MatchAny"},
		{"(*extensions/omniv21/fileformat/csv.reader).jumpTo loop around encoding/csv.Reader.Read", "(*extensions/omniv21/fileformat/csv.csvReader).skipToRow loop around encoding/csv.Reader.Read"},
		{"(*extensions/omniv21/transform.parseCtx).invokeCustomFunc calls reflect.Value.Call", "(*extensions/omniv21/transform.nodeParser).callCustomFunc calls reflect.Value.Call"},
	} {
		if ConstructShape(c[0]) != ConstructShape(c[1]) {
			t.Errorf("shapes differ:\n %q\n %q", ConstructShape(c[0]), ConstructShape(c[1]))
		}
	}
	if ConstructShape("(*idr.XMLStreamReader).x marks") == ConstructShape("(*idr.JSONStreamReader).x marks") {
		t.Error("exported type names must be kept")
	}
	if ConstructShapeCoarse("(*extensions/omniv21/transform.Decl).xpathQueryNeeded reads Decl.parent") != ConstructShapeCoarse("extensions/omniv21/transform.xpathQueryNeeded reads Decl.parent") {
		t.Errorf("coarse: %q", ConstructShapeCoarse("(*extensions/omniv21/transform.Decl).xpathQueryNeeded reads Decl.parent"))
	}
	t.Log(ConstructShape("(*extensions/omniv21/fileformat/csv.reader).jumpTo loop around encoding/csv.Reader.Read"))
}
