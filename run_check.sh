#!/bin/bash
# Usage: run_check.sh <property> <quick|thorough>
# Builds omnilint (incremental, offline) and analyses /repo's current working tree.
set -u
cd "$(dirname "$0")"
export GOFLAGS=-mod=mod GOPROXY=off GOSUMDB=off GOTOOLCHAIN=local
unset GOWORK
PROP="$1"; TIER="${2:-quick}"
mkdir -p bin evidence
( cd checker && go build -o ../bin/omnilint ./cmd/omnilint ) || { echo "omnilint: build failed"; exit 2; }
exec ./bin/omnilint -prop "$PROP" -tier "$TIER" -repo "${VERIF_REPO:-/repo}" -verif "$(pwd)"
