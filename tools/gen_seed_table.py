#!/usr/bin/env python3
"""Regenerates section 11 of DESIGN.md (between the markers) from seeded/*/meta.json."""
import json, glob, os, re
rows=[]
for m in sorted(glob.glob('/verif/seeded/*/meta.json')):
    sid=os.path.basename(os.path.dirname(m)); j=json.load(open(m))
    own=j['property']
    caught={c['property']:c for c in j.get('caught_by',[])}
    summ=re.sub(r'\s+',' ',j.get('summary',''))[:170]
    needs=re.sub(r'\s+',' ',j.get('needs',''))[:120]
    ownc=caught.get(own)
    own_s = f"**{own}/{ownc['rule']}**" if ownc else f"missed by {own}"
    others=', '.join(f"{p}/{c['rule']}" for p,c in sorted(caught.items()) if p!=own)
    rows.append(f"| {sid} | {summ} | {needs} | {own_s} | {others or '–'} |")
n=len(rows); c=sum(1 for r in rows if '| **' in r)
txt=f"""<!-- SEED-TABLE-BEGIN -->
{n} independently produced changes (each compiles, passes the full existing suite, and has a demonstration that fails with the
change and passes without it — confirmed by `tools/verify_seed.sh` in a scratch worktree). {c} of {n} are caught by the check of
the property they were written against; the last column lists other checks that also fire.

| seed | change (abridged) | needs, to manifest | own-property check | also caught by |
|---|---|---|---|---|
""" + "\n".join(rows) + "\n<!-- SEED-TABLE-END -->"
p='/verif/DESIGN.md'; s=open(p).read()
if '<!-- SEED-TABLE-BEGIN -->' in s:
    s=re.sub(r'<!-- SEED-TABLE-BEGIN -->.*?<!-- SEED-TABLE-END -->', lambda _: txt, s, flags=re.S)
else:
    s=s.rstrip('\n')+"\n\n## 11. Seeded changes: which checks catch which changes\n\n"+ \
"""Independent sub-agents were given only the text of one property and a scratch git worktree of `/repo` (nothing from `/verif`) and
asked for realistic changes that break the property, still compile and pass the existing tests, and need something specific to
manifest. Every change was re-verified by us before it was kept under `/verif/seeded/<id>/` (patch.diff, the demonstration,
meta.json). No change was ever applied to `/repo`: checks are run against a scratch copy (`tools/try_seed.sh`,
`tools/seed_matrix.py`), and the thorough tier re-applies every seed recorded as caught and requires the same rule to fire.
Rules added or strengthened because a seed was missed are listed in section 10.3. Seeds that remain missed are value-level
changes (string scanning, arithmetic, algorithmic cursor logic, namespace-table policy) that no structural clause of ours covers;
they are listed so that the limits are visible.

"""+txt+"\n"
open(p,'w').write(s)
print(n,c)
