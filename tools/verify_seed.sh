#!/bin/bash
# Usage: verify_seed.sh <srcdir with patch.diff, demo_test.go, meta.json> <seed-id> <demo dest dir rel. to repo root> <run regex>
# Confirms in a scratch worktree of /repo: full suite passes with the patch (without the demo), the demo fails with the
# patch and passes without it. On success stores the seed under /verif/seeded/<seed-id>/ . Removes the worktree.
set -u
export GOFLAGS=-mod=mod GOPROXY=off GOSUMDB=off GOTOOLCHAIN=local; unset GOWORK
SRC="$1"; ID="$2"; DEST="$3"; RUN="$4"
WT=/tmp/vseed-$ID
git -C /repo worktree remove --force "$WT" 2>/dev/null
git -C /repo worktree add -q --detach "$WT" HEAD || exit 2
cleanup() { git -C /repo worktree remove --force "$WT" 2>/dev/null; rm -rf "$WT"; }
trap cleanup EXIT
cd "$WT"
DEMO=$(ls "$SRC"/*_test.go | head -1)
DEMONAME=zz_seed_demo_test.go
PKG="./$DEST"
res() { echo "[$ID] $1"; }
git apply --whitespace=nowarn "$SRC/patch.diff" || { res "FAIL: patch does not apply"; exit 1; }
go build ./... || { res "FAIL: does not build with patch"; exit 1; }
if ! go test -vet=off -count=1 ./... > /tmp/vseed-$ID.full.log 2>&1; then res "FAIL: existing suite fails with patch"; tail -20 /tmp/vseed-$ID.full.log; exit 1; fi
mkdir -p "$DEST"; cp "$DEMO" "$DEST/$DEMONAME"
if go test -vet=off -count=1 -timeout 300s -run "$RUN" "$PKG" > /tmp/vseed-$ID.with.log 2>&1; then res "FAIL: demo passes WITH the patch"; exit 1; fi
grep -q "^--- FAIL\|^FAIL\|panic:" /tmp/vseed-$ID.with.log || { res "FAIL: demo did not run/fail properly"; tail /tmp/vseed-$ID.with.log; exit 1; }
git checkout -q -- . 
if ! go test -vet=off -count=1 -timeout 300s -run "$RUN" "$PKG" > /tmp/vseed-$ID.without.log 2>&1; then res "FAIL: demo fails WITHOUT the patch"; tail -20 /tmp/vseed-$ID.without.log; exit 1; fi
grep -q "^ok" /tmp/vseed-$ID.without.log || { res "FAIL: demo did not run without patch"; exit 1; }
mkdir -p /verif/seeded/$ID
cp "$SRC/patch.diff" /verif/seeded/$ID/patch.diff
cp "$DEMO" /verif/seeded/$ID/demo_test.go.txt
python3 - "$SRC/meta.json" "/verif/seeded/$ID/meta.json" "$DEST" "$RUN" <<'PY'
import json,sys
m=json.load(open(sys.argv[1]))
m['demo_file']='demo_test.go.txt (copy as <name>_test.go into '+sys.argv[3]+'/)'
m['demo_cmd']='go test -vet=off -count=1 -run '+repr(sys.argv[4])+' ./'+sys.argv[3]
m['verified']='tools/verify_seed.sh in a scratch worktree of /repo HEAD: patch applies; go build ./... ok; go test ./... passes with the patch (demo absent); demo fails with the patch; demo passes without it'
m.setdefault('caught_by',[])
json.dump(m,open(sys.argv[2],'w'),indent=1)
PY
rm -f /tmp/vseed-$ID.*.log
res "OK: verified and stored in /verif/seeded/$ID"
