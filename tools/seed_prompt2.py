#!/usr/bin/env python3
"""Round-2 seeding prompt: property text + worktree + list of ideas already used in round 1 (from seeded/*/meta.json)."""
import json, sys, glob, subprocess
pid, wt = sys.argv[1], sys.argv[2]
base = subprocess.check_output(['python3','/verif/tools/seed_prompt.py',pid,wt],text=True)
base = base.replace('/tmp/seedout/'+pid, '/tmp/seedout2/'+pid)
used=[]
for m in sorted(glob.glob(f'/verif/seeded/{pid}-*/meta.json')):
    j=json.load(open(m)); used.append('- '+j.get('summary','')[:400].replace('\n',' '))
extra = "\n\nIMPORTANT — ideas already used by an earlier round (do NOT repeat them or close variants; find DIFFERENT mechanisms, different files/functions where possible):\n" + "\n".join(used) + "\n\nAlso never use `git stash` (refs/stash is shared between worktrees); use `git diff > patch.diff` and `git checkout -- .` instead.\n"
print(base.rstrip()+extra)
