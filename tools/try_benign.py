#!/usr/bin/env python3
"""try_benign.py [ids...]: applies each behaviour-preserving patch under /verif/benign/<id>/patch.diff to a scratch copy of
/repo and runs every claimed check against it. Any violation is a FALSE ALARM of the checker. Scratch copies removed."""
import json, os, subprocess, sys, tempfile, shutil, concurrent.futures as cf
ROOT=os.environ.get('VERIF_ROOT','/verif')
env=dict(os.environ, GOFLAGS='-mod=mod', GOPROXY='off', GOSUMDB='off', GOTOOLCHAIN='local'); env.pop('GOWORK',None)
claimed=sorted(json.load(open(f'{ROOT}/tools/claims.json'))['claimed'].keys())
props=os.environ.get('BN_PROPS'); props=props.split(',') if props else claimed
ids=sys.argv[1:] or sorted([d for d in os.listdir(f'{ROOT}/benign') if d.isdigit()], key=int)
def run(bid):
    tmp=tempfile.mkdtemp(prefix='benign-')
    out=[]
    try:
        subprocess.check_call(['rsync','-a','--exclude=.git','--exclude=*.gif','--exclude=*.png','/repo/',f'{tmp}/repo/'])
        subprocess.check_call(['git','init','-q','.'],cwd=f'{tmp}/repo')
        r=subprocess.run(['git','apply','--whitespace=nowarn',f'{ROOT}/benign/{bid}/patch.diff'],cwd=f'{tmp}/repo',capture_output=True,text=True)
        if r.returncode!=0: return bid,['patch does not apply: '+r.stderr.strip()]
        outs={}
        for attempt in range(3):
            todo=[p for p in props if p not in outs]
            if not todo: break
            os.makedirs(f'{tmp}/raw',exist_ok=True)
            subprocess.run([f'{ROOT}/bin/omnilint','-props',','.join(todo),'-repo',f'{tmp}/repo','-verif',ROOT,'-rawdir',f'{tmp}/raw'],env=env,capture_output=True)
            for p in todo:
                try: outs[p]=json.load(open(f'{tmp}/raw/{p}.json'))
                except Exception: pass
        for p in props:
            o=outs.get(p)
            if o is None: out.append(f'{p}: no output (3 attempts)'); continue
            if o.get('fatal'): out.append(f'{p}: FATAL {o["fatal"][:300]}')
            for v in (o.get('violations') or []):
                out.append(f'{p}/{v["rule"]} {v["pos"].replace(tmp+"/repo/","")} {v["construct"]}: {v["status"]}: {v.get("detail","")[:260]}')
        return bid,out
    finally:
        shutil.rmtree(tmp,ignore_errors=True)
with cf.ThreadPoolExecutor(max_workers=int(os.environ.get('BN_WORKERS','4'))) as ex:
    for bid,out in ex.map(run,ids):
        print(f'### benign {bid}: {len(out)} false alarm line(s)',flush=True)
        for l in out: print('   ',l,flush=True)
