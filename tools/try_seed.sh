#!/bin/bash
# Usage: try_seed.sh <patch.diff> <prop> [<prop>...]
# Applies the patch to a scratch copy of /repo (never to /repo itself) and runs the given checks against it.
set -u
export GOFLAGS=-mod=mod GOPROXY=off GOSUMDB=off GOTOOLCHAIN=local; unset GOWORK
PATCH="$1"; shift
D=$(mktemp -d /tmp/tryseed-XXXXXX)
rsync -a --exclude=.git --exclude='*.gif' --exclude='*.png' /repo/ "$D/repo/"
mkdir -p "$D/out"
( cd "$D/repo" && git init -q . 2>/dev/null && git apply --whitespace=nowarn "$PATCH" ) || { echo "PATCH DOES NOT APPLY"; rm -rf "$D"; exit 3; }
for P in "$@"; do
  echo "== $P"
  ${VERIF_ROOT:-/verif}/bin/omnilint -prop "$P" -repo "$D/repo" -verif ${VERIF_ROOT:-/verif} -out "$D/out" | grep -v "^KNOWN-FINDING" | sed "s#$D/repo/##g" | head -${TRY_LINES:-12}
done
rm -rf "$D"
