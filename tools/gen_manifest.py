#!/usr/bin/env python3
"""Regenerates /verif/MANIFEST.json from tools/claims.json (claimed checks) and properties.jsonl.
Every property not listed in claims.json goes to not_applicable with its reason from claims.json["not_applicable"]
(or a default 'not built yet' reason)."""
import json, os
root = os.path.dirname(os.path.dirname(os.path.abspath(__file__)))
props = [json.loads(l)["id"] for l in open(os.path.join(root, "properties.jsonl"))]
claims = json.load(open(os.path.join(root, "tools", "claims.json")))
checks = []
for pid in props:
    c = claims["claimed"].get(pid)
    if not c:
        continue
    checks.append({
        "property_id": pid,
        "quick_cmd": f"./run_check.sh {pid} quick",
        "thorough_cmd": f"./run_check.sh {pid} thorough",
        "evidence_file": f"evidence/{pid}.json",
        "replay_cmd_template": f"./bin/omnilint -prop {pid} -only '<construct from {{path}}>'",
        "engine": "omnilint",
        "level_claimed": {"category": "other", "text": c["text"], "design_ref": c.get("design_ref", f"DESIGN.md section 3, {pid}")},
        "level_note": c["note"],
        "technique": c["technique"],
    })
na = []
for pid in props:
    if pid in claims["claimed"]:
        continue
    na.append({"property_id": pid, "reason": claims["not_applicable"].get(pid, "static check not built yet; see DESIGN.md section 3 for the planned structural clause")})
m = {
    "version": 1,
    "setup_cmd": "cd /verif/checker && GOFLAGS=-mod=mod GOPROXY=off GOSUMDB=off GOTOOLCHAIN=local go build -o /verif/bin/omnilint ./cmd/omnilint",
    "hooks": {
        "guard": "verif",
        "enable": "-tags verif (no hook sources: static analysis reads the code as it is; the thorough tier also analyses the tree with -tags verif and GOARCH=386)",
        "baseline_off_cmd": "cd /repo && GOFLAGS=-mod=mod go test -json -vet=off -count=1 -timeout 25m ./...",
        "source_commits": [],
        "add_only": True,
    },
    "engines": [{"name": "omnilint", "path": "checker/", "serves_properties": sorted(claims["claimed"].keys()),
                 "kind_free_text": "repository-specific static analyser (go/packages type-checked syntax, go/ssa, CHA+VTA call graph; finite-domain abstract interpretation of small functions); never executes omniparser"}],
    "checks": checks,
    "not_applicable": na,
    "notes": "All claims are at level 'other': each check soundly decides named structural clauses that are necessary conditions of the property over all paths/call sites of the current source; DESIGN.md states per property what is not decided. Genuine defects found are in known_findings.json.",
}
json.dump(m, open(os.path.join(root, "MANIFEST.json"), "w"), indent=1)
print("claimed:", len(checks), "not_applicable:", len(na))
