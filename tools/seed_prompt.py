#!/usr/bin/env python3
"""Prints the prompt for a seeding sub-agent: only the property text and a scratch worktree."""
import json, sys
pid, wt = sys.argv[1], sys.argv[2]
p = next(json.loads(l) for l in open('/verif/properties.jsonl') if json.loads(l)['id'] == pid)
print(f"""You are testing how robust a Go library is against subtle regressions. The library is jf-tech/omniparser (a streaming ETL library: parses CSV, fixed-length, XML, JSON, EDI into a node tree and transforms records to JSON via schemas). You have your own scratch git worktree of it at {wt} . Work ONLY inside {wt} (and /tmp/seedout/{pid} for your deliverables). Do not read or write /verif or /repo, and do not look for any verification tooling on this machine: your work must be independent of it.

Environment for every shell call (no network): export GOFLAGS=-mod=mod GOPROXY=off GOSUMDB=off GOTOOLCHAIN=local; unset GOWORK. The existing tests run with: cd {wt} && go test -vet=off -count=1 ./...

The property that should always hold for this library:

  Title: {p['title']}
  Statement: {p['statement']}
  Quantified over: {p['quantifier']['text']}

Task: produce THREE different, realistic source changes to the library (non-test .go files under {wt}; not under cli/ or samples/) — the kind of plausible-looking edit a developer could make during a refactor, optimisation or feature — each of which BREAKS the property above while (a) the library still compiles, and (b) the complete existing test-suite still passes. Each change must need something specific to manifest (a particular interleaving, a fault at a particular point, a multi-step sequence of operations, an unusual input, or two cooperating sites that each look fine alone) — NOT something ordinary use would expose at once. Prefer small changes (1–15 lines), each attacking a different mechanism behind the property. Read the relevant code first to find the mechanisms.

For each change k = 1, 2, 3 deliver in /tmp/seedout/{pid}/k/ :
  * patch.diff — `git diff` of the library change only (relative to the worktree's HEAD; apply-able with `git apply` from the repository root),
  * a demonstration — a Go test file (say demo_test.go, with a comment naming the package directory it must be copied into) or a small program — that FAILS with the change applied and PASSES on the unchanged code; say exactly how to run it,
  * meta.json — {{"property": "{pid}", "summary": "...what was changed...", "needs": "...what it needs in order to manifest...", "demo": "...file + where it goes + command...", "ran": "...commands you ran and their outcome: full test-suite with the change, demo with and without the change..."}}.
You must actually run: the full test-suite with each change applied (must pass), the demo with the change (must fail) and without it (must pass). Reset the worktree between changes (git -C {wt} checkout -- . && git -C {wt} clean -fd). When you are finished leave the worktree clean. Reply with a short summary of the three changes.""")
