#!/usr/bin/env python3
"""ingest_round.py <outdir> <prop> [k ...]
Verifies the seeds a seeding sub-agent left under <outdir>/<prop>/<k>/ (patch.diff, *_test.go, meta.json) with
tools/verify_seed.sh (scratch worktree of /repo; suite passes with the patch, demo fails with / passes without) and stores
the verified ones as /verif/seeded/<prop>-<next n>/ . The demo's package directory and -run regex are taken from the
`go test ... -run X ./dir` line in the demo file or in meta.json."""
import json, os, re, subprocess, sys, glob
out, prop = sys.argv[1], sys.argv[2]
ks = sys.argv[3:] or sorted(d for d in os.listdir(f'{out}/{prop}') if os.path.isdir(f'{out}/{prop}/{d}'))
def next_id():
    ns = [int(os.path.basename(d).split('-')[1]) for d in glob.glob(f'/verif/seeded/{prop}-*')]
    return f'{prop}-{max(ns + [0]) + 1}'
pat = re.compile(r"-run[= ]+['\"]?([A-Za-z0-9_^$|().*/]+)['\"]?\s+(\./[A-Za-z0-9_./-]*|\.)(?:\s|$|['\"`])")
for k in ks:
    d = f'{out}/{prop}/{k}'
    demos = glob.glob(f'{d}/*_test.go')
    if not demos or not os.path.exists(f'{d}/patch.diff') or not os.path.exists(f'{d}/meta.json'):
        print(f'[{prop}/{k}] incomplete deliverable: {os.listdir(d)}'); continue
    txt = open(demos[0]).read()
    try:
        meta = json.load(open(f'{d}/meta.json'))
    except Exception as e:
        print(f'[{prop}/{k}] meta.json unreadable: {e}'); continue
    m = pat.search(txt) or pat.search(str(meta.get('demo', ''))) or pat.search(str(meta.get('ran', '')))
    run = dest = None
    if m:
        run, dest = m.group(1), m.group(2)
    else:
        fn = re.search(r'^func (Test\w+)\(', txt, re.M)
        mm = re.search(r'(?:[Cc]opy|[Pp]lace|[Pp]ut)\W+(?:this file\W+)?(?:in|into|to|under)\W+(?:the\W+)?(?:directory\W+)?`?((?:\./)?[a-z0-9_./-]+/|the repository root|repository root|repo root)', txt + str(meta.get('demo', '')))
        if fn and mm:
            run = fn.group(1); dest = mm.group(1)
    if not run:
        print(f'[{prop}/{k}] cannot determine demo destination/run regex'); continue
    if 'root' in dest: dest = '.'
    dest = dest.strip('`').rstrip('/')
    if dest.startswith('./'): dest = dest[2:]
    if dest == '': dest = '.'
    sid = next_id()
    r = subprocess.run(['/verif/tools/verify_seed.sh', d, sid, dest, run], capture_output=True, text=True)
    print((r.stdout + r.stderr).strip()[-1500:], flush=True)
