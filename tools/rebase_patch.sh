#!/bin/bash
# Usage: rebase_patch.sh <patch.diff>   Re-bases a seed/benign patch that no longer applies to /repo HEAD: applies it at the newest
# earlier commit of /repo where it applies, commits it in a scratch worktree, rebases that commit onto HEAD and rewrites the patch.
set -u
P="$1"
W=$(mktemp -d /tmp/rbp-XXXX)
for base in $(git -C /repo log --format=%h -8); do
  git -C /repo worktree add -q --detach "$W/wt" $base 2>/dev/null || continue
  if git -C "$W/wt" apply --check "$P" 2>/dev/null; then
    git -C "$W/wt" apply "$P" && git -C "$W/wt" add -A && git -C "$W/wt" -c user.email=x@y -c user.name=x commit -qm tmp
    if git -C "$W/wt" -c user.email=x@y -c user.name=x rebase -q --onto $(git -C /repo rev-parse HEAD) $base 2>/dev/null; then
      git -C "$W/wt" diff $(git -C /repo rev-parse HEAD) HEAD > "$P.new" && mv "$P.new" "$P" && echo "rebased $P (was at $base)"
    else
      echo "CONFLICT rebasing $P from $base"; git -C "$W/wt" rebase --abort 2>/dev/null
    fi
    git -C /repo worktree remove --force "$W/wt"; rm -rf "$W"; exit 0
  fi
  git -C /repo worktree remove --force "$W/wt"
done
echo "no base found for $P"; rm -rf "$W"; exit 1
