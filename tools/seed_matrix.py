#!/usr/bin/env python3
"""seed_matrix.py [--props C12,C10,...] [seed-id ...]
For each seed under /verif/seeded, applies patch.diff to a scratch copy of /repo (never to /repo), runs the given
checks (default: the seed's own property + all currently claimed properties) and records in meta.json which
checks catch it: caught_by = [{property, rule, construct_contains}], missed_by = [props]. Scratch copies removed."""
import json, os, subprocess, sys, tempfile, shutil, concurrent.futures as cf
ROOT = os.environ.get('VERIF_ROOT', '/verif')
env = dict(os.environ, GOFLAGS='-mod=mod', GOPROXY='off', GOSUMDB='off', GOTOOLCHAIN='local')
env.pop('GOWORK', None)
args = sys.argv[1:]
props = None
if args and args[0] == '--props':
    props = args[1].split(','); args = args[2:]
claimed = sorted(json.load(open(f'{ROOT}/tools/claims.json'))['claimed'].keys())
seeds = args or sorted(os.listdir(f'{ROOT}/seeded'))

def run_seed(sid):
    d = f'{ROOT}/seeded/{sid}'
    meta = json.load(open(f'{d}/meta.json'))
    plist = props or ([meta['property']] if os.environ.get('MX_OWN') else sorted(set([meta['property']] + claimed)))
    plist = [p for p in plist if p in claimed]
    tmp = tempfile.mkdtemp(prefix='seedmx-')
    try:
        subprocess.check_call(['rsync', '-a', '--exclude=.git', '--exclude=*.gif', '--exclude=*.png', '/repo/', f'{tmp}/repo/'])
        subprocess.check_call(['git', 'init', '-q', '.'], cwd=f'{tmp}/repo')
        r = subprocess.run(['git', 'apply', '--whitespace=nowarn', f'{d}/patch.diff'], cwd=f'{tmp}/repo', capture_output=True, text=True)
        if r.returncode != 0:
            return sid, 'patch does not apply: ' + r.stderr.strip()
        caught, missed = [], []
        outs = {}
        for attempt in range(3):
            todo = [p for p in plist if p not in outs]
            if not todo: break
            os.makedirs(f'{tmp}/raw', exist_ok=True)
            subprocess.run([f'{ROOT}/bin/omnilint', '-props', ','.join(todo), '-repo', f'{tmp}/repo', '-verif', ROOT, '-rawdir', f'{tmp}/raw'], env=env, capture_output=True)
            for p in todo:
                try:
                    outs[p] = json.load(open(f'{tmp}/raw/{p}.json'))
                except Exception:
                    pass
        for p in plist:
            o = outs.get(p)
            if o is None:
                missed.append(p); continue
            if o.get('fatal'):
                caught.append({'property': p, 'rule': 'fatal', 'construct_contains': '', 'detail': o['fatal'][:200]}); continue
            vs = o.get('violations') or []
            real = [v for v in vs if v['rule'] not in ('instance-count',)] or vs
            if real:
                v = real[0]
                caught.append({'property': p, 'rule': v['rule'], 'construct_contains': v['construct'].split(' #')[0], 'pos': v['pos'], 'n_violations': len(vs)})
            else:
                missed.append(p)
        old_c = {c['property']: c for c in meta.get('caught_by', [])}
        old_m = set(meta.get('missed_by', []))
        for c in caught: old_c[c['property']] = c; old_m.discard(c['property'])
        for m in missed: old_c.pop(m, None); old_m.add(m)
        meta['caught_by'] = [old_c[k] for k in sorted(old_c)]
        meta['missed_by'] = sorted(old_m)
        json.dump(meta, open(f'{d}/meta.json', 'w'), indent=1)
        return sid, 'caught by ' + ','.join(c['property'] + '/' + c['rule'] for c in caught) + ' | missed by ' + ','.join(missed)
    finally:
        shutil.rmtree(tmp, ignore_errors=True)

with cf.ThreadPoolExecutor(max_workers=int(os.environ.get('MX_WORKERS','5'))) as ex:
    for sid, msg in ex.map(run_seed, seeds):
        print(f'{sid}: {msg}', flush=True)
