#!/usr/bin/env python3
"""Round-7 seeding prompt: property text + worktree + all ideas used so far; deliverables under /tmp/seedout7/<pid>."""
import json, sys, glob, subprocess
pid, wt = sys.argv[1], sys.argv[2]
base = subprocess.check_output(['python3','/verif/tools/seed_prompt.py',pid,wt],text=True).replace('/tmp/seedout/'+pid, '/tmp/seedout7/'+pid)
used=[]
for m in sorted(glob.glob(f'/verif/seeded/{pid}-*/meta.json')):
    j=json.load(open(m)); used.append('- '+j.get('summary','')[:330].replace('\n',' '))
extra = "\n\nIMPORTANT — ideas already used by earlier rounds (do NOT repeat them or close variants; find DIFFERENT mechanisms, different files/functions where possible; two cooperating sites and multi-step sequences are especially welcome):\n" + "\n".join(used) + "\n\nAlso never use `git stash` (refs/stash is shared between worktrees); use `git diff > patch.diff` and `git checkout -- .` instead.\n"
print(base.rstrip()+extra)
